#!/venv/bin/python
"""C16 — operators within the documented constraints are accelerated, others stay on the CPU.

Lean: Props/C16.lean (report_matches_table, supported_iff_all, …) over tables regenerated from the live
TFLiteSupportedOperators / TFLiteSemantic objects, the freshly generated report and the committed SUPPORTED_OPS.md.
(a) function level: stub operators inside / just outside every numeric range -> real is_operator_supported /
    is_operator_semantic_valid verdict (and WHICH constraint failed) vs Model/Constraints.lean; the Spec
    (Spec/Constraints.lean: what the report text says) judges the real verdicts.
(b) pipeline level: generated single-operator and small networks x accelerators compiled with the real compiler;
    placement predicted by the Spec on the SOURCE operator vs placement read from the OUTPUT file with the plain
    flatbuffer walker and vs the "CPU operators =" console line; the operators the checkers actually see during the
    compilation are captured and run through the model as well.
(c) committed SUPPORTED_OPS.md vs fresh report (Lean reportDrift)."""
import collections
import multiprocessing
import os
import random
import re
import tempfile
import zlib
from concurrent.futures import ProcessPoolExecutor

import common
from common import Check, main_wrapper

ACCS = ["ethos-u55-32", "ethos-u55-64", "ethos-u55-128", "ethos-u55-256", "ethos-u65-256", "ethos-u65-512"]


# ------------------------------------------------------------------------------------------------
# pipeline worker


def _compile_job(job):
    """job = (seed, index, label, tflite bytes, opts).  Runs in a forked worker."""
    import traceback

    seed, idx, label, data, opts, tgt = job
    out = {"idx": idx, "label": label, "opts": opts, "tgt": tgt}
    try:
        import c16_lib
        import pipeline
        from ethosu.vela import tflite_reader
        from ethosu.vela.tflite_model_semantic import TFLiteSemantic
        from ethosu.vela.tflite_supported_operators import TFLiteSupportedOperators

        # source operators as Vela's reader presents them to the checkers
        d = tempfile.mkdtemp(prefix="velaverif_c16_")
        src = []
        try:
            p = os.path.join(d, "src.tflite")
            with open(p, "wb") as f:
                f.write(data)
            try:
                import contextlib
                import io

                with contextlib.redirect_stdout(io.StringIO()):
                    nng = tflite_reader.read_tflite(p, 1, {}, [], [])
                ops = []
                for sg in nng.subgraphs:
                    ops += [o for o in sg.get_all_ops() if o.type.name not in ("Const", "Placeholder", "SubgraphInput")]
                for o in ops:
                    src.append({"op_index": int(getattr(o, "op_index", -1)), "type": o.type.name,
                                "out_names": [t.name for t in o.outputs if t is not None], "desc": c16_lib.describe(o)})
            except Exception:  # noqa: B902  the reader itself failed: nothing to predict
                out["reader_exception"] = traceback.format_exc()[-600:]
        finally:
            import shutil

            shutil.rmtree(d, ignore_errors=True)
        out["src"] = src
        out["src_records"] = c16_lib.op_records(data)
        # capture what the two checkers are asked during the real compilation
        seen = []
        o_sup, o_sem = TFLiteSupportedOperators.is_operator_supported, TFLiteSemantic.is_operator_semantic_valid

        def w_sup(self, op):
            try:
                dsc = c16_lib.describe(op)
            except Exception:  # noqa: B902
                dsc = None
            r = o_sup(self, op)
            seen.append(("sup", dsc, bool(r), op.name))
            return r

        def w_sem(self, op):
            try:
                dsc = c16_lib.describe(op)
            except Exception:  # noqa: B902
                dsc = None
            r = o_sem(self, op)
            if op.type.name not in ("Const", "Placeholder", "SubgraphInput"):
                seen.append(("sem", dsc, bool(r), op.name))
            return r

        TFLiteSupportedOperators.is_operator_supported = w_sup
        TFLiteSemantic.is_operator_semantic_valid = w_sem
        try:
            res = pipeline.compile_net(data, opts, name=f"c16_{idx}", introspect=False)
        finally:
            TFLiteSupportedOperators.is_operator_supported = o_sup
            TFLiteSemantic.is_operator_semantic_valid = o_sem
        import pipe_common

        out.update(site=pipe_common.exc_site(res.tb, res.exc) if res.status == "internal-exception" else "", status=res.status, exc=(type(res.exc).__name__ + ": " + str(res.exc))[:200] if res.exc is not None else "",
                   tb=res.tb[-800:], out_model=res.out_model, stdout=res.stdout, seen=seen)
        pipeline.reset_process_state()
    except BaseException:  # noqa: B902
        out["harness_exception"] = traceback.format_exc()[-1500:]
    return out


def observed_cpu_ops(model):
    """[(builtin code, [output tensor names])] of the operators of the output file that are not Ethos-U custom operators"""
    import fbwalk  # noqa: F401

    res, n_npu = [], 0
    for sg in model["subgraphs"]:
        for op in sg["operators"]:
            code = model["operator_codes"][op["opcode_index"]]
            if code["builtin"] == 32 and code["custom"] == "ethos-u":
                n_npu += 1
                continue
            res.append((code["builtin"], [sg["tensors"][i]["name"] for i in op["outputs"] if i >= 0]))
    return res, n_npu


def main():
    ck = Check("C16", "other")
    lean = ck.lean_stage(["VelaVerif.Props.C16"])
    common.build_mlw_codec()
    common.setup_repo_path()
    import c16_lib
    import c16_nets
    import c16_opts_nets
    import fbwalk
    import netgen
    import pipeline

    rng = ck.rng
    explore = "--explore" in os.sys.argv
    if ck.replay_arg:
        replay(ck, ck.replay_arg)
        return
    driver_ok = not getattr(lean, "driver_broken", False)
    if not driver_ok:
        ck.finish({"evaluations": 0, "distinct_nontrivial": 0, "rule": "-", "explanation": "Lean model does not build against the regenerated tables"})

    # ---- report vs live objects, committed document vs fresh report (all computed in Lean) ----------------------
    rep, drift = ck.model(["c16report", "c16drift"], parallel=False)
    ck.count("report_" + rep.split(" ")[0])
    if rep != "ok":
        ck.violation("the generated supported-operators report and the live constraint objects disagree: " + rep[:400],
                     {"lean": "Spec.reportProblems freshReport", "answer": rep,
                      "replay": "cd lean && printf 'c16report\\n' | .lake/build/bin/drv"}, found_input=True)
    if drift != "ok":
        for key in drift.split(" ")[1:]:
            ck.violation(f"committed SUPPORTED_OPS.md differs from the report this tree generates: {key}",
                         {"lean": "Spec.reportDrift committedReport freshReport", "entry": key,
                          "replay": "vela --supported-ops-report; diff SUPPORTED_OPS.md <generated>"})

    # ---- (a) function level ------------------------------------------------------------------------------------------
    rc = c16_lib.RealCheckers()
    cases = c16_lib.stub_cases(rng, ck.thorough)
    reqs, meta = [], []
    import contextlib
    import io
    import warnings

    warnings.simplefilter("ignore")
    for fam, label, op in cases:
        if op is None:
            ck.count("stub_unbuildable")
            continue
        d = c16_lib.describe(op)
        rs, ru = rc.verdict("sem", op), rc.verdict("sup", op)
        run = "raised" if rs.startswith("raised") else (rs if rs != "npu" else ("raised" if ru.startswith("raised") else ru))
        meta.append((fam, label, d, rs, ru, run))
        reqs += [f"c16 sem {d}", f"c16 sup {d}", f"c16 doc {d}"]
    outs = ck.model(reqs)
    fn_dis, fn_unmodelled, spec_rej = [], 0, []
    fams = collections.Counter()
    nontrivial = set()
    judge_reqs, judge_meta = [], []
    for i, (fam, label, d, rs, ru, run) in enumerate(meta):
        ms, mu, doc = outs[3 * i], outs[3 * i + 1], outs[3 * i + 2]
        fams[fam] += 1
        for which, m, r in (("sem", ms, rs), ("sup", mu, ru)):
            cm, cr = c16_lib.canon_model(m), c16_lib.canon_real(r)
            ck.count(f"fn_{which}_" + cr.split(" ")[0])
            if cr.startswith("cpu "):
                ck.count("failed_" + cr.split(" ")[1])
            if cm.startswith("unmodelled"):
                fn_unmodelled += 1
                ck.count("fn_unmodelled_" + cm.split(" ")[1])
            elif cm != cr:
                fn_dis.append((i, which, m, r))
        nontrivial.add((fam, rs, ru))
        obs = "npu" if run == "npu" else ("cpu" if run.startswith("cpu") else "raised")
        judge_reqs.append(f"c16judge {doc.split(' ')[0]} {obs}")
        judge_meta.append((i, doc, obs))
        ck.count("doc_" + doc.split(" ")[0])
    jouts = ck.model(judge_reqs)
    for (i, doc, obs), j in zip(judge_meta, jouts):
        if j != "1" and obs != "raised":
            spec_rej.append((i, doc, obs))
    for i, doc, obs in spec_rej[:6]:
        fam, label, d, rs, ru, run = meta[i]
        ck.violation(f"documented constraints and the real verdict disagree on a stub {fam} operator ({label}): the report says "
                     f"'{doc[:120]}', is_operator_semantic_valid -> {rs}, is_operator_supported -> {ru}",
                     {"family": fam, "label": label, "descriptor": d[:3000], "documented": doc, "semantic": rs, "supported": ru,
                      "replay": "harness/c16_lib.py stub_cases(Random(seed)) -> RealCheckers().verdict(...)"}, found_input=True)
    if fn_dis and not spec_rej:
        i, which, m, r = min(fn_dis, key=lambda t: len(meta[t[0]][2]))
        fam, label, d = meta[i][:3]
        ck.violation(f"correspondence Model/Constraints.lean vs {which} checker broken on {len(fn_dis)} stub operators, e.g. {fam} ({label}): "
                     f"model '{m}' real '{r}'", {"correspondence": f"c16 {which}", "family": fam, "label": label, "descriptor": d[:3000],
                                                 "model": m, "real": r, "n": len(fn_dis)}, found_input=False)
    elif fn_dis:
        ck.notes.append(f"{len(fn_dis)} model/code disagreements at function level (see violations)")
    if explore:
        for i, which, m, r in fn_dis[:20]:
            print("FN-DIS", meta[i][0], meta[i][1], which, "model:", m, "real:", r)
        for i, doc, obs in spec_rej[:20]:
            print("SPEC-REJ", meta[i][0], meta[i][1], doc, obs, meta[i][3], meta[i][4])

    # ---- (b) pipeline level -----------------------------------------------------------------------------------------
    nets = c16_opts_nets.all_cases(random.Random(ck.seed * 7919 + 16), ck.thorough)
    jobs = []
    for idx, (label, net) in enumerate(nets):
        try:
            data = netgen.serialize(net)
        except Exception:  # noqa: B902
            ck.count("net_unserialisable")
            continue
        accs = ACCS if ck.thorough else [ACCS[(idx + k * 3 + ck.seed) % 6] for k in range(2 if idx % 7 == 0 else 1)]
        for acc in accs:
            opts = ["--accelerator-config", acc] + list(getattr(net, "extra_opts", []))
            if (idx + ck.seed) % 5 == 0:
                opts.append("--show-cpu-operations")
            jobs.append((ck.seed, idx, label, data, opts, getattr(net, "tgt", None)))
    pipeline.load_vela()
    ctx = multiprocessing.get_context("fork")
    with ProcessPoolExecutor(min(16, os.cpu_count() or 4), mp_context=ctx) as ex:
        results = list(ex.map(_compile_job, jobs, chunksize=2))
    preqs, pmeta = [], []
    c13_skipped, crashes = 0, []
    c13_sites = [k["key"] for k in common.load_known_findings() if k["property"] == "C13"]
    for r in results:
        if "harness_exception" in r:
            raise common.InfraError("pipeline worker failed:\n" + r["harness_exception"])
        ck.count("compile_" + r["status"])
        if r["status"] == "internal-exception":
            # A crash at a site recorded under C13 is C13's subject: skipped and counted.  A crash anywhere else means the
            # compiler died on a network whose operators had all been placed (every generated network is valid input):
            # the operators that should "stay on the CPU unchanged" are in no output file at all.
            site = r.get("site", "")
            if any(k == site or k.startswith(site + ":") for k in c13_sites):
                c13_skipped += 1
                ck.count("skipped_" + site)
            else:
                crashes.append(r)
            continue
        if r["status"] != "ok" or r.get("out_model") is None:
            continue
        model = fbwalk.parse(r["out_model"])
        cpu_ops, n_npu = observed_cpu_ops(model)
        r["cpu_ops"], r["n_npu"] = cpu_ops, n_npu
        r["out_records"] = [x for x in c16_lib.op_records(r["out_model"]) if not (x["code"] == 32 and x["custom"] == "ethos-u")]
        for k, s in enumerate(r.get("src", [])):
            preqs += [f"c16 doc {s['desc']}", f"c16 place {s['desc']}", f"c16 docc {s['desc']}"]
            pmeta.append((r, k))
        for which, dsc, verdict, name in r.get("seen", []):
            if dsc is not None:
                preqs.append(f"c16 {which} {dsc}")
                pmeta.append((r, (which, verdict, name, dsc)))
    pouts = ck.model(preqs)
    pos = 0
    BO = {}
    from ethosu.vela.tflite.BuiltinOperator import BuiltinOperator

    for k, v in vars(BuiltinOperator).items():
        if isinstance(v, int):
            BO[k] = v
    from ethosu.vela.tflite_mapping import builtin_operator_inv_map
    from ethosu.vela.operation import Op as VOp

    def builtin_of(type_name):
        e = builtin_operator_inv_map.get(getattr(VOp, type_name))
        return int(e[0]) if e else None

    placement, insitu_dis, console_bad = [], [], []
    judge2, judge2_meta = [], []
    seen_ops = 0
    for (r, k) in pmeta:
        if isinstance(k, int):
            doc, run, docc = pouts[pos], pouts[pos + 1], pouts[pos + 2]
            pos += 3
            s = r["src"][k]
            code = builtin_of(s["type"])
            on_cpu = any(c == code and set(names) == set(s["out_names"]) for c, names in r["cpu_ops"])
            obs = "cpu" if on_cpu else "npu"
            judge2 += [f"c16judge {doc.split(' ')[0]} {obs}", f"c16judge {docc.split(' ')[0]} {obs}"]
            judge2_meta.append((r, k, doc, run, obs, docc))
        else:
            which, verdict, name, dsc = k
            m = pouts[pos]
            pos += 1
            seen_ops += 1
            cm = c16_lib.canon_model(m)
            if cm.startswith("unmodelled") or m == "err:parse":
                ck.count("insitu_unmodelled")
            elif (cm == "npu") != verdict and not cm.startswith("raised"):
                insitu_dis.append((r, which, verdict, name, dsc, m))
            ck.count(f"insitu_{which}_{'npu' if verdict else 'cpu'}")
    j2 = ck.model(judge2)
    nets_ok = set()
    # soundness of the observation: every non-Ethos-U operator of the output file is one of the source operators
    unmatched = []
    for r in results:
        if r.get("status") != "ok" or "cpu_ops" not in r:
            continue
        srcs = [(builtin_of(s["type"]), set(s["out_names"])) for s in r.get("src", [])]
        for c, names in r["cpu_ops"]:
            if (c, set(names)) not in srcs:
                unmatched.append((r, c, names))
    for r, c, names in unmatched[:3]:
        ck.violation(f"output file holds a CPU operator (builtin {c}, outputs {names}) that is not a source operator ({r['label']}, {r['opts']})",
                     {"label": r["label"], "opts": r["opts"], "builtin": c, "outputs": names, "seed": ck.seed, "index": r["idx"]})
    committed_doc = []
    for n, (r, k, doc, run, obs, docc) in enumerate(judge2_meta):
        j, jc = j2[2 * n], j2[2 * n + 1]
        s = r["src"][k]
        ck.count(f"placement_{s['type']}_{obs}")
        ck.count("pipeline_doc_" + doc.split(" ")[0])
        nets_ok.add((r["label"], tuple(r["opts"][:2])))
        if j != "1":
            placement.append((r, k, doc, run, obs))
        elif jc != "1":
            # the fresh report agrees with the observed placement, the committed SUPPORTED_OPS.md does not
            committed_doc.append((r, k, docc, obs))
    seen_keys = collections.Counter()
    for r, k, docc, obs in committed_doc:
        s = r["src"][k]
        parts = docc.split(" ")
        ext = parts[-1][4:]
        key = f"doc-drift:1:{ext}:" if parts[0] == "silent" else (f"doc-drift:4:{ext}:{parts[2]}" if parts[0] == "cpu" else "doc-drift:npu")
        ck.count("committed_doc_contradicted")
        seen_keys[key] += 1
        if seen_keys[key] > 2:
            continue
        ck.violation(f"{s['type']} in '{r['label']}' ({r['opts'][1]}): the committed SUPPORTED_OPS.md says {' '.join(parts[:3])}, observed placement {obs} "
                     "(the freshly generated report agrees with the observation)",
                     {"label": r["label"], "opts": r["opts"], "seed": ck.seed, "index": r["idx"], "operator": s["type"], "committed_document": docc,
                      "observed": obs, "descriptor": s["desc"][:3000], "entry": key}, found_input=True)
    # "... stays on the CPU UNCHANGED": every CPU-resident operator of the output file vs the source operator it came from
    same_reqs, same_meta = [], []
    for r in results:
        if r.get("status") != "ok" or "out_records" not in r:
            continue
        for o in r["out_records"]:
            srcs = [x for x in r.get("src_records", []) if x["code"] == o["code"] and x["outs"] == o["outs"]]
            if len(srcs) == 1:
                al = c16_lib.alias_tokens(r.get("src_records", []), srcs[0], o)
                if al:
                    ck.count("cpu_op_reads_bypassed_tensor")
                same_reqs.append(" ".join([f"c16same {srcs[0]['canon']} {o['canon']}"] + al))
                same_meta.append((r, srcs[0], o))
    changed = [(m, a) for m, a in zip(same_meta, ck.model(same_reqs)) if a != "1"]
    ck.count("cpu_ops_compared_with_source", len(same_reqs))
    rep_changed = 0
    for (r, so, oo), _a in changed:
        what = c16_lib.canon_diff(so["canon"], oo["canon"])
        key = f"cpu-op-changed:{so['code']}:{'+'.join(w.replace(' ', '_') for w in what)}" + (":force-symmetric" if "--force-symmetric-int-weights" in r["opts"] else "")
        if ck.finding_key_known(key) is None:
            rep_changed += 1
            if rep_changed > 4:
                continue
        ck.violation(f"operator left on the CPU is not written unchanged ({r['label']}, {r['opts'][1]}): builtin {so['code']} outputs {so['outs']} differs in {what}: "
                     f"source {so['canon'][:160]} / output {oo['canon'][:160]}",
                     {"label": r["label"], "opts": r["opts"], "seed": ck.seed, "index": r["idx"], "source": so["canon"], "output": oo["canon"], "differs": what},
                     found_input=True, key=key)
    rep_sites = collections.Counter()
    creqs = [f"c16 doc {s_['desc']}" for r in crashes for s_ in r.get("src", [])]
    couts = iter(ck.model(creqs))
    for r in crashes:
        docs = [next(couts).split(" ")[0] for _ in r.get("src", [])]
        # the same site with and without an operator the report keeps off the NPU are different findings: a rewrite
        # reaching an operator that was placed on the CPU is exactly what "stays on the CPU unchanged" forbids
        tdoc = [(d, s_["type"]) for d, s_ in zip(docs, r.get("src", [])) if r.get("tgt") is not None and s_["op_index"] == r["tgt"]]
        if tdoc:
            site = r.get("site", "?") + ":" + tdoc[0][1] + "-" + ("cpu" if tdoc[0][0] in ("cpu", "silent") else tdoc[0][0])
        else:
            site = r.get("site", "?") + (":some-cpu" if any(d in ("cpu", "silent") for d in docs) else ":all-npu")
        r["docs"] = docs
        rep_sites[site] += 1
        if rep_sites[site] > 2:
            continue
        ck.violation(f"compilation of '{r['label']}' ({r['opts'][1]}) died with {r.get('exc', '')[:120]} at {site} (not a crash recorded under C13): "
                     "no operator of this network stays on the CPU unchanged",
                     {"label": r["label"], "opts": r["opts"], "seed": ck.seed, "index": r["idx"], "exception": r.get("exc"), "site": site,
                      "traceback_tail": r.get("tb"), "source_ops": [s_["type"] for s_ in r.get("src", [])], "documented": r.get("docs")}, found_input=True, key="crash:" + site)
    # console summary vs output file
    for r in results:
        if r.get("status") != "ok" or "cpu_ops" not in r:
            continue
        m = re.search(r"CPU operators = (\d+)", r["stdout"])
        if m is None:
            ck.count("console_no_summary")
            continue
        ck.count("console_checked")
        if int(m.group(1)) != len(r["cpu_ops"]):
            console_bad.append((r, int(m.group(1)), len(r["cpu_ops"])))
        if "--show-cpu-operations" in r["opts"]:
            listed = re.findall(r"^\s+CPU: (\S+) = (.*?) \(inputs", r["stdout"], flags=re.M)
            if len(listed) != len(r["cpu_ops"]):
                console_bad.append((r, len(listed), len(r["cpu_ops"])))
    for r, a, b in console_bad[:3]:
        ck.violation(f"console says {a} CPU operators, the output file holds {b} ({r['label']}, {r['opts']})",
                     {"label": r["label"], "opts": r["opts"], "console": a, "output_file": b, "seed": ck.seed, "index": r["idx"]})
    for r, which, verdict, name, dsc, m in insitu_dis[:3]:
        ck.violation(f"correspondence broken on an operator the {which} checker saw during a real compilation ({r['label']}, op {name}): "
                     f"real {'npu' if verdict else 'cpu'}, model '{m}'",
                     {"correspondence": f"c16 {which} (in situ)", "label": r["label"], "opts": r["opts"], "descriptor": dsc[:3000], "model": m,
                      "real": verdict, "seed": ck.seed, "index": r["idx"]}, found_input=False)
    known_place = classify_placement(ck, placement, explore)
    if explore:
        for r, k, doc, run, obs in placement[:60]:
            print("PLACE", r["label"], r["opts"][1], r["src"][k]["type"], "doc:", doc[:90], "| model run:", run[:70], "| observed:", obs)
        for r, which, verdict, name, dsc, m in insitu_dis[:20]:
            print("INSITU", r["label"], which, verdict, name, m)
        print("c13 skipped", c13_skipped, "placement disagreements", len(placement), "known", known_place)

    for r in results[:3]:
        if r.get("src"):
            ck.sample({"network": r["label"], "opts": r["opts"], "status": r["status"],
                       "source_ops": [s["type"] for s in r["src"]], "cpu_ops_in_output": len(r.get("cpu_ops", []))})
    sup_never = sorted(n for n in rc.docs["sup"] if ck.counters.get("failed_" + n, 0) == 0)
    sem_never = sorted(n for n in rc.docs["sem"] if ck.counters.get("failed_" + n, 0) == 0)
    ck.finish({
        "explanation": "Level 'other': the constraint lists, ranges and the report text are regenerated from the live objects and tied "
                       "together by kernel-checked theorems; the per-operator model is validated against the real checkers on stub operators "
                       "inside/just outside every range; placement after graph optimisation is observed on compiled networks, not proved.",
        "evaluations": len(meta) * 2 + len(judge2_meta) + seen_ops,
        "distinct_nontrivial": len(nontrivial) + len(nets_ok),
        "rule": "function level: stub operator x checker, distinct by (family, semantic verdict incl. failing constraint, supported verdict incl. "
                "failing constraint); pipeline level: (network label, accelerator) compiled to an output file, non-trivial = it compiled and at "
                "least one source operator's placement was judged",
        "stub_operators": len(meta), "stub_families": dict(fams),
        "function_level_disagreements": len(fn_dis), "function_level_unmodelled": fn_unmodelled, "spec_rejections_function_level": len(spec_rej),
        "compilations": len(results), "compilations_skipped_c13": c13_skipped, "compilations_crashed_elsewhere": len(crashes), "source_ops_judged": len(judge2_meta),
        "placement_disagreements": len(placement), "placement_known": known_place,
        "cpu_ops_compared_with_source": len(same_reqs), "cpu_ops_changed": len(changed),
        "operators_seen_by_checkers_in_situ": seen_ops, "in_situ_disagreements": len(insitu_dis),
        "unreached_branches": {"supported_constraints_never_failing_in_stubs": sup_never, "semantic_constraints_never_failing_in_stubs": sem_never},
        "exhaustive": False,
    }, assumptions=["Vela's tflite_reader is the translation source operator -> internal operator for the pipeline-level prediction",
                    "a source operator 'stays on the CPU' iff the output file holds an operator with the same builtin code and the same output tensor names",
                    "compilations that die with a non-Vela exception are C13's subject and are skipped (counted)"])


def replay(ck, path):
    """Re-run one recorded case: a stub operator (family, label) through the real checkers and the Lean model/Spec, or
    one generated network through the compiler.  Exit 1 when the disagreement is still there."""
    import json
    import sys

    import c16_lib
    import c16_nets
    import c16_opts_nets
    import fbwalk
    import netgen

    rp = json.load(open(path if os.path.isabs(path) or os.path.exists(path) else os.path.join(common.VERIF, path)))
    seed, body = int(rp.get("seed", 0)), rp["replay"]
    bad = False
    if "family" in body:
        rng = random.Random(seed * 1000003 + sum(map(ord, "C16")))
        rc = c16_lib.RealCheckers()
        for fam, label, op in c16_lib.stub_cases(rng, rp.get("tier") == "thorough"):
            if fam == body["family"] and label == body["label"] and op is not None:
                d = c16_lib.describe(op)
                rs, ru = rc.verdict("sem", op), rc.verdict("sup", op)
                ms, mu, doc = ck.model([f"c16 sem {d}", f"c16 sup {d}", f"c16 doc {d}"], parallel=False)
                print(f"stub {fam} ({label}):\n  real semantic  {rs}\n  model semantic {ms}\n  real supported  {ru}\n  model supported {mu}\n  report says     {doc}")
                run = rs if rs != "npu" else ru
                obs = "npu" if run == "npu" else ("cpu" if run.startswith("cpu") else "raised")
                j = ck.model([f"c16judge {doc.split(' ')[0]} {obs}"], parallel=False)[0]
                bad = (j != "1" and obs != "raised") or c16_lib.canon_model(ms) != c16_lib.canon_real(rs) or c16_lib.canon_model(mu) != c16_lib.canon_real(ru)
                break
        else:
            print("case not found")
    elif "index" in body:
        nets = c16_opts_nets.all_cases(random.Random(seed * 7919 + 16), rp.get("tier") == "thorough")
        label, net = nets[int(body["index"])]
        r = _compile_job((seed, int(body["index"]), label, netgen.serialize(net), body["opts"], getattr(net, "tgt", None)))
        print(f"network '{label}' {body['opts']}: {r.get('status')} {r.get('exc', '')}")
        if r.get("status") == "ok" and r.get("out_model") is not None:
            cpu_ops, n_npu = observed_cpu_ops(fbwalk.parse(r["out_model"]))
            print(f"  output file: {len(cpu_ops)} CPU operators {cpu_ops}, {n_npu} Ethos-U operators")
            for s in r.get("src", []):
                doc, place, docc = ck.model([f"c16 doc {s['desc']}", f"c16 place {s['desc']}", f"c16 docc {s['desc']}"], parallel=False)
                print(f"  {s['type']} -> {s['out_names']}: report says {doc} | model {place} | committed document says {docc}")
                from ethosu.vela.operation import Op as VOp
                from ethosu.vela.tflite_mapping import builtin_operator_inv_map
                e = builtin_operator_inv_map.get(getattr(VOp, s["type"]))
                on_cpu = any(e is not None and c == int(e[0]) and set(names) == set(s["out_names"]) for c, names in cpu_ops)
                obs = "cpu" if on_cpu else "npu"
                if ck.model([f"c16judge {doc.split(' ')[0]} {obs}"], parallel=False)[0] != "1":
                    print(f"    observed {obs}: DISAGREES with the report")
                    bad = True
            outs_rec = [x for x in c16_lib.op_records(r["out_model"]) if not (x["code"] == 32 and x["custom"] == "ethos-u")]
            for o in outs_rec:
                for so in [x for x in r.get("src_records", []) if x["code"] == o["code"] and x["outs"] == o["outs"]]:
                    al = c16_lib.alias_tokens(r.get("src_records", []), so, o)
                    same = ck.model([" ".join([f"c16same {so['canon']} {o['canon']}"] + al)], parallel=False)[0] == "1"
                    print(f"  CPU operator {o['code']} -> {o['outs']}: {'unchanged' if same else 'CHANGED'}\n    source {so['canon']}\n    output {o['canon']}")
                    if al:
                        print("    input substitutions (chains in the source graph):", al)
                    bad = bad or not same
            m = re.search(r"CPU operators = (\d+)", r["stdout"])
            print("  console:", m.group(0) if m else "no summary")
    else:
        print(json.dumps(body, indent=1)[:3000])
    sys.stdout.flush()
    os._exit(1 if bad else 0)


# keys of known_findings.txt for placement differences of the unchanged tree (see design.d/C16.md)
def classify_placement(ck, placement, explore):
    known, reported = 0, 0
    for r, k, doc, run, obs in placement:
        s = r["src"][k]
        key = placement_key(s, doc, run, obs)
        rp = {"label": r["label"], "opts": r["opts"], "seed": ck.seed, "index": r["idx"], "operator": s["type"], "outputs": s["out_names"],
              "documented": doc, "model_run_on_npu": run, "observed": obs, "descriptor": s["desc"][:3000],
              "replay": "harness/c16_nets.cases(Random(seed*7919+16))[index] -> netgen.serialize -> vela"}
        what = (f"{s['type']} in '{r['label']}' ({r['opts'][1]}): the report's constraints say {doc.split(' ')[0]} "
                f"({' '.join(doc.split(' ')[1:])[:80]}), observed placement {obs}")
        if key is not None and ck.finding_key_known(key) is not None:
            ck.violation(what, rp, found_input=True, key=key)
            known += 1
        elif reported < 6:
            ck.violation(what, rp, found_input=True, key=key)
            reported += 1
    return known


def placement_key(s, doc, run, obs):
    """A difference between the documented verdict and the observed placement is a *known* finding only when the
    model of the undocumented mechanisms that run between the two checks (Model.placeModel) predicts the observed
    placement and names the mechanism; anything else has no key and is reported."""
    m = re.match(r"(\S+).* via=(\S+)$", run)
    if m and m.group(2) != "-" and m.group(1) == obs:
        return "placement:undocumented:" + m.group(2)
    return None


main_wrapper(main)
