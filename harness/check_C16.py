#!/venv/bin/python
"""C16 — operators within the documented constraints are accelerated, others stay on the CPU.

Lean: Props/C16.lean (report_matches_table, supported_iff_all, …) over tables regenerated from the live
TFLiteSupportedOperators / TFLiteSemantic objects, the freshly generated report and the committed SUPPORTED_OPS.md.
(a) function level: stub operators inside / just outside every numeric range -> real is_operator_supported /
    is_operator_semantic_valid verdict (and WHICH constraint failed) vs Model/Constraints.lean; the Spec
    (Spec/Constraints.lean: what the report text says) judges the real verdicts.
(b) pipeline level: generated single-operator and small networks x accelerators compiled with the real compiler;
    placement predicted by the Spec on the SOURCE operator vs placement read from the OUTPUT file with the plain
    flatbuffer walker and vs the "CPU operators =" console line; the operators the checkers actually see during the
    compilation are captured and run through the model as well.
(c) committed SUPPORTED_OPS.md vs fresh report (Lean reportDrift)."""
import collections
import multiprocessing
import os
import random
import re
import tempfile
import zlib
from concurrent.futures import ProcessPoolExecutor

import common
from common import Check, main_wrapper

ACCS = ["ethos-u55-32", "ethos-u55-64", "ethos-u55-128", "ethos-u55-256", "ethos-u65-256", "ethos-u65-512"]


# ------------------------------------------------------------------------------------------------
# pipeline worker


def _compile_job(job):
    """job = (seed, index, label, tflite bytes, opts).  Runs in a forked worker."""
    import traceback

    import time

    seed, idx, label, data, opts, tgt = job
    out = {"idx": idx, "label": label, "opts": opts, "tgt": tgt}
    t_start, w_start = time.process_time(), time.time()
    try:
        import c16_lib
        import pipeline
        from ethosu.vela import tflite_reader
        from ethosu.vela.tflite_model_semantic import TFLiteSemantic
        from ethosu.vela.tflite_supported_operators import TFLiteSupportedOperators

        # source operators as Vela's reader presents them to the checkers
        d = tempfile.mkdtemp(prefix="velaverif_c16_")
        src = []
        try:
            p = os.path.join(d, "src.tflite")
            with open(p, "wb") as f:
                f.write(data)
            try:
                import contextlib
                import io

                with contextlib.redirect_stdout(io.StringIO()):
                    nng = tflite_reader.read_tflite(p, 1, {}, [], [])
                ops = []
                for sg in nng.subgraphs:
                    ops += [o for o in sg.get_all_ops() if o.type.name not in ("Const", "Placeholder", "SubgraphInput")]
                for o in ops:
                    src.append({"op_index": int(getattr(o, "op_index", -1)), "type": o.type.name,
                                "out_names": [t.name for t in o.outputs if t is not None], "desc": c16_lib.describe(o)})
            except Exception:  # noqa: B902  the reader itself failed: nothing to predict
                out["reader_exception"] = traceback.format_exc()[-600:]
        finally:
            import shutil

            shutil.rmtree(d, ignore_errors=True)
        out["src"] = src
        out["src_records"] = c16_lib.op_records(data)
        # capture what the two checkers are asked during the real compilation
        seen = []
        o_sup, o_sem = TFLiteSupportedOperators.is_operator_supported, TFLiteSemantic.is_operator_semantic_valid

        def w_sup(self, op):
            try:
                dsc = c16_lib.describe(op)
            except Exception:  # noqa: B902
                dsc = None
            r = o_sup(self, op)
            seen.append(("sup", dsc, bool(r), op.name))
            return r

        def w_sem(self, op):
            try:
                dsc = c16_lib.describe(op)
            except Exception:  # noqa: B902
                dsc = None
            r = o_sem(self, op)
            if op.type.name not in ("Const", "Placeholder", "SubgraphInput"):
                seen.append(("sem", dsc, bool(r), op.name))
            return r

        TFLiteSupportedOperators.is_operator_supported = w_sup
        TFLiteSemantic.is_operator_semantic_valid = w_sem
        try:
            res = pipeline.compile_net(data, opts, name=f"c16_{idx}", introspect=False)
        finally:
            TFLiteSupportedOperators.is_operator_supported = o_sup
            TFLiteSemantic.is_operator_semantic_valid = o_sem
        import pipe_common

        out.update(site=pipe_common.exc_site(res.tb, res.exc) if res.status == "internal-exception" else "", status=res.status, exc=(type(res.exc).__name__ + ": " + str(res.exc))[:200] if res.exc is not None else "",
                   tb=res.tb[-800:], out_model=res.out_model, stdout=res.stdout, seen=seen)
        if res.status == "ok" and res.out_model is not None:
            import preserve_dump

            # both files as the plain walker sees them (the request format of C11's `preserve`): every verdict on them is Lean's
            line, _s, _o = preserve_dump.preserve_line(data, res.out_model)
            out["graph_toks"] = line.split(" ", 1)[1]
            out["n_src_ops"] = len(_s["subgraphs"][0]["operators"]) if _s["subgraphs"] else 0
        pipeline.reset_process_state()
    except BaseException:  # noqa: B902
        out["harness_exception"] = traceback.format_exc()[-1500:]
    out["cpu_s"], out["wall_s"] = time.process_time() - t_start, time.time() - w_start
    return out


def observed_cpu_ops(model):
    """[(builtin code, [output tensor names])] of the operators of the output file that are not Ethos-U custom operators"""
    import fbwalk  # noqa: F401

    res, n_npu = [], 0
    for sg in model["subgraphs"]:
        for op in sg["operators"]:
            code = model["operator_codes"][op["opcode_index"]]
            if code["builtin"] == 32 and code["custom"] == "ethos-u":
                n_npu += 1
                continue
            res.append((code["builtin"], [sg["tensors"][i]["name"] for i in op["outputs"] if i >= 0]))
    return res, n_npu


def main():
    ck = Check("C16", "other")
    lean = ck.lean_stage(["VelaVerif.Props.C16", "VelaVerif.Props.C16Src"])
    common.build_mlw_codec()
    common.setup_repo_path()
    import c16_lib
    import c16_nets
    import c16_opts_nets
    import fbwalk
    import netgen
    import pipeline

    import pending

    # repairs written but not yet in the tree under test: their keys stay open exactly as long as the patch still applies
    # forward to this tree (harness/pending.py); Model/Constraints.lean follows the REPAIRED behaviour of
    # constraint_resize (C13-22), constraint_tens_quant_per_axis (C13-24) and constraint_bias_40bit (C13-27)
    open_pending = pending.register(ck)
    rng = ck.rng
    explore = "--explore" in os.sys.argv
    import time as _time
    _t0 = [_time.time()]

    def mark(what):
        if explore or os.environ.get("VERIF_TIMING"):
            print(f"TIMING {what}: {_time.time() - _t0[0]:.1f}s", flush=True)
        _t0[0] = _time.time()
    mark("lean stage")
    if ck.replay_arg:
        replay(ck, ck.replay_arg)
        return
    driver_ok = not getattr(lean, "driver_broken", False)
    if not driver_ok:
        ck.finish({"evaluations": 0, "distinct_nontrivial": 0, "rule": "-", "explanation": "Lean model does not build against the regenerated tables"})

    # ---- report vs live objects, committed document vs fresh report (all computed in Lean) ----------------------
    rep, drift = ck.model(["c16report", "c16drift"], parallel=False)
    ck.count("report_" + rep.split(" ")[0])
    if rep != "ok":
        ck.violation("the generated supported-operators report and the live constraint objects disagree: " + rep[:400],
                     {"lean": "Spec.reportProblems freshReport", "answer": rep,
                      "replay": "cd lean && printf 'c16report\\n' | .lake/build/bin/drv"}, found_input=True)
    if drift != "ok":
        for key in drift.split(" ")[1:]:
            ck.violation(f"committed SUPPORTED_OPS.md differs from the report this tree generates: {key}",
                         {"lean": "Spec.reportDrift committedReport freshReport", "entry": key,
                          "replay": "vela --supported-ops-report; diff SUPPORTED_OPS.md <generated>"})

    # ---- (a) function level ------------------------------------------------------------------------------------------
    rc = c16_lib.RealCheckers()
    cases = c16_lib.stub_cases(rng, ck.thorough)
    reqs, meta = [], []
    import contextlib
    import io
    import warnings

    warnings.simplefilter("ignore")
    for fam, label, op in cases:
        if op is None:
            ck.count("stub_unbuildable")
            continue
        d = c16_lib.describe(op)
        rs, ru = rc.verdict("sem", op), rc.verdict("sup", op)
        run = "raised" if rs.startswith("raised") else (rs if rs != "npu" else ("raised" if ru.startswith("raised") else ru))
        meta.append((fam, label, d, rs, ru, run))
        reqs += [f"c16 sem {d}", f"c16 sup {d}", f"c16 doc {d}"]
    outs = ck.model(reqs)
    fn_dis, fn_unmodelled, spec_rej = [], 0, []
    fams = collections.Counter()
    nontrivial = set()
    judge_reqs, judge_meta = [], []
    for i, (fam, label, d, rs, ru, run) in enumerate(meta):
        ms, mu, doc = outs[3 * i], outs[3 * i + 1], outs[3 * i + 2]
        fams[fam] += 1
        for which, m, r in (("sem", ms, rs), ("sup", mu, ru)):
            cm, cr = c16_lib.canon_model(m), c16_lib.canon_real(r)
            ck.count(f"fn_{which}_" + cr.split(" ")[0])
            if cr.startswith("cpu "):
                ck.count("failed_" + cr.split(" ")[1])
            if cm.startswith("unmodelled"):
                fn_unmodelled += 1
                ck.count("fn_unmodelled_" + cm.split(" ")[1])
            elif cm != cr:
                fn_dis.append((i, which, m, r))
        nontrivial.add((fam, rs, ru))
        obs = "npu" if run == "npu" else ("cpu" if run.startswith("cpu") else "raised")
        judge_reqs.append(f"c16judge {doc.split(' ')[0]} {obs}")
        judge_meta.append((i, doc, obs))
        ck.count("doc_" + doc.split(" ")[0])
    jouts = ck.model(judge_reqs)
    for (i, doc, obs), j in zip(judge_meta, jouts):
        if j != "1" and obs != "raised":
            spec_rej.append((i, doc, obs))
    # A disagreement that names a constraint whose repair is pending for this tree is that recorded defect (the model
    # follows the repaired function); everything else is reported as before.
    def fn_key(which, m, r):
        cm, cr = c16_lib.canon_model(m), c16_lib.canon_real(r)
        if cm.startswith("cpu "):
            return f"fn-dis:{which}:model-rejects:{cm.split(' ')[1]}"
        if cr.startswith("cpu "):
            return f"fn-dis:{which}:real-rejects:{cr.split(' ')[1]}"
        return None

    def spec_key(doc, rs="", ru=""):
        parts = doc.split(" ")
        if parts[0] == "cpu" and len(parts) > 2:
            return "spec-rej:" + parts[2]
        for real in (rs, ru):
            if real.startswith("cpu ") and parts[0] == "npu":
                return "spec-rej:real-rejects:" + real.split(" ")[1]
        return None

    pending_fn = [t for t in fn_dis if ck.finding_key_known(fn_key(t[1], t[2], t[3])) is not None]
    for i, which, m, r in pending_fn:
        fam, label, d = meta[i][:3]
        ck.violation(f"constraint function differs from its repaired model on a stub {fam} operator ({label}): model '{m}' real '{r}'",
                     {"family": fam, "label": label, "descriptor": d[:3000], "model": m, "real": r}, found_input=True, key=fn_key(which, m, r))
    fn_dis = [t for t in fn_dis if t not in pending_fn]
    pending_spec = [t for t in spec_rej if ck.finding_key_known(spec_key(t[1], meta[t[0]][3], meta[t[0]][4])) is not None]
    for i, doc, obs in pending_spec:
        fam, label, d, rs, ru, run = meta[i]
        ck.violation(f"documented constraint and the unrepaired function disagree on a stub {fam} operator ({label}): report '{doc[:120]}', real {obs}",
                     {"family": fam, "label": label, "descriptor": d[:3000], "documented": doc, "semantic": rs, "supported": ru},
                     found_input=True, key=spec_key(doc, rs, ru))
    spec_rej = [t for t in spec_rej if t not in pending_spec]
    for i, doc, obs in spec_rej[:6]:
        fam, label, d, rs, ru, run = meta[i]
        ck.violation(f"documented constraints and the real verdict disagree on a stub {fam} operator ({label}): the report says "
                     f"'{doc[:120]}', is_operator_semantic_valid -> {rs}, is_operator_supported -> {ru}",
                     {"family": fam, "label": label, "descriptor": d[:3000], "documented": doc, "semantic": rs, "supported": ru,
                      "replay": "harness/c16_lib.py stub_cases(Random(seed)) -> RealCheckers().verdict(...)"}, found_input=True)
    if fn_dis and not spec_rej:
        i, which, m, r = min(fn_dis, key=lambda t: len(meta[t[0]][2]))
        fam, label, d = meta[i][:3]
        ck.violation(f"correspondence Model/Constraints.lean vs {which} checker broken on {len(fn_dis)} stub operators, e.g. {fam} ({label}): "
                     f"model '{m}' real '{r}'", {"correspondence": f"c16 {which}", "family": fam, "label": label, "descriptor": d[:3000],
                                                 "model": m, "real": r, "n": len(fn_dis)}, found_input=False)
    elif fn_dis:
        ck.notes.append(f"{len(fn_dis)} model/code disagreements at function level (see violations)")
    if explore:
        for i, which, m, r in fn_dis[:20]:
            print("FN-DIS", meta[i][0], meta[i][1], which, "model:", m, "real:", r)
        for i, doc, obs in spec_rej[:20]:
            print("SPEC-REJ", meta[i][0], meta[i][1], doc, obs, meta[i][3], meta[i][4])

    mark("function level")
    # ---- (b) pipeline level -----------------------------------------------------------------------------------------
    nets = c16_opts_nets.all_cases(random.Random(ck.seed * 7919 + 16), ck.thorough)
    jobs = []
    for idx, (label, net) in enumerate(nets):
        try:
            data = netgen.serialize(net)
        except Exception:  # noqa: B902
            ck.count("net_unserialisable")
            continue
        if ck.thorough:
            accs = ACCS
        elif getattr(net, "both_classes", False):
            # one accelerator whose SHRAM has no reserved LUT banks (LUT activations are not merged into the producer) and one with
            accs = [ACCS[(idx + ck.seed) % 2], ACCS[2 + (idx + ck.seed) % 4]]
        else:
            accs = [ACCS[(idx + ck.seed) % 6]]
        for acc in accs:
            opts = ["--accelerator-config", acc] + list(getattr(net, "extra_opts", []))
            if (idx + ck.seed) % 5 == 0:
                opts.append("--show-cpu-operations")
            jobs.append((ck.seed, idx, label, data, opts, getattr(net, "tgt", None)))
    pipeline.load_vela()
    # scratch directories of the ~4000 compilations on a memory file system: creating and removing a directory on the disk-backed /tmp
    # costs more than the compilation itself when the machine is busy (measured: 40 ms vs 0.06 ms per mkdtemp + rmtree)
    if os.path.isdir("/dev/shm") and os.access("/dev/shm", os.W_OK) and not os.environ.get("TMPDIR"):
        tempfile.tempdir = "/dev/shm"
    ctx = multiprocessing.get_context("fork")
    with ProcessPoolExecutor(min(16, os.cpu_count() or 4), mp_context=ctx) as ex:
        results = list(ex.map(_compile_job, jobs, chunksize=2))
    mark(f"{len(jobs)} compilations")
    if explore or os.environ.get("VERIF_TIMING"):
        tot = sum(r.get("cpu_s", 0) for r in results)
        print(f"TIMING compile wall total {sum(r.get('wall_s', 0) for r in results):.1f}s over {min(16, os.cpu_count() or 4)} workers")
        print(f"TIMING compile cpu total {tot:.1f}s; slowest:", [(round(r.get("cpu_s", 0), 2), r["label"]) for r in sorted(results, key=lambda r: -r.get("cpu_s", 0))[:25]])
        fam = collections.Counter()
        for r in results:
            fam[r["label"].split(" ")[0]] += r.get("cpu_s", 0)
        print("TIMING per family:", [(k, round(v, 1)) for k, v in fam.most_common(25)])
    preqs, pmeta = [], []
    c13_skipped, crashes = 0, []
    c13_sites = [k["key"] for k in common.load_known_findings() if k["property"] == "C13"] + sorted(pending.pending_keys("C13"))
    for r in results:
        if "harness_exception" in r:
            raise common.InfraError("pipeline worker failed:\n" + r["harness_exception"])
        ck.count("compile_" + r["status"])
        if r["status"] == "internal-exception":
            # A crash at a site recorded under C13 is C13's subject: skipped and counted.  A crash anywhere else means the
            # compiler died on a network whose operators had all been placed (every generated network is valid input):
            # the operators that should "stay on the CPU unchanged" are in no output file at all.
            site = r.get("site", "")
            if any(k == site or k.startswith(site + ":") for k in c13_sites):
                c13_skipped += 1
                ck.count("skipped_" + site)
            else:
                crashes.append(r)
            continue
        if r["status"] != "ok" or r.get("out_model") is None:
            continue
        model = fbwalk.parse(r["out_model"])
        cpu_ops, n_npu = observed_cpu_ops(model)
        r["cpu_ops"], r["n_npu"] = cpu_ops, n_npu
        r["out_records"] = [x for x in c16_lib.op_records(r["out_model"]) if not (x["code"] == 32 and x["custom"] == "ethos-u")]
        for k, s in enumerate(r.get("src", [])):
            preqs += [f"c16 doc {s['desc']}", f"c16 place {s['desc']}", f"c16 docc {s['desc']}"]
            pmeta.append((r, k))
        for which, dsc, verdict, name in r.get("seen", []):
            if dsc is not None:
                preqs.append(f"c16 {which} {dsc}")
                pmeta.append((r, (which, verdict, name, dsc)))
    mark("parse outputs")
    # the same descriptor is asked many times (the 1x1 CONV_2D / RELU neighbours, the operators the checkers see again): ask once
    uniq = list(dict.fromkeys(preqs))
    ans = dict(zip(uniq, ck.model(uniq)))
    pouts = [ans[q] for q in preqs]
    mark(f"{len(preqs)} doc/place/in-situ requests ({len(uniq)} distinct)")
    pos = 0
    BO = {}
    from ethosu.vela.tflite.BuiltinOperator import BuiltinOperator

    for k, v in vars(BuiltinOperator).items():
        if isinstance(v, int):
            BO[k] = v
    from ethosu.vela.tflite_mapping import builtin_operator_inv_map
    from ethosu.vela.operation import Op as VOp

    def builtin_of(type_name):
        e = builtin_operator_inv_map.get(getattr(VOp, type_name))
        return int(e[0]) if e else None

    placement, insitu_dis, console_bad = [], [], []
    seen_ops = 0
    for (r, k) in pmeta:
        if isinstance(k, int):
            doc, run, docc = pouts[pos], pouts[pos + 1], pouts[pos + 2]
            pos += 3
            r.setdefault("verdicts", {})[k] = (doc, run, docc)
        else:
            which, verdict, name, dsc = k
            m = pouts[pos]
            pos += 1
            seen_ops += 1
            cm = c16_lib.canon_model(m)
            if cm.startswith("unmodelled") or m == "err:parse":
                ck.count("insitu_unmodelled")
            elif (cm == "npu") != verdict and not cm.startswith("raised"):
                insitu_dis.append((r, which, verdict, name, dsc, m))
            ck.count(f"insitu_{which}_{'npu' if verdict else 'cpu'}")
    # Every source operator is accounted for exactly once, where the report says (Spec/Placement.lean on the two files as
    # the plain walker sees them): Python only routes the documented verdict of source operator j to position j.
    creqs, cres = [], []
    for r in results:
        if r.get("status") != "ok" or "graph_toks" not in r:
            continue
        n = r.get("n_src_ops", 0)
        pred, predc = ["-"] * n, ["-"] * n
        for k, s in enumerate(r.get("src", [])):
            if 0 <= s["op_index"] < n and k in r.get("verdicts", {}):
                doc, _run, docc = r["verdicts"][k]
                pred[s["op_index"]], predc[s["op_index"]] = doc.split(" ")[0], docc.split(" ")[0]
        creqs.append(f"c16cover pred={','.join(pred)} predc={','.join(predc)} " + r["graph_toks"])
        cres.append(r)
    structure = []
    judge2_meta = []
    for r, ans in zip(cres, ck.model(creqs)):
        head = ans.split(" ", 6)
        ck.count("cover_" + head[0])
        if head[0] not in ("ok", "bad", "pre") or len(head) < 6:
            raise common.InfraError(f"c16cover: unexpected answer {ans[:200]} ({r['label']})")
        if head[0] == "pre":
            continue        # the generated SOURCE is malformed on purpose (dangling index ...): nothing to judge
        f = {t.split("=", 1)[0]: t.split("=", 1)[1] for t in head[1:6]}
        fates, judged, judgedc = [x.split(",") if x else [] for x in (f["fates"], f["judged"], f["judgedc"])]
        r["fates"] = fates
        for ft in fates:
            ck.count("fate_" + ft)
        if head[0] == "bad":
            structure.append((r, head[6] if len(head) > 6 else ""))
        for k, s in enumerate(r.get("src", [])):
            j = s["op_index"]
            if not (0 <= j < len(fates)) or k not in r.get("verdicts", {}):
                continue
            doc, run, docc = r["verdicts"][k]
            judge2_meta.append((r, k, doc, run, fates[j], docc, judged[j], judgedc[j]))
        # operators of the file the reader did not present (not reachable from an output ...) are judged "accounted" only
        for j, ok in enumerate(judged):
            if ok != "1" and not any(s["op_index"] == j for s in r.get("src", [])):
                structure.append((r, f"unaccounted|source operator {j} (not presented by the reader): {fates[j]}"))
    mark(f"{len(creqs)} cover requests")
    nets_ok = set()
    rep_struct = collections.Counter()
    for r, probs in structure:
        for pr in probs.split(" ~ ")[:3]:
            kind = pr.split("|")[0].strip().split(" ")[-1]
            rep_struct[kind] += 1
            ck.count("structure_" + kind)
            if rep_struct[kind] > 2:
                continue
            if kind in ("operator-lost", "preserved-and-absorbed", "operator-duplicated", "unaccounted", "operator-without-source", "operator-ambiguous-source"):
                why = "a source operator is not accounted for exactly once (inside an Ethos-U operator or on the CPU)"
            elif kind.startswith("ethosu-") or kind in ("internal", "dangling-index", "duplicate-tensor-name", "two-producers", "not-topological"):
                why = "the output file is not a well-formed placement of the source operators"
            else:
                why = "an operator left on the CPU is not written unchanged"
            ck.violation(f"'{r['label']}' ({' '.join(r['opts'][1:])}): {why}: {pr[:300]}",
                         {"label": r["label"], "opts": r["opts"], "seed": ck.seed, "index": r["idx"], "problems": probs[:2000], "fates": r.get("fates"),
                          "lean": "VelaVerif.Placement.report (Spec/Placement.lean)"}, found_input=True, key=structure_key(r, kind, pr))
    committed_doc = []
    for (r, k, doc, run, obs, docc, j, jc) in judge2_meta:
        s = r["src"][k]
        ck.count(f"placement_{s['type']}_{obs}")
        ck.count("pipeline_doc_" + doc.split(" ")[0])
        nets_ok.add((r["label"], tuple(r["opts"][:2])))
        if j != "1":
            placement.append((r, k, doc, run, obs))
        elif jc != "1":
            # the fresh report agrees with the observed placement, the committed SUPPORTED_OPS.md does not
            committed_doc.append((r, k, docc, obs))
    seen_keys = collections.Counter()
    for r, k, docc, obs in committed_doc:
        s = r["src"][k]
        parts = docc.split(" ")
        ext = parts[-1][4:]
        key = f"doc-drift:1:{ext}:" if parts[0] == "silent" else (f"doc-drift:4:{ext}:{parts[2]}" if parts[0] == "cpu" else "doc-drift:npu")
        ck.count("committed_doc_contradicted")
        seen_keys[key] += 1
        if seen_keys[key] > 2:
            continue
        ck.violation(f"{s['type']} in '{r['label']}' ({r['opts'][1]}): the committed SUPPORTED_OPS.md says {' '.join(parts[:3])}, observed placement {obs} "
                     "(the freshly generated report agrees with the observation)",
                     {"label": r["label"], "opts": r["opts"], "seed": ck.seed, "index": r["idx"], "operator": s["type"], "committed_document": docc,
                      "observed": obs, "descriptor": s["desc"][:3000], "entry": key}, found_input=True)
    # "... stays on the CPU UNCHANGED": every CPU-resident operator of the output file vs the source operator it came from
    same_reqs, same_meta = [], []
    for r in results:
        if r.get("status") != "ok" or "out_records" not in r:
            continue
        for o in r["out_records"]:
            srcs = [x for x in r.get("src_records", []) if x["code"] == o["code"] and x["outs"] == o["outs"]]
            if len(srcs) == 1:
                al = c16_lib.alias_tokens(r.get("src_records", []), srcs[0], o)
                if al:
                    ck.count("cpu_op_reads_bypassed_tensor")
                same_reqs.append(" ".join([f"c16same {srcs[0]['canon']} {o['canon']}"] + al))
                same_meta.append((r, srcs[0], o))
    changed = [(m, a) for m, a in zip(same_meta, ck.model(same_reqs)) if a != "1"]
    mark(f"{len(same_reqs)} c16same requests")
    ck.count("cpu_ops_compared_with_source", len(same_reqs))
    rep_changed = 0
    for (r, so, oo), _a in changed:
        what = c16_lib.canon_diff(so["canon"], oo["canon"])
        key = f"cpu-op-changed:{so['code']}:{'+'.join(w.replace(' ', '_') for w in what)}" + (":force-symmetric" if "--force-symmetric-int-weights" in r["opts"] else "")
        if ck.finding_key_known(key) is None:
            rep_changed += 1
            if rep_changed > 4:
                continue
        ck.violation(f"operator left on the CPU is not written unchanged ({r['label']}, {r['opts'][1]}): builtin {so['code']} outputs {so['outs']} differs in {what}: "
                     f"source {so['canon'][:160]} / output {oo['canon'][:160]}",
                     {"label": r["label"], "opts": r["opts"], "seed": ck.seed, "index": r["idx"], "source": so["canon"], "output": oo["canon"], "differs": what},
                     found_input=True, key=key)
    rep_sites = collections.Counter()
    creqs = [f"c16 doc {s_['desc']}" for r in crashes for s_ in r.get("src", [])]
    couts = iter(ck.model(creqs))
    for r in crashes:
        docs = [next(couts).split(" ")[0] for _ in r.get("src", [])]
        # the same site with and without an operator the report keeps off the NPU are different findings: a rewrite
        # reaching an operator that was placed on the CPU is exactly what "stays on the CPU unchanged" forbids
        tdoc = [(d, s_["type"]) for d, s_ in zip(docs, r.get("src", [])) if r.get("tgt") is not None and s_["op_index"] == r["tgt"]]
        if tdoc:
            site = r.get("site", "?") + ":" + tdoc[0][1] + "-" + ("cpu" if tdoc[0][0] in ("cpu", "silent") else tdoc[0][0])
        else:
            site = r.get("site", "?") + (":some-cpu" if any(d in ("cpu", "silent") for d in docs) else ":all-npu")
        r["docs"] = docs
        rep_sites[site] += 1
        if rep_sites[site] > 2:
            continue
        ck.violation(f"compilation of '{r['label']}' ({r['opts'][1]}) died with {r.get('exc', '')[:120]} at {site} (not a crash recorded under C13): "
                     "no operator of this network stays on the CPU unchanged",
                     {"label": r["label"], "opts": r["opts"], "seed": ck.seed, "index": r["idx"], "exception": r.get("exc"), "site": site,
                      "traceback_tail": r.get("tb"), "source_ops": [s_["type"] for s_ in r.get("src", [])], "documented": r.get("docs")}, found_input=True, key="crash:" + site)
    # console summary vs output file
    for r in results:
        if r.get("status") != "ok" or "cpu_ops" not in r:
            continue
        m = re.search(r"CPU operators = (\d+)", r["stdout"])
        if m is None:
            ck.count("console_no_summary")
            continue
        ck.count("console_checked")
        if int(m.group(1)) != len(r["cpu_ops"]):
            console_bad.append((r, int(m.group(1)), len(r["cpu_ops"])))
        if "--show-cpu-operations" in r["opts"]:
            listed = re.findall(r"^\s+CPU: (\S+) = (.*?) \(inputs", r["stdout"], flags=re.M)
            if len(listed) != len(r["cpu_ops"]):
                console_bad.append((r, len(listed), len(r["cpu_ops"])))
    for r, a, b in console_bad[:3]:
        ck.violation(f"console says {a} CPU operators, the output file holds {b} ({r['label']}, {r['opts']})",
                     {"label": r["label"], "opts": r["opts"], "console": a, "output_file": b, "seed": ck.seed, "index": r["idx"]})
    def printed_constraint(r, opname):
        """the constraint whose sentence the real checker printed when it put operator `opname` on the CPU (or None)"""
        mm = re.search(r"Warning: [^\n]*'" + re.escape(opname) + r"'[^\n]*\n - ([^\n]*)\n", r.get("stdout") or "")
        if not mm:
            return None
        hits = [k for which_ in ("sup", "sem") for k, d_ in rc.docs[which_].items() if d_.split("\n")[0] == mm.group(1)]
        return hits[0] if len(hits) == 1 else None

    def insitu_key(r, which, verdict, name, m):
        cm = c16_lib.canon_model(m)
        if cm.startswith("cpu ") and verdict:
            return f"insitu:{which}:model-rejects:{cm.split(' ')[1]}"
        if cm == "npu" and not verdict and printed_constraint(r, name):
            return f"insitu:{which}:real-rejects:{printed_constraint(r, name)}"
        return None

    pending_insitu = [t for t in insitu_dis if ck.finding_key_known(insitu_key(t[0], t[1], t[2], t[3], t[5])) is not None]
    for r, which, verdict, name, dsc, m in pending_insitu:
        ck.violation(f"constraint function differs from its repaired model on an operator the {which} checker saw during a real compilation "
                     f"({r['label']}, op {name}): real {'npu' if verdict else 'cpu'}, model '{m}'",
                     {"label": r["label"], "opts": r["opts"], "descriptor": dsc[:3000], "model": m, "real": verdict, "seed": ck.seed, "index": r["idx"]},
                     found_input=True, key=insitu_key(r, which, verdict, name, m))
    insitu_dis = [t for t in insitu_dis if t not in pending_insitu]
    for r, which, verdict, name, dsc, m in insitu_dis[:3]:
        ck.violation(f"correspondence broken on an operator the {which} checker saw during a real compilation ({r['label']}, op {name}): "
                     f"real {'npu' if verdict else 'cpu'}, model '{m}'",
                     {"correspondence": f"c16 {which} (in situ)", "label": r["label"], "opts": r["opts"], "descriptor": dsc[:3000], "model": m,
                      "real": verdict, "seed": ck.seed, "index": r["idx"]}, found_input=False)
    known_place = classify_placement(ck, placement, explore, printed_constraint)
    if explore:
        for r, k, doc, run, obs in placement[:60]:
            print("PLACE", r["label"], r["opts"][1], r["src"][k]["type"], "doc:", doc[:90], "| model run:", run[:70], "| observed:", obs)
        for r, which, verdict, name, dsc, m in insitu_dis[:20]:
            print("INSITU", r["label"], which, verdict, name, m)
        print("c13 skipped", c13_skipped, "placement disagreements", len(placement), "known", known_place)

    picked = results[:2] + [r for r in results if "[then " in r["label"] and r.get("fates")][:2] + [r for r in results if " in front]" in r["label"] and r.get("fates")][:1]
    for r in picked:
        if r.get("src"):
            ck.sample({"network": r["label"], "opts": r["opts"], "status": r["status"],
                       "source_ops": [s["type"] for s in r["src"]], "documented": [r.get("verdicts", {}).get(k, ("-",))[0][:60] for k in range(len(r["src"]))],
                       "fates_in_output_file": r.get("fates"), "cpu_ops_in_output": len(r.get("cpu_ops", []))})
    sup_never = sorted(n for n in rc.docs["sup"] if ck.counters.get("failed_" + n, 0) == 0)
    sem_never = sorted(n for n in rc.docs["sem"] if ck.counters.get("failed_" + n, 0) == 0)
    ck.finish({
        "explanation": "Level 'other': the constraint lists, ranges and the report text are regenerated from the live objects and tied "
                       "together by kernel-checked theorems; the per-operator model is validated against the real checkers on stub operators "
                       "inside/just outside every range; placement after graph optimisation is observed on compiled networks, not proved.",
        "evaluations": len(meta) * 2 + len(judge2_meta) + seen_ops,
        "distinct_nontrivial": len(nontrivial) + len(nets_ok),
        "rule": "function level: stub operator x checker, distinct by (family, semantic verdict incl. failing constraint, supported verdict incl. "
                "failing constraint); pipeline level: (network label, accelerator) compiled to an output file, non-trivial = it compiled and at "
                "least one source operator's placement was judged",
        "stub_operators": len(meta), "stub_families": dict(fams),
        "function_level_disagreements": len(fn_dis), "function_level_unmodelled": fn_unmodelled, "spec_rejections_function_level": len(spec_rej),
        "compilations": len(results), "compilations_skipped_c13": c13_skipped, "compilations_crashed_elsewhere": len(crashes), "source_ops_judged": len(judge2_meta),
        "placement_disagreements": len(placement), "placement_known": known_place,
        "cpu_ops_compared_with_source": len(same_reqs), "cpu_ops_changed": len(changed),
        "compilations_covered_in_lean": len(creqs), "compilations_with_structure_problems": len(structure),
        "source_operator_fates": {k[5:]: v for k, v in ck.counters.items() if k.startswith("fate_")},
        "neighbour_networks": dict(collections.Counter(getattr(n_, "neighbour", None) or "none" for _l, n_ in nets)),
        "operators_seen_by_checkers_in_situ": seen_ops, "in_situ_disagreements": len(insitu_dis),
        "unreached_branches": {"supported_constraints_never_failing_in_stubs": sup_never, "semantic_constraints_never_failing_in_stubs": sem_never},
        "exhaustive": False,
        "pending_repairs_open_in_this_tree": sorted(open_pending),
    }, assumptions=["Vela's tflite_reader is the translation source operator -> internal operator for the pipeline-level prediction",
                    "a source operator 'stays on the CPU' iff exactly one non-Ethos-U operator of the output file produces tensors with the names of its results "
                    "(then compared verbatim); it is 'on the NPU' iff none does and it lies in the backward slice of an Ethos-U operator (names of results down to names of operands)",
                    "compilations that die with a non-Vela exception are C13's subject and are skipped (counted)"])


def replay(ck, path):
    """Re-run one recorded case: a stub operator (family, label) through the real checkers and the Lean model/Spec, or
    one generated network through the compiler.  Exit 1 when the disagreement is still there."""
    import json
    import sys

    import c16_lib
    import c16_nets
    import c16_opts_nets
    import fbwalk
    import netgen

    rp = json.load(open(path if os.path.isabs(path) or os.path.exists(path) else os.path.join(common.VERIF, path)))
    seed, body = int(rp.get("seed", 0)), rp["replay"]
    bad = False
    if "family" in body:
        rng = random.Random(seed * 1000003 + sum(map(ord, "C16")))
        rc = c16_lib.RealCheckers()
        for fam, label, op in c16_lib.stub_cases(rng, rp.get("tier") == "thorough"):
            if fam == body["family"] and label == body["label"] and op is not None:
                d = c16_lib.describe(op)
                rs, ru = rc.verdict("sem", op), rc.verdict("sup", op)
                ms, mu, doc = ck.model([f"c16 sem {d}", f"c16 sup {d}", f"c16 doc {d}"], parallel=False)
                print(f"stub {fam} ({label}):\n  real semantic  {rs}\n  model semantic {ms}\n  real supported  {ru}\n  model supported {mu}\n  report says     {doc}")
                run = rs if rs != "npu" else ru
                obs = "npu" if run == "npu" else ("cpu" if run.startswith("cpu") else "raised")
                j = ck.model([f"c16judge {doc.split(' ')[0]} {obs}"], parallel=False)[0]
                bad = (j != "1" and obs != "raised") or c16_lib.canon_model(ms) != c16_lib.canon_real(rs) or c16_lib.canon_model(mu) != c16_lib.canon_real(ru)
                break
        else:
            print("case not found")
    elif "index" in body:
        nets = c16_opts_nets.all_cases(random.Random(seed * 7919 + 16), rp.get("tier") == "thorough")
        label, net = nets[int(body["index"])]
        r = _compile_job((seed, int(body["index"]), label, netgen.serialize(net), body["opts"], getattr(net, "tgt", None)))
        print(f"network '{label}' {body['opts']}: {r.get('status')} {r.get('exc', '')}")
        if r.get("status") == "ok" and r.get("out_model") is not None:
            cpu_ops, n_npu = observed_cpu_ops(fbwalk.parse(r["out_model"]))
            print(f"  output file: {len(cpu_ops)} CPU operators {cpu_ops}, {n_npu} Ethos-U operators")
            n = r.get("n_src_ops", 0)
            pred, predc, info = ["-"] * n, ["-"] * n, {}
            for s in r.get("src", []):
                doc, place, docc = ck.model([f"c16 doc {s['desc']}", f"c16 place {s['desc']}", f"c16 docc {s['desc']}"], parallel=False)
                if 0 <= s["op_index"] < n:
                    pred[s["op_index"]], predc[s["op_index"]] = doc.split(" ")[0], docc.split(" ")[0]
                    info[s["op_index"]] = (s, doc, place, docc)
            ans = ck.model([f"c16cover pred={','.join(pred)} predc={','.join(predc)} " + r["graph_toks"]], parallel=False)[0]
            head = ans.split(" ", 6)
            print("  Spec/Placement.lean:", " ".join(head[:6])[:600])
            if len(head) > 6:
                for pr in head[6].split(" ~ "):
                    print("    problem:", pr[:400])
            if head[0] == "bad":
                bad = True
            f = {t.split("=", 1)[0]: t.split("=", 1)[1] for t in head[1:6] if "=" in t}
            fates, judged = f.get("fates", "").split(","), f.get("judged", "").split(",")
            for jx in range(n):
                s, doc, place, docc = info.get(jx, ({"type": "?", "out_names": []}, "-", "-", "-"))
                ok = jx < len(judged) and judged[jx] == "1"
                print(f"  source operator {jx} {s['type']} -> {s['out_names']}: report says {doc} | model {place} | committed document says {docc} | "
                      f"fate in the output file: {fates[jx] if jx < len(fates) else '?'}" + ("" if ok else "   <-- DISAGREES / not accounted for exactly once"))
                if not ok and head[0] != "pre":
                    key = placement_key(s, doc, place, fates[jx] if jx < len(fates) else "?")
                    if key is None or ck.finding_key_known(key) is None:
                        bad = True
                    else:
                        print(f"    (known finding {key})")
            outs_rec = [x for x in c16_lib.op_records(r["out_model"]) if not (x["code"] == 32 and x["custom"] == "ethos-u")]
            for o in outs_rec:
                for so in [x for x in r.get("src_records", []) if x["code"] == o["code"] and x["outs"] == o["outs"]]:
                    al = c16_lib.alias_tokens(r.get("src_records", []), so, o)
                    same = ck.model([" ".join([f"c16same {so['canon']} {o['canon']}"] + al)], parallel=False)[0] == "1"
                    print(f"  CPU operator {o['code']} -> {o['outs']}: {'unchanged' if same else 'CHANGED'}\n    source {so['canon']}\n    output {o['canon']}")
                    if al:
                        print("    input substitutions (chains in the source graph):", al)
                    bad = bad or not same
            m = re.search(r"CPU operators = (\d+)", r["stdout"])
            print("  console:", m.group(0) if m else "no summary")
    else:
        print(json.dumps(body, indent=1)[:3000])
    sys.stdout.flush()
    os._exit(1 if bad else 0)


def structure_key(r, kind, pr):
    """key of the one recorded defect the strict comparison also sees (patch C11-20: --force-symmetric-int-weights zeroes the
    per-axis zero points of CONSTANT weights of a convolution that stays on the CPU), or None.  Given only when the problem is
    exactly "zero points of operand 1 of builtin 3 / 4 differ", the option is present, and the records of that operator differ in
    nothing but operand 1's zero points, written as all 0 for a constant per-axis tensor (c16_lib.canon_diff)."""
    import c16_lib

    m = re.match(r"operand-quantisation\|operator \d+ \(builtin (3|4)\) operand 1 \(zero-point\) [0-9a-f]*$", pr.strip())
    if kind != "operand-quantisation" or not m or "--force-symmetric-int-weights" not in r["opts"]:
        return None
    code = int(m.group(1))
    for o in r.get("out_records", []):
        if o["code"] != code:
            continue
        for so in [x for x in r.get("src_records", []) if x["code"] == code and x["outs"] == o["outs"]]:
            if c16_lib.canon_diff(so["canon"], o["canon"]) == ["operand1-zero-points-zeroed-const-per-axis"]:
                return f"cpu-op-changed:{code}:operand1-zero-points-zeroed-const-per-axis:force-symmetric"
    return None


# keys of known_findings.txt for placement differences of the unchanged tree (see design.d/C16.md)
def classify_placement(ck, placement, explore, printed_constraint=None):
    known, reported = 0, 0
    for r, k, doc, run, obs in placement:
        s = r["src"][k]
        key = placement_key(s, doc, run, obs)
        if key is None and printed_constraint is not None and doc.split(" ")[0] == "npu" and obs == "cpu":
            # the report (read through the repaired model) accepts the operator, the compiler printed which constraint put it on
            # the CPU: that constraint's function and its sentence disagree (known only while a repair of it is pending)
            for nm in s["out_names"]:
                c = printed_constraint(r, nm)
                if c:
                    key = "placement:real-rejects:" + c
        rp = {"label": r["label"], "opts": r["opts"], "seed": ck.seed, "index": r["idx"], "operator": s["type"], "outputs": s["out_names"],
              "documented": doc, "model_run_on_npu": run, "observed": obs, "descriptor": s["desc"][:3000],
              "replay": "harness/c16_nets.cases(Random(seed*7919+16))[index] -> netgen.serialize -> vela"}
        what = (f"{s['type']} in '{r['label']}' ({r['opts'][1]}): the report's constraints say {doc.split(' ')[0]} "
                f"({' '.join(doc.split(' ')[1:])[:80]}), observed placement {obs}")
        if key is not None and ck.finding_key_known(key) is not None:
            ck.violation(what, rp, found_input=True, key=key)
            known += 1
        elif reported < 6:
            ck.violation(what, rp, found_input=True, key=key)
            reported += 1
    return known


def placement_key(s, doc, run, obs):
    """A difference between the documented verdict and the observed placement is a *known* finding only when the
    model of the undocumented mechanisms that run between the two checks (Model.placeModel) predicts the observed
    placement and names the mechanism; anything else has no key and is reported."""
    m = re.match(r"(\S+).* via=(\S+)$", run)
    if m and m.group(2) != "-" and m.group(1) == obs:
        return "placement:undocumented:" + m.group(2)
    return None


main_wrapper(main)
