"""Multi-output operators that stay on the CPU, with every use pattern of their results (round 5, seeded change C12-r5m2).

An operator of the output graph writes ALL its results while it runs, whether anybody reads them or not: the unread
second result of a two-output third-party operator, TOPK_V2 of which only the indices are used, a SPLIT / UNPACK /
SPLIT_V that is left on the CPU with a part nobody looks at.  Such a result needs bytes of its own in the arena for the
duration of its operator (Spec/Arena.lean `dies`, theorem `Props.C12.unread_result_is_live_at_its_writer`).

    cpu_multi(b, x, kind)      append one multi-output CPU operator after tensor x -> list of results (netgen.B.cpu_op uses it)
    multi_out_cpu(rng, idx, v) pattern family (netgen.PATTERNS): position of the operator (graph start / between two NPU
                               islands / behind a CPU operator / graph end) x fate of each result (unread, graph output, read by
                               the next NPU operator, read by an NPU or CPU operator after a further NPU island)
"""
import numpy as np

import netgen
from netgen import B, Op, T, TT

KINDS = ["custom2", "custom3", "topk", "split_f32", "unpack_f32", "splitv_f32", "custom2_mixed", "split_rank5"]
POSITIONS = ["between", "start", "behind_cpu", "end", "between"]
# fate of the results that are NOT the one the chain continues with
FATES = ["unread", "out", "later_npu", "later_cpu", "next_npu"]


def _like(b, x, shape=None, dtype=None):
    xt = b.t(x)
    shape = list(xt.shape if shape is None else shape)
    dtype = dtype or xt.dtype
    if dtype in ("int8", "uint8", "int16") and xt.scales is not None:
        return b.fm(shape, dtype, scale=xt.scales[0], zp=xt.zps[0] if dtype == xt.dtype else 0)
    if dtype in ("int8", "uint8", "int16"):
        return b.fm(shape, dtype)
    return b.net.add(T(b.fresh("t"), shape, dtype))


def cpu_multi(b, x, kind=None):
    """one CPU-resident operator with 2-3 results after x; returns [main result (same shape / type as x where possible), others...]"""
    rng = b.rng
    kind = kind or rng.choice(KINDS)
    xt = b.t(x)
    shape = list(xt.shape)
    b.net.desc.append("cpu_multi:" + kind)
    if kind in ("custom2", "custom3", "custom2_mixed"):
        n = 3 if kind == "custom3" else 2
        outs = [_like(b, x)]
        for i in range(1, n):
            if kind == "custom2_mixed":
                # another size and another type: twice the bytes, or a few int32 values
                outs.append(rng.choice([lambda: _like(b, x, shape[:-1] + [shape[-1] * 2]), lambda: _like(b, x, None, "int32"),
                                        lambda: _like(b, x, [max(1, shape[-1] // 2)], "float32")])())
            else:
                outs.append(_like(b, x, rng.choice([shape, shape, shape[:-1] + [shape[-1] * 2], [int(np.prod(shape))]])))
        b.net.ops.append(Op("CUSTOM", [x], outs, None, custom_code=rng.choice(["DualOut", "ThirdPartyOp", "TFLite_Detection_PostProcess"]),
                            custom_options=bytes(rng.getrandbits(8) for _ in range(rng.randint(0, 8)))))
        return outs
    if kind == "topk":
        k = rng.randint(1, max(1, min(4, shape[-1])))
        kt = b.const([], "int32", [k], name=b.fresh("k"))
        vals = _like(b, x, shape[:-1] + [k])
        idxs = b.net.add(T(b.fresh("t"), shape[:-1] + [k], "int32"))
        b.net.ops.append(Op("TOPK_V2", [x, kt], [vals, idxs], ("TopKV2Options", {})))
        return [vals, idxs]
    if kind == "split_rank5":
        # SPLIT of a rank-5 view (RESHAPE -> SPLIT -> RESHAPE of the first part): rank > 4 keeps SPLIT off the NPU
        ax = [i for i, d in enumerate(shape) if d % 2 == 0]
        if len(shape) != 4 or not ax:
            return cpu_multi(b, x, "custom2")
        a = rng.choice(ax)
        s5 = [1] + shape
        v = b.reshape(x, s5)
        at = b.const([], "int32", [a + 1], name=b.fresh("axis"))
        half = list(s5)
        half[a + 1] //= 2
        parts = [_like(b, x, half) for _ in range(2)]
        b.net.ops.append(Op("SPLIT", [at, v], parts, ("SplitOptions", dict(NumSplits=2))))
        keep = rng.randrange(2)
        main = b.reshape(parts[keep], half[1:])
        return [main, parts[1 - keep]]
    # float detour: DEQUANTIZE -> SPLIT / SPLIT_V / UNPACK in float32 -> QUANTIZE of one part
    quant = xt.dtype in ("int8", "uint8", "int16") and xt.scales is not None
    if not quant:
        return cpu_multi(b, x, "custom2")
    f = b.net.add(T(b.fresh("t"), shape, "float32"))
    b.net.ops.append(Op("DEQUANTIZE", [x], [f], ("DequantizeOptions", {})))
    if kind == "unpack_f32":
        cands = [i for i, d in enumerate(shape) if 2 <= d <= 3 and len(shape) >= 2]
        if not cands:
            kind = "split_f32"
        else:
            a = rng.choice(cands)
            pshape = shape[:a] + shape[a + 1:]
            parts = [b.net.add(T(b.fresh("t"), pshape, "float32")) for _ in range(shape[a])]
            b.net.ops.append(Op("UNPACK", [f], parts, ("UnpackOptions", dict(Num=shape[a], Axis=a if rng.random() < 0.7 else a - len(shape)))))
    if kind in ("split_f32", "splitv_f32"):
        cands = [i for i, d in enumerate(shape) if d >= 2 and (d % 2 == 0 or kind == "splitv_f32")]
        if not cands:
            b.net.ops.pop()
            b.net.tensors.pop()
            return cpu_multi(b, x, "custom2")
        a = rng.choice(cands)
        at = b.const([], "int32", [a if rng.random() < 0.7 else a - len(shape)], name=b.fresh("axis"))
        if kind == "split_f32":
            n = 3 if shape[a] % 3 == 0 and rng.random() < 0.4 else 2
            if shape[a] % n:
                n = 2
            pshape = shape[:a] + [shape[a] // n] + shape[a + 1:]
            parts = [b.net.add(T(b.fresh("t"), pshape, "float32")) for _ in range(n)]
            b.net.ops.append(Op("SPLIT", [at, f], parts, ("SplitOptions", dict(NumSplits=n))))
        else:
            k = rng.randint(1, shape[a] - 1)
            stt = b.const([2], "int32", [k, shape[a] - k], name=b.fresh("sizes"))
            parts = [b.net.add(T(b.fresh("t"), shape[:a] + [s] + shape[a + 1:], "float32")) for s in (k, shape[a] - k)]
            b.net.ops.append(Op("SPLIT_V", [f, stt, at], parts, ("SplitVOptions", dict(NumSplits=2))))
    keep = rng.randrange(len(parts))
    main = b.fm(b.t(parts[keep]).shape, xt.dtype)
    b.net.ops.append(Op("QUANTIZE", [parts[keep]], [main], ("QuantizeOptions", {})))
    return [main] + [p for i, p in enumerate(parts) if i != keep]


def _npu(b, x):
    """an accelerated operator on x (any rank <= 4 quantised tensor)"""
    rng = b.rng
    xt = b.t(x)
    if len(xt.shape) == 4 and xt.shape[0] == 1 and rng.random() < 0.6:
        y = b.conv(x, rng.choice([4, 8, 16]), rng.choice([(1, 1), (3, 3)]), (1, 1), (1, 1), "SAME")
        if y is not None:
            return y
    import netgen_ext

    return netgen_ext.ew_const(b, x) if rng.random() < 0.6 else b.unary("RELU", x)


def _quantised(b, t):
    tt = b.t(t)
    return tt.dtype in ("int8", "uint8", "int16") and tt.scales is not None


def multi_out_cpu(rng, idx, variant=None):
    import netgen_ext

    pick = netgen_ext._pick
    # sweep: variant v -> kind v mod 8, fate (v div 8) mod 5 (the first 8 variants are all "unread"), position (v + v div 8) mod 5
    kind = pick(rng, variant, KINDS)
    fate = pick(rng, variant, FATES, stride=len(KINDS))
    pos = pick(rng, (variant + variant // len(KINDS)) if variant is not None else None, POSITIONS)
    if variant is None and rng.random() < 0.5:
        fate = "unread"
    dtype = rng.choice(["int8", "int8", "uint8", "int16"])
    b = B(rng, f"pat{idx}_multi_out_cpu", dtype)
    shape = [1, rng.choice([2, 3, 4, 6, 8, 12]), rng.choice([2, 3, 4, 8, 16]), rng.choice([2, 4, 8, 16])]
    if rng.random() < 0.2:
        shape = shape[rng.choice([1, 2]):]          # rank 3 / 2
    b.net.desc.append(f"pattern=multi_out_cpu kind={kind} pos={pos} fate={fate} dtype={dtype} shape={shape}")
    x = b.input(shape)
    cur = x
    held = []                         # tensors produced before the operator that are read after it (long live ranges)
    if pos in ("between", "end"):
        cur = _npu(b, cur)
        if rng.random() < 0.5:
            held.append(cur)
            cur = _npu(b, cur)
    elif pos == "behind_cpu":
        cur = _npu(b, cur)
        cur = netgen_ext.custom(b, [cur])
    res = cpu_multi(b, cur, kind)
    main, others = res[0], res[1:]
    outs = []
    later = []
    for i, o in enumerate(others):
        f = fate if i == 0 else rng.choice(FATES)
        if f in ("later_npu", "next_npu") and not _quantised(b, o):
            f = rng.choice(["out", "later_cpu"])
        if f == "unread":
            continue
        if f == "out":
            outs.append(o)
        elif f == "next_npu":
            outs.append(_npu(b, o))
        else:
            later.append((f, o))
    if pos == "end":
        outs.insert(0, main)
    else:
        cur = main
        if _quantised(b, cur):
            cur = _npu(b, cur)
            if rng.random() < 0.5:
                cur = _npu(b, cur)
        else:
            cur = netgen_ext.custom(b, [cur])
        for h in held:
            if b.t(h).shape == b.t(cur).shape and b.t(h).dtype == b.t(cur).dtype and _quantised(b, cur):
                cur = b.binary("ADD", cur, h)
        if rng.random() < 0.4:
            cur = netgen_ext.custom(b, [cur])
            if _quantised(b, cur) and rng.random() < 0.6:
                cur = _npu(b, cur)
        outs.insert(0, cur)
    for f, o in later:
        outs.append(_npu(b, o) if f == "later_npu" else netgen_ext.custom(b, [o]))
    return b.finish(outs)
