"""Correspondence stream for the second output format (rawdata_writer.write_rawdata_output, the `<name>_sg<i>_vela.npz`):
used by check_C17 (payload framing of `cmd_data`) and check_C12 (sizes, offsets, constants blob).  design.d/RawOutput.md.

This repository has no `--output-format` switch: `vela.process` calls the raw writer (instead of the TFLite writer) for `.tosa`
inputs only.  The harness therefore calls the REAL `write_rawdata_output(nng, arch, basename)` on the compiled graph of every
generated network at the place where `process` calls it - when `compiler_driver.compiler_driver` has returned, BEFORE the TFLite
writer runs - so that both output formats are produced from one compilation (same source, same options, same graph).

Worker side (`install`, `extra` / `extra_c12`): the .npz files are loaded back with NumPy and turned into plain data; the facts the
model needs (operands / results of the first call operator of every CPU subgraph, as Vela's tensors describe them) are recorded
at the same moment.  Check side (`stage`): every verdict is a Lean answer -
  `rawmodel`  Model/RawOutput.writeRaw on the recorded operands  ==  the .npz (or the raised error)
  `rawcheck`  .npz against the TFLite output of the same compilation: cmd_data = buffer of the command-stream tensor, weight_data
              = buffer of the constants tensor, scratch_shape / scratch_fast_shape = byte sizes of the two arena tensors, input /
              output offsets = OfflineMemoryAllocation entries of the operator's operands / results (+ element size, shape);
              Payload.payloadOk on cmd_data against the words the generator emitted; Spec/RawOutput on the .npz alone
  `streamcheck` (search only) the decoded accesses of the streams against the sizes the .npz publishes.
"""
import os
import shutil
import struct
import tempfile
import traceback
import zlib

import common

_last = {}
_installed = False
MEMTYPE_CODE = {"Unknown": 0, "Permanent_NPU": 1, "Permanent_CPU": 2, "Scratch": 3, "Scratch_fast": 4}


def _i(x):
    return int(x)


def _shape(s):
    return ".".join(str(int(d)) for d in s)


def _digest(b):
    return f"{len(b)}:{zlib.adler32(b) & 0xFFFFFFFF}"


def _exc_kind(e):
    if isinstance(e, KeyError):
        return "err:region"
    if isinstance(e, ValueError) and "unpack" in str(e):
        return "err:unpack"
    if isinstance(e, ValueError) and "inhomogeneous" in str(e):
        return "err:ragged"
    return "exc:" + type(e).__name__ + ":" + str(e)[:80]


def _tensor_text(t, with_values):
    v = "-"
    if with_values and getattr(t, "values", None) is not None:
        import numpy as np

        v = np.asarray(t.values).astype(np.uint8).tobytes().hex() if np.asarray(t.values).dtype != np.uint8 else np.asarray(t.values).tobytes().hex()
    a = t.address
    return f"{MEMTYPE_CODE.get(t.mem_type.name, 0)}!{'-' if a is None else int(a)}!{int(t.element_size())}!{_shape(t.shape)}!{v}"


def _npz_record(path):
    """plain data of one .npz (loaded back with NumPy, as a raw-format user does)"""
    import numpy as np

    z = np.load(path, allow_pickle=True)
    need = ["cmd_data", "weight_data", "weight_region", "scratch_shape", "scratch_region", "scratch_fast_shape", "scratch_fast_region",
            "input_shape", "input_elem_size", "input_region", "input_offset", "output_shape", "output_elem_size", "output_region",
            "output_offset"]
    missing = [k for k in need if k not in z.files]
    if missing:
        return {"missing": missing}

    def blob(a):
        a = np.asarray(a)
        return None if a.dtype == object else a.astype(np.uint8).tobytes() if a.dtype != np.uint8 else a.tobytes()

    def io(prefix):
        shapes = np.asarray(z[prefix + "_shape"])
        rows = [[int(d) for d in r] for r in shapes] if shapes.ndim == 2 else []
        offs = [None if o is None else int(o) for o in np.asarray(z[prefix + "_offset"]).tolist()]
        return [{"shape": s, "elem": int(e), "region": int(r), "offset": o}
                for s, e, r, o in zip(rows, np.asarray(z[prefix + "_elem_size"]).tolist(), np.asarray(z[prefix + "_region"]).tolist(), offs)], \
            [len(rows), len(offs), int(np.asarray(z[prefix + "_elem_size"]).size), int(np.asarray(z[prefix + "_region"]).size)]

    ins, nin = io("input")
    outs, nout = io("output")
    return {"cmd": blob(z["cmd_data"]), "w": blob(z["weight_data"]), "wr": int(z["weight_region"]),
            "ss": [int(d) for d in np.asarray(z["scratch_shape"]).reshape(-1)], "sr": int(z["scratch_region"]),
            "fs": [int(d) for d in np.asarray(z["scratch_fast_shape"]).reshape(-1)], "fr": int(z["scratch_fast_region"]),
            "in": ins, "out": outs, "list_lengths": nin + nout}


def _capture(nng, arch):
    from ethosu.vela import rawdata_writer
    from ethosu.vela.nn_graph import PassPlacement
    from ethosu.vela.operation import Op
    from ethosu.vela.architecture_features import Accelerator

    rec = {"spill": int(bool(arch.is_spilling_enabled())), "graph": [], "npz": {}, "exc": None,
           "acc": [a.value for a in Accelerator].index(arch.accelerator_config.value)}
    # the facts the model works from, read BEFORE the writer runs
    for sg in [s for s in nng.subgraphs if s.placement == PassPlacement.Cpu]:
        calls = [op for ps in sg.passes for op in ps.ops if op.type == Op.CustomNpuOp]
        if not calls:
            rec["graph"].append(None)
            continue
        op = calls[0]
        rec["graph"].append({"calls": len(calls), "callee": op.attrs.get("subgraph"),
                             "in": ";".join(_tensor_text(t, k < 2) for k, t in enumerate(op.inputs)),
                             "out": ";".join(_tensor_text(t, False) for t in op.outputs),
                             "ranks": sorted({len(t.shape) for t in op.inputs[4:]}) + [-1] + sorted({len(t.shape) for t in op.outputs})})
    d = tempfile.mkdtemp(prefix="velaverif_raw_")
    try:
        try:
            rawdata_writer.write_rawdata_output(nng, arch, os.path.join(d, "net"))
        except Exception as e:  # noqa: B902  the outcome is data for the model comparison
            rec["exc"] = _exc_kind(e)
            rec["exc_text"] = traceback.format_exc()[-600:]
        for fn in sorted(os.listdir(d)):
            if fn.endswith("_vela.npz"):
                idx = int(fn.split("_sg")[-1].split("_")[0])
                try:
                    rec["npz"][idx] = _npz_record(os.path.join(d, fn))
                except Exception:  # noqa: B902
                    rec["npz"][idx] = {"unreadable": traceback.format_exc()[-400:]}
    finally:
        shutil.rmtree(d, ignore_errors=True)
    return rec


def probe_pad():
    """does the live writer have the repair C12-30?  Behaviour probe on a stub graph: one call operator with two results of
    different rank.  0 = np.savez raises (the unchanged writer), 1 = a file with the shorter shape padded by leading 1s."""
    import types

    import numpy as np
    import pipeline

    pipeline.load_vela()
    from ethosu.vela import rawdata_writer
    from ethosu.vela.architecture_features import Accelerator, create_default_arch
    from ethosu.vela.nn_graph import PassPlacement
    from ethosu.vela.operation import Op
    from ethosu.vela.tensor import MemType

    def tens(shape, mt, values=None):
        return types.SimpleNamespace(shape=shape, mem_type=mt, address=0, values=values, element_size=lambda: 1)

    mem = [tens([4], MemType.Permanent_CPU, np.zeros(4, np.uint8)), tens([4], MemType.Permanent_CPU, np.zeros(4, np.uint8)),
           tens([64], MemType.Scratch), tens([64], MemType.Scratch_fast)]
    op = types.SimpleNamespace(type=Op.CustomNpuOp, inputs=mem + [tens([1, 2, 2, 4], MemType.Scratch)],
                               outputs=[tens([1, 2, 2, 4], MemType.Scratch), tens([1, 8], MemType.Scratch)])
    sg = types.SimpleNamespace(placement=PassPlacement.Cpu, passes=[types.SimpleNamespace(ops=[op])])
    d = tempfile.mkdtemp(prefix="velaverif_rawprobe_")
    try:
        try:
            rawdata_writer.write_rawdata_output(types.SimpleNamespace(subgraphs=[sg]), create_default_arch(Accelerator.Ethos_U55_128),
                                                os.path.join(d, "p"))
        except ValueError as e:
            if "inhomogeneous" in str(e):
                return 0
            raise common.InfraError("raw_stream.probe_pad: unexpected error " + repr(e))
        z = np.load(os.path.join(d, "p_sg0_vela.npz"), allow_pickle=True)
        if np.asarray(z["output_shape"]).tolist() == [[1, 2, 2, 4], [1, 1, 1, 8]]:
            return 1
        return 2        # some other behaviour: the model of neither writer applies, the comparison will say so
    finally:
        shutil.rmtree(d, ignore_errors=True)


def install():
    """harness-side wrapping of compiler_driver.compiler_driver (before the workers are forked): when the driver has returned -
    the place where vela.process calls the raw writer - write the raw output of the compiled graph and keep the record"""
    global _installed
    if _installed:
        return
    import pipeline

    pipeline.load_vela()
    from ethosu.vela import compiler_driver

    orig = compiler_driver.compiler_driver

    def wrap_driver(nng, arch, *a, **kw):
        _last.clear()
        r = orig(nng, arch, *a, **kw)
        try:
            _last["rec"] = _capture(nng, arch)
        except Exception:  # noqa: B902
            _last["harness_error"] = traceback.format_exc()[-1200:]
        return r

    compiler_driver.compiler_driver = wrap_driver
    _installed = True


def extra(res):
    """worker side: the record of this compilation + what identifies the first stream"""
    if "harness_error" in _last:
        raise RuntimeError("raw_stream capture failed:\n" + _last["harness_error"])
    rec = _last.get("rec")
    if rec is None:
        return None
    import pipeline

    rec = dict(rec)
    # callee subgraph object -> index of its captured stream (the words the generator emitted)
    for g in rec["graph"]:
        if g is None:
            continue
        callee = g.pop("callee", None)
        g["words"] = None
        for art in res.streams:
            if art.sg is not None and art.sg is callee and art.words is not None:
                g["words"] = [int(w) for w in art.words]
    # search material: when the sizes the .npz publishes are not the ones of the TFLite output, the stream requests against
    # the raw sizes (Spec/Decode judges every decoded access)
    rec["raw_stream_lines"] = []
    try:
        z = rec["npz"].get(0)
        if z and "ss" in z and res.out_model is not None:
            ext, _m = pipeline.extents_from_output(res.out_model)
            rawext = {0: len(z["w"] or b""), 1: z["ss"][0] if len(z["ss"]) == 1 else 0, 2: z["fs"][0] if len(z["fs"]) == 1 else 0}
            if ext is not None and rawext != ext:
                rec["raw_stream_lines"] = [pipeline.stream_line(art, rawext) for art in res.streams]
    except Exception:  # noqa: B902
        rec["search_error"] = traceback.format_exc()[-600:]
    _last.clear()
    return rec


def extra_c12(res):
    """want['extra'] of check_C12: the record of the other stages with this stream's record added"""
    import serial_lib

    d = serial_lib.extra_c12(res)
    d["raw"] = extra(res)
    return d


def extra_c17(res):
    return {"raw": extra(res)}


# ------------------------------------------------------------------------------------------------ check side

PLAN = "OfflineMemoryAllocation"


def _npz_text(z):
    def io(l):
        return ";".join(f"{_shape(t['shape'])}/{t['elem']}/{t['region']}/{'-' if t['offset'] is None else t['offset']}" for t in l)

    return (f"cmd={'-' if z['cmd'] is None else _digest(z['cmd'])} w={'-' if z['w'] is None else _digest(z['w'])} wr={z['wr']} "
            f"ss={_shape(z['ss'])} sr={z['sr']} fs={_shape(z['fs'])} fr={z['fr']} in={io(z['in'])} out={io(z['out'])}")


def _raw_fields(z):
    def io(l):
        return ";".join(f"{t['region']}:{'-' if t['offset'] is None else t['offset']}:{t['elem']}:{_shape(t['shape'])}" for t in l)

    return f"rss={_shape(z['ss'])} rsr={z['sr']} rfs={_shape(z['fs'])} rfr={z['fr']} rin={io(z['in'])} rout={io(z['out'])}"


def _tflite_fields(model):
    """the facts of the TFLite output the .npz is compared with (plain flatbuffer walk); None when the file has no Ethos-U
    operator in subgraph 0"""
    import fbwalk
    import pipeline

    eops = [e for e in pipeline.ethosu_ops(model) if e[0] == 0]
    if not eops or PLAN not in model["metadata"]:
        return None
    _si, op, (cmd_t, flash_t, scratch_t, fast_t), rest = eops[0]
    sg = model["subgraphs"][0]
    meta = model["buffers"][model["metadata"][PLAN]]
    vals = struct.unpack("<%di" % (len(meta) // 4), meta)
    offs = vals[3:3 + len(sg["tensors"])]

    def io(idxs):
        return ";".join(f"{offs[i]}:{fbwalk.TYPE_SIZE.get(sg['tensors'][i]['type'], 1)}:{_shape(sg['tensors'][i]['shape'])}" for i in idxs)

    return (f"tcmd={bytes(model['buffers'][cmd_t['buffer']]).hex()} tflash={bytes(model['buffers'][flash_t['buffer']]).hex()} "
            f"tss={fbwalk.tensor_bytes(scratch_t)} tfs={fbwalk.tensor_bytes(fast_t)} tin={io(rest)} tout={io([i for i in op['outputs'] if i >= 0])}"), len(eops)


FIELDS_C17 = ("cmd", "payload")
FIELDS_C12 = ("weights", "scratch", "fast", "in", "out", "spec")
TITLE = {"cmd": "cmd_data is not the buffer of the command-stream tensor of the TFLite output",
         "payload": "the Lean Spec (Payload.payloadOk) rejects cmd_data",
         "weights": "weight_data is not the buffer of the constants tensor of the TFLite output",
         "scratch": "scratch_shape is not the byte size of the arena tensor of the TFLite output",
         "fast": "scratch_fast_shape is not the byte size of the fast-scratch tensor of the TFLite output",
         "in": "input offsets / element sizes / shapes are not those the TFLite output's arena plan gives the operator's inputs",
         "out": "output offsets / element sizes / shapes are not those the TFLite output's arena plan gives the operator's results",
         "spec": "the Lean Spec (Spec/RawOutput) rejects the .npz: an input / output does not fit the published scratch size"}


def stage(ck, outs, fields, prefix="raw_"):
    """`outs` = worker outputs whose `extra` holds a "raw" record and which carry `out_model`.  `fields` = the answer fields of
    `rawcheck` this check owns (FIELDS_C17 / FIELDS_C12); the model request is judged by the check that owns "spec"."""
    import fbwalk

    owns_model = "spec" in fields
    pad = probe_pad() if owns_model else 0
    ck.count(prefix + "live_writer_pads_ranks_%d" % pad)
    if owns_model:
        # the repair of the recorded defect is pending: the key is open while /verif_patches/C12-30.diff still applies forward
        import pending

        for k, what in pending.pending_keys("C12").items():
            if k in KEYS.values() and ck.finding_key_known(k) is None:
                ck.known.append({"property": ck.pid, "key": k, "what": what})
    mreqs, mown, creqs, cown = [], [], [], []
    nontrivial = set()
    for o in outs:
        raw = (o.get("extra") or {}).get("raw") if isinstance(o.get("extra"), dict) else None
        if not raw:
            continue
        if raw.get("search_error"):
            raise common.InfraError("raw_stream: " + raw["search_error"])
        ck.count(prefix + "compilations")
        g = raw["graph"][0] if raw["graph"] else None
        if g is None:
            ck.count(prefix + "no_call_operator")
            if raw["npz"]:
                ck.violation("a raw output file was written for a graph without Ethos-U operator", _rp(o, raw))
            continue
        ck.count(prefix + ("several_call_operators" if g["calls"] > 1 else "one_call_operator"))
        ck.count(prefix + "input_ranks_" + "/".join(map(str, g["ranks"])))
        z = raw["npz"].get(0)
        real = raw["exc"] if raw["exc"] else ("ok " + _npz_text(z) if z and "ss" in z else "no-file:" + str(z)[:200])
        ck.count(prefix + "outcome_" + real.split(" ")[0].split(":")[0] + (":" + real.split(":")[1] if real.startswith("err:") else ""))
        if owns_model:
            mreqs.append(f"rawmodel pad={pad} spill={raw['spill']} in={g['in']} out={g['out']}")
            mown.append((o, raw, real))
        if raw["exc"] or not z or "ss" not in z or not o.get("out_model"):
            continue
        tf = _tflite_fields(fbwalk.parse(o["out_model"]))
        if tf is None:
            ck.violation("the raw output describes an Ethos-U operator, the TFLite output of the same compilation has none",
                         _rp(o, raw), found_input=False)
            continue
        tfields, ncalls_file = tf
        if g["words"] is None or z["cmd"] is None or z["w"] is None:
            ck.count(prefix + "skipped_no_words_or_no_values")
            continue
        if len(g["words"]) > 60000 or len(z["w"]) > (1 << 21):
            ck.count(prefix + "skipped_too_big")
            continue
        creqs.append(f"rawcheck acc={raw['acc']} words={','.join(map(str, g['words']))} {tfields} rcmd={z['cmd'].hex()} rw={z['w'].hex()} "
                     + _raw_fields(z))
        cown.append((o, raw, z))
        if len(z["in"]) + len(z["out"]) >= 2 and len(z["w"]) > 0:
            nontrivial.add((o["profile"], o["idx"], tuple(o["opts"])))
        if z["sr"] != z["fr"]:
            ck.count(prefix + "dedicated_fast_region")
        ck.count(prefix + "listed_inputs", len(z["in"]))
        ck.count(prefix + "listed_outputs", len(z["out"]))
    # --- model = code
    mans = ck.model(mreqs) if mreqs else []
    broken = []
    for (o, raw, real), a in zip(mown, mans):
        if a != real:
            broken.append((o, raw, real, a))
        elif real.startswith("err:") or real.startswith("exc:"):
            # the writer raised and the model says so: no file.  A compilation that succeeds but cannot be written in the raw
            # format is reported (recorded finding when the cause is a known one)
            ck.violation(f"rawdata_writer.write_rawdata_output raised ({real}) on a graph the TFLite writer serialises "
                         f"(network {o['idx']} {o['profile']} {o['opts']})", dict(_rp(o, raw), outcome=real, trace=raw.get("exc_text")),
                         key=KEYS.get(real))
    # --- raw = tflite, Spec verdicts
    cans = ck.model(creqs) if creqs else []
    search_reqs, search_own = [], []
    for (o, raw, z), a in zip(cown, cans):
        f = dict(p.split("=", 1) for p in a.split(" ")[:7]) if a.startswith("cmd=") else None
        if f is None:
            raise common.InfraError("unexpected rawcheck answer: " + a[:200])
        f["spec"] = a.split(" spec=", 1)[1]
        bad = [k for k in fields if f[k] not in ("1", "ok")]
        if not bad:
            continue
        genuine = [k for k in bad if k in ("payload", "spec")]
        rp = dict(_rp(o, raw), verdict=a[:600], npz=_npz_text(z)[:1500])
        if genuine:
            for k in genuine:
                ck.violation(f"{TITLE[k]} ({f[k][:300]}) (network {o['idx']} {o['profile']} {o['opts']})", rp)
        else:
            search_reqs.append(raw.get("raw_stream_lines") or [])
            search_own.append((o, raw, bad, rp))
    # --- search for the differences the Spec on the file alone does not explain: decoded accesses against the raw sizes
    flat = [l for ls in search_reqs for l in ls]
    sans = ck.model(flat) if flat else []
    pos = 0
    for (o, raw, bad, rp), ls in zip(search_own, search_reqs):
        ans = sans[pos:pos + len(ls)]
        pos += len(ls)
        rej = [a for a in ans if " bounds=0" not in a]
        what = "; ".join(TITLE[k] for k in bad)
        if rej:
            ck.violation(f"{what}: a decoded access of the command stream lies outside the sizes the .npz publishes ({rej[0][:300]}) "
                         f"(network {o['idx']} {o['profile']} {o['opts']})", dict(rp, stream_verdict=rej[0][:800]))
        else:
            ck.violation(f"correspondence raw output = TFLite output broken: {what} (network {o['idx']} {o['profile']} {o['opts']})",
                         dict(rp, correspondence="harness/raw_stream.py rawcheck"), found_input=False)
    if broken:
        o, raw, real, a = broken[0]
        # failing-input search for the model disagreement = the Spec verdicts above (every file was judged); none rejected here
        ck.violation(f"correspondence Model/RawOutput.writeRaw vs rawdata_writer.write_rawdata_output broken on {len(broken)} compilations: "
                     f"{_first_diff(a, real)}", dict(_rp(o, raw), model=a[:1500], implementation=real[:1500],
                                                     correspondence="rawmodel"), found_input=False)
    return {prefix + "model_requests": len(mreqs), prefix + "compared_with_tflite": len(creqs), prefix + "search_stream_requests": len(flat),
            prefix + "distinct_nontrivial": len(nontrivial), prefix + "model_disagreements": len(broken)}


KEYS = {"err:ragged": "raw-writer:inputs-of-different-rank:np.savez-inhomogeneous-shape"}


def _first_diff(model, real):
    for a, b in zip(model.split(" "), real.split(" ")):
        if a != b:
            return f"model {a[:200]} real {b[:200]}"
    return f"model {model[:200]} real {real[:200]}"


def _rp(o, raw):
    return {"profile": o["profile"], "seed": o["seed"], "index": o["idx"], "opts": o["opts"], "network": o.get("desc"),
            "how_to_replay": "raw_stream.install(); pipe_common._worker((seed, index, profile, {'out_model': True, 'extra': raw_stream.extra_c17}))"
                             " -> o['extra']['raw'] (npz record + operands of the first call operator)"}
