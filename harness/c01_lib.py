"""C01 support: canonical text form of TFLite models for the Lean reference interpreter
(Spec/TfliteRef.lean), reference quantisation parameters, Ethos-U programme extraction from the output
file, and the network generator used by check_C01.

Models are read with the plain flatbuffer walker (fbwalk), never with Vela's reader. Everything in the
request line is an exact integer (float32 scales travel as bit patterns)."""
import math
import struct

import numpy as np

import fbwalk

# public TFLite schema: BuiltinOperator numbers
BUILTIN = {0: "ADD", 1: "AVERAGE_POOL_2D", 2: "CONCATENATION", 3: "CONV_2D", 4: "DEPTHWISE_CONV_2D", 6: "DEQUANTIZE",
           9: "FULLY_CONNECTED", 14: "LOGISTIC", 17: "MAX_POOL_2D", 18: "MUL", 19: "RELU", 20: "RELU_N1_TO_1", 21: "RELU6",
           22: "RESHAPE", 23: "RESIZE_BILINEAR", 25: "SOFTMAX", 28: "TANH", 32: "CUSTOM", 34: "PAD", 40: "MEAN", 41: "SUB",
           43: "SQUEEZE", 45: "STRIDED_SLICE", 49: "SPLIT", 55: "MAXIMUM", 57: "MINIMUM", 65: "SLICE", 67: "TRANSPOSE_CONV",
           70: "EXPAND_DIMS", 97: "RESIZE_NEAREST_NEIGHBOR", 98: "LEAKY_RELU", 101: "ABS", 114: "QUANTIZE", 117: "HARD_SWISH",
           39: "TRANSPOSE", 83: "PACK", 88: "UNPACK", 102: "SPLIT_V", 47: "EXP", 56: "ARG_MAX", 59: "NEG", 76: "RSQRT",
           75: "SQRT", 73: "LOG", 99: "SQUARED_DIFFERENCE", 54: "PRELU", 66: "SIN", 53: "CAST", 42: "DIV", 90: "FLOOR_DIV", 105: "REVERSE_V2", 8: "FLOOR", 108: "COS"}
DT = {"int8": "i8", "uint8": "u8", "int16": "i16", "int32": "i32", "int64": "i64"}
QRANGE = {"int8": (-128, 127), "uint8": (0, 255), "int16": (-32768, 32767)}


class NotSimulated(Exception):
    """The network uses something the reference / simulator does not model (counted, never guessed)."""


def f32(x):
    return np.float32(x)


def f32bits(x):
    return struct.unpack("<I", struct.pack("<f", float(x)))[0]


def quantize_multiplier(d):
    """TFLite QuantizeMultiplier on a double."""
    d = float(d)
    if d == 0.0:
        return 0, 0
    q, shift = math.frexp(d)
    q_fixed = int(math.floor(q * (1 << 31) + 0.5))
    if q_fixed == (1 << 31):
        q_fixed //= 2
        shift += 1
    if shift < -31:
        return 0, 0
    return q_fixed, shift


def round_away(x):
    x = float(x)
    return int(math.floor(x + 0.5)) if x >= 0 else -int(math.floor(-x + 0.5))


def act_range(faf, scale, zp, dtype):
    """CalculateActivationRangeQuantized: float32 division, std::round."""
    qmin, qmax = QRANGE[dtype]

    def quant(f):
        return zp + round_away(f32(f) / f32(scale))

    if faf == 0:
        return qmin, qmax
    if faf == 1:
        return max(qmin, quant(0.0)), qmax
    if faf == 3:
        return max(qmin, quant(0.0)), min(qmax, quant(6.0))
    if faf == 2:
        return max(qmin, quant(-1.0)), min(qmax, quant(1.0))
    raise NotSimulated(f"fused_activation_{faf}")


def opt(op, slot, fmt, default):
    """scalar field `slot` of the operator's builtin options table (absent = schema default)"""
    raw = op.get("options_raw")
    if not raw:
        return default
    for s, b in raw:
        if s == slot:
            return struct.unpack_from("<" + fmt, b)[0]
    return default


def tensor_data(model, t):
    buf = model["buffers"][t["buffer"]] if t["buffer"] < len(model["buffers"]) else None
    return buf if buf else None


def const_ints(model, t):
    data = tensor_data(model, t)
    if data is None:
        return None
    np_t = {"int32": "<i4", "int64": "<i8", "int8": "i1", "uint8": "u1", "int16": "<i2"}[t["type"]]
    return [int(v) for v in np.frombuffer(data, dtype=np_t)]


def qparams(t):
    q = t["quant"]
    if not q or not q["scale"]:
        return [], []
    return [f32(s) for s in q["scale"]], [int(z) for z in (q["zero_point"] or [0] * len(q["scale"]))]


def one_scale(t, what):
    sc, zp = qparams(t)
    if len(sc) != 1:
        raise NotSimulated(f"{what}:quantisation_missing_or_per_axis")
    return sc[0], zp[0]


def add_params(kind, t1, t2, to, faf):
    s1, _ = one_scale(t1, kind)
    s2, _ = one_scale(t2, kind)
    so, zo = one_scale(to, kind)
    dtype = to["type"]
    ls = 20
    if dtype == "int16":
        def pot(s):
            m, _e = math.frexp(float(s))
            return m == 0.5
        zps = [qparams(t)[1][0] for t in (t1, t2, to)]
        if all(z == 0 for z in zps) and pot(s1) and pot(s2) and pot(so):
            raise NotSimulated(f"{kind}:int16_power_of_two_scales")
        ls = 15
    twice_max = np.float64(f32(2) * max(s1, s2))
    r1 = np.float64(s1) / twice_max
    r2 = np.float64(s2) / twice_max
    rout = twice_max / np.float64(f32(1 << ls) * so)
    m1, sh1 = quantize_multiplier(r1)
    m2, sh2 = quantize_multiplier(r2)
    mo, sho = quantize_multiplier(rout)
    if sh1 > 0 or sh2 > 0 or sho > 0 or rout >= 1.0:
        raise NotSimulated(f"{kind}:multiplier_not_smaller_than_one")
    lo, hi = act_range(faf, so, zo, dtype)
    return [lo, hi, ls, m1, sh1, m2, sh2, mo, sho, faf]


class GraphText:
    """Canonical text form of one subgraph + what the harness needs to know about it."""

    def __init__(self):
        self.tensors = ""
        self.ops = ""
        self.inputs = []
        self.outputs = []
        self.kinds = []
        self.npu_ops = []          # (op dict, fm input tensor ids, output ids) for Ethos-U operators


def tensor_text(model, t, with_data=True):
    dt = DT.get(t["type"])
    if dt is None:
        dt = "u8"          # placeholder; an operator touching it is reported as unsupported by kind
    sc, zp = qparams(t)
    data = tensor_data(model, t) if with_data and t["type"] in DT else None
    shape = "x".join(str(d) for d in t["shape"])
    return f"{dt}:{shape}:{'/'.join(map(str, zp))}:{'/'.join(str(f32bits(s)) for s in sc)}:{data.hex() if data else ''}"


def op_text(model, sg, op, kind):
    """(kind, ins, outs, param groups) of one builtin operator; raises NotSimulated for variants the
    reference does not model."""
    T = sg["tensors"]
    ins = list(op["inputs"])
    outs = list(op["outputs"])
    for i in ins + outs:
        if i >= 0 and T[i]["type"] not in DT:
            raise NotSimulated(f"{kind}:tensor_type_{T[i]['type']}")
    g = []
    if kind in ("CONV_2D", "DEPTHWISE_CONV_2D"):
        x, w, o = T[ins[0]], T[ins[1]], T[outs[0]]
        dw = kind == "DEPTHWISE_CONV_2D"
        pad = opt(op, 0, "b", 0)
        sw, sh = opt(op, 1, "i", 0), opt(op, 2, "i", 0)
        if dw:
            mult = opt(op, 3, "i", 0)
            faf = opt(op, 4, "b", 0)
            dwf, dhf = opt(op, 5, "i", 1), opt(op, 6, "i", 1)
        else:
            faf = opt(op, 3, "b", 0)
            dwf, dhf = opt(op, 4, "i", 1), opt(op, 5, "i", 1)
        sx, _zx = one_scale(x, kind)
        so, zo = one_scale(o, kind)
        ws, wz = qparams(w)
        if not ws:
            raise NotSimulated(f"{kind}:weights_without_quantisation")
        nch = w["shape"][3] if dw else w["shape"][0]
        if len(ws) not in (1, nch):
            raise NotSimulated(f"{kind}:weight_scale_count")
        if len(ws) > 1 and (w["quant"]["qdim"] != (3 if dw else 0) or any(z != 0 for z in wz)):
            raise NotSimulated(f"{kind}:per_axis_layout")
        if tensor_data(model, w) is None:
            raise NotSimulated(f"{kind}:dynamic_weights")
        ms, shs = [], []
        for c in range(nch):
            wsc = ws[c] if len(ws) > 1 else ws[0]
            if x["type"] == "uint8":
                real = np.float64(f32(sx * wsc)) / np.float64(so)
            else:
                real = np.float64(sx) * np.float64(wsc) / np.float64(so)
            m, s = quantize_multiplier(real)
            ms.append(m)
            shs.append(s)
        lo, hi = act_range(faf, so, zo, o["type"])
        g0 = [sh, sw, dhf, dwf, 1 if pad == 0 else 0, lo, hi]
        if dw:
            g0.append(mult)
        g0.append(faf)
        g = [g0, ms, shs]
        ins = ins[:3] + [-1] * (3 - len(ins[:3]))
    elif kind == "TRANSPOSE_CONV":
        w, x, o = T[ins[1]], T[ins[2]], T[outs[0]]
        oshape = const_ints(model, T[ins[0]])
        if oshape is None or list(oshape) != list(o["shape"]):
            raise NotSimulated("TRANSPOSE_CONV:dynamic_output_shape")
        sx, _ = one_scale(x, kind)
        so, _ = one_scale(o, kind)
        ws, wz = qparams(w)
        nch = w["shape"][0]
        if len(ws) not in (1, nch) or (len(ws) > 1 and any(z != 0 for z in wz)) or tensor_data(model, w) is None:
            raise NotSimulated("TRANSPOSE_CONV:weights")
        ms, shs = [], []
        for c in range(nch):
            wsc = ws[c] if len(ws) > 1 else ws[0]
            real = (np.float64(f32(sx * wsc)) if x["type"] == "uint8" else np.float64(sx) * np.float64(wsc)) / np.float64(so)
            m, s = quantize_multiplier(real)
            ms.append(m)
            shs.append(s)
        g = [[opt(op, 2, "i", 0), opt(op, 1, "i", 0), 1 if opt(op, 0, "b", 0) == 0 else 0], ms, shs]
        ins = [ins[1], ins[2], ins[3] if len(ins) > 3 else -1]
    elif kind == "FULLY_CONNECTED":
        x, w, o = T[ins[0]], T[ins[1]], T[outs[0]]
        faf = opt(op, 0, "b", 0)
        # keep_num_dims only changes the shape of the result (batches = all elements / accumulation depth either way; the Lean
        # reference takes the result shape from the file and checks the element count)
        if opt(op, 1, "b", 0) != 0:
            raise NotSimulated("FULLY_CONNECTED:weights_format")
        sx, _ = one_scale(x, kind)
        sw_, _ = one_scale(w, kind)
        so, zo = one_scale(o, kind)
        if tensor_data(model, w) is None:
            raise NotSimulated("FULLY_CONNECTED:dynamic_weights")
        m, s = quantize_multiplier(np.float64(f32(sx * sw_)) / np.float64(so))
        lo, hi = act_range(faf, so, zo, o["type"])
        g = [[lo, hi, m, s, faf]]
        ins = ins[:3] + [-1] * (3 - len(ins[:3]))
    elif kind in ("MAX_POOL_2D", "AVERAGE_POOL_2D"):
        x, o = T[ins[0]], T[outs[0]]
        if qparams(x) != qparams(o):
            raise NotSimulated(f"{kind}:input_output_quantisation_differ")
        so, zo = one_scale(o, kind)
        lo, hi = act_range(opt(op, 5, "b", 0), so, zo, o["type"])
        g = [[opt(op, 2, "i", 0), opt(op, 1, "i", 0), opt(op, 4, "i", 0), opt(op, 3, "i", 0),
              1 if opt(op, 0, "b", 0) == 0 else 0, lo, hi, opt(op, 5, "b", 0)]]
    elif kind in ("ADD", "SUB"):
        g = [add_params(kind, T[ins[0]], T[ins[1]], T[outs[0]], opt(op, 0, "b", 0))]
    elif kind == "SQUARED_DIFFERENCE":
        s1, _ = one_scale(T[ins[0]], kind)
        s2, _ = one_scale(T[ins[1]], kind)
        so, _zo = one_scale(T[outs[0]], kind)
        dtype = T[outs[0]]["type"]
        if dtype not in ("int8", "int16") or any(T[i]["type"] != dtype for i in ins[:2]):
            raise NotSimulated(f"SQUARED_DIFFERENCE:{dtype}")
        ls = 0 if dtype == "int16" else 7
        twice_max = np.float64(2.0) * np.float64(max(s1, s2))
        m1, sh1 = quantize_multiplier(np.float64(s1) / twice_max)
        m2, sh2 = quantize_multiplier(np.float64(s2) / twice_max)
        mo, sho = quantize_multiplier(twice_max * twice_max / (np.float64(1 << (ls * 2)) * np.float64(so)))
        if sh1 > 0 or sh2 > 0 or sho > 0:
            raise NotSimulated("SQUARED_DIFFERENCE:multiplier_not_smaller_than_one")     # the reference kernel rejects it
        lo, hi = QRANGE[dtype]
        g = [[lo, hi, ls, m1, sh1, m2, sh2, mo, sho]]
    elif kind == "MUL":
        s1, _ = one_scale(T[ins[0]], kind)
        s2, _ = one_scale(T[ins[1]], kind)
        so, zo = one_scale(T[outs[0]], kind)
        m, s = quantize_multiplier(np.float64(f32(f32(s1 * s2) / so)))
        lo, hi = act_range(opt(op, 0, "b", 0), so, zo, T[outs[0]]["type"])
        g = [[lo, hi, m, s, opt(op, 0, "b", 0)]]
    elif kind in ("MINIMUM", "MAXIMUM"):
        # the reference kernel (maximum_minimum.cc) takes the minimum / maximum of the raw values whatever the
        # quantisation parameters are (Prepare only compares the types)
        if len({T[i]["type"] for i in ins[:2] + outs[:1]}) != 1:
            raise NotSimulated(f"{kind}:types_differ")
    elif kind in ("RELU", "RELU6", "RELU_N1_TO_1"):
        si, _ = one_scale(T[ins[0]], kind)
        so, zo = one_scale(T[outs[0]], kind)
        dtype = T[outs[0]]["type"]
        qmin, qmax = QRANGE[dtype]

        def quant(f):
            return zo + round_away(f32(f) / so)

        lo, hi = {"RELU": (max(qmin, quant(0.0)), qmax), "RELU6": (max(qmin, quant(0.0)), min(qmax, quant(6.0))),
                  "RELU_N1_TO_1": (max(qmin, quant(-1.0)), min(qmax, quant(1.0)))}[kind]
        m, s = quantize_multiplier(np.float64(f32(si / so)))
        g = [[lo, hi, m, s]]
    elif kind == "QUANTIZE":
        si, _ = one_scale(T[ins[0]], kind)
        so, _ = one_scale(T[outs[0]], kind)
        m, s = quantize_multiplier(np.float64(si) / np.float64(so))
        g = [[m, s]]
    elif kind == "LEAKY_RELU":
        si, _ = one_scale(T[ins[0]], kind)
        so, _ = one_scale(T[outs[0]], kind)
        alpha = f32(opt(op, 0, "f", 0.0))
        ma, sa = quantize_multiplier(np.float64(f32(f32(si * alpha) / so)))
        mi, s_i = quantize_multiplier(np.float64(f32(si / so)))
        g = [[mi, s_i, ma, sa, f32bits(alpha)]]
    elif kind in ("RESIZE_BILINEAR", "RESIZE_NEAREST_NEIGHBOR"):
        size = const_ints(model, T[ins[1]])
        o = T[outs[0]]
        if size is None or list(size) != list(o["shape"][1:3]):
            raise NotSimulated(f"{kind}:dynamic_size")
        if qparams(T[ins[0]]) != qparams(o):
            raise NotSimulated(f"{kind}:quantisation_differs")
        # ResizeBilinearOptions: align_corners slot 2, half_pixel_centers slot 3; ResizeNearestNeighborOptions: slots 0, 1
        a, h = (opt(op, 2, "B", 0), opt(op, 3, "B", 0)) if kind == "RESIZE_BILINEAR" else (opt(op, 0, "B", 0), opt(op, 1, "B", 0))
        g = [[int(a), int(h)]]
        ins = ins[:1]
    elif kind == "MEAN":
        axes = const_ints(model, T[ins[1]])
        if axes is None:
            raise NotSimulated("MEAN:dynamic_axes")
        rank = len(T[ins[0]]["shape"])
        one_scale(T[ins[0]], kind)
        one_scale(T[outs[0]], kind)
        g = [[a + rank if a < 0 else a for a in axes]]
        ins = ins[:1]
    elif kind in ("LOGISTIC", "TANH"):
        one_scale(T[ins[0]], kind)
        one_scale(T[outs[0]], kind)
    elif kind == "SLICE":
        bg, sz = (const_ints(model, T[i]) for i in ins[1:3])
        if bg is None or sz is None:
            raise NotSimulated("SLICE:dynamic")
        shape = T[ins[0]]["shape"]
        g = [list(bg), [d - b0 if s0 == -1 else s0 for b0, s0, d in zip(bg, sz, shape)]]
        ins = ins[:1]
    elif kind == "SPLIT_V":
        sizes, axis_v = const_ints(model, T[ins[1]]), const_ints(model, T[ins[2]])
        if sizes is None or axis_v is None:
            raise NotSimulated("SPLIT_V:dynamic")
        shape = T[ins[0]]["shape"]
        ax = axis_v[0] + len(shape) if axis_v[0] < 0 else axis_v[0]
        rest = shape[ax] - sum(s0 for s0 in sizes if s0 >= 0)
        g = [[ax], [rest if s0 < 0 else s0 for s0 in sizes]]
        ins = ins[:1]
    elif kind == "PACK":
        rank = len(T[outs[0]]["shape"])
        ax = opt(op, 1, "i", 0)
        if any(qparams(T[i]) != qparams(T[outs[0]]) for i in ins):
            raise NotSimulated("PACK:quantisation_differs")
        g = [[ax + rank if ax < 0 else ax]]
    elif kind == "UNPACK":
        rank = len(T[ins[0]]["shape"])
        ax = opt(op, 1, "i", 0)
        if any(qparams(T[i]) != qparams(T[ins[0]]) for i in outs):
            raise NotSimulated("UNPACK:quantisation_differs")
        g = [[ax + rank if ax < 0 else ax, opt(op, 0, "i", 0)]]
    elif kind == "PRELU":
        si, _ = one_scale(T[ins[0]], kind)
        sa, _ = one_scale(T[ins[1]], kind)
        so, _ = one_scale(T[outs[0]], kind)
        if T[ins[0]]["type"] not in ("int8", "uint8") or any(T[i]["type"] != T[ins[0]]["type"] for i in (ins[1], outs[0])):
            raise NotSimulated(f"PRELU:{T[ins[0]]['type']}")
        m1, s1 = quantize_multiplier(np.float64(f32(si / so)))
        m2, s2 = quantize_multiplier(np.float64(f32(f32(si * sa) / so)))
        g = [[m1, s1, m2, s2]]
    elif kind == "ABS":
        si, _ = one_scale(T[ins[0]], kind)
        so, _ = one_scale(T[outs[0]], kind)
        if T[ins[0]]["type"] not in ("int8", "int16") or T[outs[0]]["type"] != T[ins[0]]["type"]:
            raise NotSimulated(f"ABS:{T[ins[0]]['type']}")
        if si != so:
            m, sh = quantize_multiplier(np.float64(f32(si / so)))
            g = [[1, m, sh]]
        else:
            g = [[0, 0, 0]]
    elif kind == "ARG_MAX":
        axis_v = const_ints(model, T[ins[1]])
        if axis_v is None:
            raise NotSimulated("ARG_MAX:dynamic_axis")
        rank = len(T[ins[0]]["shape"])
        g = [[axis_v[0] + rank if axis_v[0] < 0 else axis_v[0]]]
        ins = ins[:1]
    elif kind == "TRANSPOSE":
        perm = const_ints(model, T[ins[1]])
        if perm is None:
            raise NotSimulated("TRANSPOSE:dynamic_permutation")
        if qparams(T[ins[0]]) != qparams(T[outs[0]]):
            raise NotSimulated("TRANSPOSE:quantisation_differs")
        g = [list(perm)]
        ins = ins[:1]
    elif kind == "EXP":
        one_scale(T[ins[0]], kind)
        one_scale(T[outs[0]], kind)
        if T[ins[0]]["type"] not in ("int8", "uint8"):
            raise NotSimulated(f"EXP:{T[ins[0]]['type']}")
    elif kind == "HARD_SWISH":
        x, o = T[ins[0]], T[outs[0]]
        si, _ = one_scale(x, kind)
        so, _ = one_scale(o, kind)
        if x["type"] not in ("int8", "uint8") or o["type"] != x["type"]:
            raise NotSimulated(f"HARD_SWISH:{x['type']}")

        def down(m32):
            return 32767 if m32 >= 2147483647 - 32768 else (m32 + 32768) >> 16

        hires = f32(f32(1.0 / 128.0) * si)
        om, oe = quantize_multiplier(np.float64(f32(hires / so)))
        rm, re_ = quantize_multiplier(np.float64(f32(hires / f32(3.0 / 32768.0))))
        if oe > 0:
            raise NotSimulated("HARD_SWISH:output_multiplier_exponent")          # the reference kernel rejects it
        g = [[down(om), oe, down(rm), re_]]
    elif kind == "SOFTMAX":
        x, o = T[ins[0]], T[outs[0]]
        si, _ = one_scale(x, kind)
        so, zo = one_scale(o, kind)
        if x["type"] not in ("int8", "uint8", "int16") or o["type"] != x["type"]:
            raise NotSimulated(f"SOFTMAX:{x['type']}_to_{o['type']}")
        if x["type"] == "int16":
            if f32bits(so) != 0x38000000 or zo != 0 or qparams(x)[1][0] != 0:
                raise NotSimulated("SOFTMAX:output_quantisation")
            beta = f32(opt(op, 0, "f", 0.0))
            # float product, double quotient (activations.cc SoftmaxPrepare)
            m, ls = quantize_multiplier(np.float64(f32(si * beta)) / (10.0 / 65535.0))
            return kind, ins, outs, [[m, ls, 0, f32bits(beta)]]
        if f32bits(so) != 0x3B800000 or zo != QRANGE[o["type"]][0]:
            raise NotSimulated("SOFTMAX:output_quantisation")        # the reference kernels reject it
        beta = f32(opt(op, 0, "f", 0.0))
        # PreprocessSoftmaxScaling (5 integer bits), CalculateInputRadius: all in double
        real = min(np.float64(beta) * np.float64(si) * (1 << 26), (1 << 31) - 1.0)
        m, ls = quantize_multiplier(real)
        if ls < 0 or m == 0:
            raise NotSimulated("SOFTMAX:multiplier_below_one")
        diff_min = -int(math.floor(1.0 * 31 * (1 << 26) / (1 << ls)))
        g = [[m, ls, diff_min, f32bits(beta)]]
    elif kind in ("RESHAPE", "SQUEEZE", "EXPAND_DIMS"):
        if qparams(T[ins[0]]) != qparams(T[outs[0]]):
            raise NotSimulated(f"{kind}:quantisation_differs")
        ins = ins[:1]
    elif kind == "CONCATENATION":
        axis = opt(op, 0, "i", 0)
        if opt(op, 1, "b", 0) != 0:
            raise NotSimulated("CONCATENATION:fused_activation")
        for i in ins + outs:
            one_scale(T[i], kind)
        rank = len(T[outs[0]]["shape"])
        g = [[axis + rank if axis < 0 else axis]]
    elif kind == "SPLIT":
        axis_v = const_ints(model, T[ins[0]])
        if axis_v is None:
            raise NotSimulated("SPLIT:dynamic_axis")
        rank = len(T[ins[1]]["shape"])
        g = [[axis_v[0] + rank if axis_v[0] < 0 else axis_v[0], opt(op, 0, "i", 0)]]
    elif kind == "STRIDED_SLICE":
        b, e, st = (const_ints(model, T[i]) for i in ins[1:4])
        if b is None or e is None or st is None:
            raise NotSimulated("STRIDED_SLICE:dynamic")
        # the raw slice specification of the file (begin / end / strides values and the five masks, all indexed by position in
        # the specification): resolved against the operand's shape by the Lean transcription of the TFLite reference
        # (Spec/StridedSliceRef.lean: negative indices, clamping, begin/end masks, new-axis / shrink / ellipsis positions)
        bm, em, ell, new_ax, shrink = (opt(op, k, "i", 0) for k in range(5))
        g = [list(b), list(e), list(st), [bm, em, ell, new_ax, shrink, int(bool(opt(op, 5, "B", 0)))]]
        ins = ins[:1]
    elif kind == "PAD":
        p = const_ints(model, T[ins[1]])
        if p is None:
            raise NotSimulated("PAD:dynamic")
        if qparams(T[ins[0]]) != qparams(T[outs[0]]):
            raise NotSimulated("PAD:quantisation_differs")
        g = [p]
        ins = ins[:1]
    else:
        raise NotSimulated(f"{kind}")
    return kind, ins, outs, g


def graph_text(model, ethosu_progs=None):
    """Canonical text of subgraph 0. Ethos-U custom operators become `NPU` operators referring to
    programme k (in order of appearance)."""
    if len(model["subgraphs"]) != 1:
        raise NotSimulated("multiple_subgraphs")
    sg = model["subgraphs"][0]
    gt = GraphText()
    skip_data = set()
    ops_txt = []
    k = 0
    for op in sg["operators"]:
        code = model["operator_codes"][op["opcode_index"]]
        if code["builtin"] == 32 and code["custom"] == "ethos-u":
            mem = op["inputs"][:4]
            skip_data.update(mem)
            fm_ins = [i for i in op["inputs"][4:]]
            gt.npu_ops.append((op, fm_ins, list(op["outputs"])))
            ops_txt.append(f"NPU:{'/'.join(map(str, fm_ins))}:{'/'.join(map(str, op['outputs']))}:{k}")
            gt.kinds.append("NPU")
            k += 1
            continue
        kind = BUILTIN.get(code["builtin"], f"BUILTIN_{code['builtin']}")
        if code["builtin"] == 32:
            raise NotSimulated(f"CUSTOM:{code['custom']}")
        kind, ins, outs, g = op_text(model, sg, op, kind)
        gt.kinds.append(kind)
        ops_txt.append(f"{kind}:{'/'.join(map(str, ins))}:{'/'.join(map(str, outs))}:" +
                       "|".join(",".join(map(str, grp)) for grp in g))
    gt.tensors = ";".join(tensor_text(model, t, with_data=(i not in skip_data)) for i, t in enumerate(sg["tensors"]))
    gt.ops = ";".join(ops_txt)
    gt.inputs = list(sg["inputs"])
    gt.outputs = list(sg["outputs"])
    return gt


def arena_offsets(model):
    meta = model["buffers"][model["metadata"]["OfflineMemoryAllocation"]]
    vals = struct.unpack("<%di" % (len(meta) // 4), meta)
    return list(vals[3:])


def strip_payload(words):
    i = 4
    while i < len(words) and (words[i] & 0xFF) == 5:
        i += 1
    return words[i + 1:]


class WeightCapture:
    """Records the weight volumes Vela hands to the MLW encoder (`weight_compressor.encode_weights`, one call per
    depth slice and core, OHWI, zero point already removed, transposed-convolution flip already applied), keyed by the
    encoded tensor and its WeightKey. Nothing about the weights is recomputed by the harness."""

    def __init__(self):
        self.by_tensor = {}       # id(NpuWeightTensor) -> (tensor, {(core, depth): ndarray OHWI})
        self._stack = None

    def __enter__(self):
        from ethosu.vela import weight_compressor as wc

        self.wc = wc
        self.orig_enc, self.orig_both = wc.encode_weights, wc.encode_weight_and_scale_tensor

        def enc(accelerator, weights_volume, *a, **kw):
            if self._stack is not None:
                self._stack.append(np.array(weights_volume, dtype=np.int64))
            return self.orig_enc(accelerator, weights_volume, *a, **kw)

        def both(*a, **kw):
            self._stack = []
            try:
                wt, st = self.orig_both(*a, **kw)
            finally:
                stack, self._stack = self._stack, None
            if stack and wt is not None:
                keys = list(wt.encoded_ranges.keys())
                if len(keys) == len(stack):
                    self.by_tensor[id(wt)] = (wt, {(int(k.core), int(k.depth)): v for k, v in zip(keys, stack)})
            return wt, st

        wc.encode_weights, wc.encode_weight_and_scale_tensor = enc, both
        return self

    def __exit__(self, *exc):
        self.wc.encode_weights, self.wc.encode_weight_and_scale_tensor = self.orig_enc, self.orig_both
        return False


def op_weights(art, capture):
    """Per operation of a captured stream: (key, dims, values) of the weights Vela encoded for it — the volumes it
    passed to the encoder for the operation's depth slice, the cores interleaved back into OHWI — or None."""
    from ethosu.vela.high_level_command_stream import NpuStripe

    ncores = int(art.arch.ncores)
    out = []
    for npu_op in art.npu_ops:
        cmd = art.op_to_cmd[npu_op]
        if not isinstance(cmd, NpuStripe) or cmd.weight_tensor is None:
            out.append(None)
            continue
        wt = cmd.weight_tensor
        src = wt.src_tensor if wt.src_tensor is not None else wt
        cap = capture.by_tensor.get(id(src))
        if cap is None or cap[0] is not src:
            raise NotSimulated("weights_not_captured")
        d0, d1 = int(cmd.weight_box.start_coord[-1]), int(cmd.weight_box.end_coord[-1])
        vols = [cap[1][(core, d0)] for core in range(ncores) if (core, d0) in cap[1]]
        if not vols:
            raise NotSimulated("weights_not_captured")
        n = sum(v.shape[0] for v in vols)
        ohwi = np.zeros((n,) + vols[0].shape[1:], dtype=np.int64)
        for core, v in enumerate(vols):
            ohwi[core::ncores] = v
        out.append(((id(src), d0, d1), ohwi.shape, ohwi.reshape(-1)))
    return out


def build_request(src_bytes, res, inputs_hex, capture):
    """One `semcheck` request line for a compiled network. Raises NotSimulated."""
    src_model = fbwalk.parse(src_bytes)
    out_model = fbwalk.parse(res.out_model)
    sg = graph_text(src_model)
    og = graph_text(out_model)
    offs = arena_offsets(out_model) if "OfflineMemoryAllocation" in out_model["metadata"] else None
    osg = out_model["subgraphs"][0]
    progs, wtab, wkeys = [], [], {}
    flash_hex = ""
    lutbase = shram = 0
    if og.npu_ops:
        if offs is None:
            raise NotSimulated("no_offline_allocation")
        arts = list(res.streams)
        for k, (op, fm_ins, fm_outs) in enumerate(og.npu_ops):
            cmd_t, flash_t, scratch_t, fast_t = (osg["tensors"][i] for i in op["inputs"][:4])
            payload = out_model["buffers"][cmd_t["buffer"]]
            words = strip_payload(list(struct.unpack("<%dI" % (len(payload) // 4), payload)))
            flash = out_model["buffers"][flash_t["buffer"]] or b""
            if k == 0:
                flash_hex = flash.hex()
            elif flash.hex() != flash_hex:
                raise NotSimulated("several_constant_regions")
            art = next((a for a in arts if list(a.words) == words), None)
            if art is None:
                raise NotSimulated("stream_in_file_not_among_captured_streams")
            arts.remove(art)
            lutbase, shram = int(art.arch.shram_lut_address), int(art.arch.shram_size_bytes)
            widx = []
            for wv in op_weights(art, capture):
                if wv is None:
                    widx.append(-1)
                    continue
                key, dims, vals = wv
                if key not in wkeys:
                    wkeys[key] = len(wtab)
                    wtab.append(",".join(map(str, dims)) + ":" + ",".join(map(str, vals.tolist())))
                widx.append(wkeys[key])

            def place(i):
                t = osg["tensors"][i]
                if t["type"] not in DT:
                    raise NotSimulated(f"NPU:tensor_type_{t['type']}")
                if offs[i] < 0:
                    raise NotSimulated("npu_operand_allocated_online")
                return f"{offs[i]}/{DT[t['type']]}/{'x'.join(map(str, t['shape']))}"

            progs.append(f"{fbwalk.tensor_bytes(scratch_t)},{fbwalk.tensor_bytes(fast_t)}|{','.join(map(str, words))}|"
                         f"{','.join(place(i) for i in fm_ins)}|{','.join(place(i) for i in fm_outs)}|{','.join(map(str, widx))}")
    oarena = ""
    if og.npu_ops and offs is not None and len(offs) >= len(osg["tensors"]):
        # arena = every tensor that has an offline offset (the scratch tensors of the Ethos-U operators included)
        size = max([offs[i] + fbwalk.tensor_bytes(t) for i, t in enumerate(osg["tensors"]) if offs[i] >= 0] or [0])
        oarena = f" oarena={size}:{','.join(str(offs[i]) for i in range(len(osg['tensors'])))}"
    line = (f"semcheck lutbase={lutbase} shram={shram} st={sg.tensors} so={sg.ops} si={','.join(map(str, sg.inputs))} "
            f"sout={','.join(map(str, sg.outputs))} ot={og.tensors} oo={og.ops} oi={','.join(map(str, og.inputs))} "
            f"oout={','.join(map(str, og.outputs))} flash={flash_hex} prog={';'.join(progs)} wt={';'.join(wtab)} "
            f"data={';'.join('/'.join(s) for s in inputs_hex)}{oarena}")
    return line, sg, og


def input_specs(src_bytes):
    """(type, element count, zero point) of every graph input of a source model"""
    model = fbwalk.parse(src_bytes)
    sg = model["subgraphs"][0]
    specs = []
    for i in sg["inputs"]:
        t = sg["tensors"][i]
        if t["type"] not in QRANGE:
            raise NotSimulated(f"input_type_{t['type']}")
        n = int(np.prod(t["shape"])) if t["shape"] else 1
        _sc, zp = qparams(t)
        specs.append((t["type"], n, zp[0] if zp else 0))
    return specs


def inputs_from_specs(rng, specs, k, first=0):
    """k input sets: random, all-min, all-max, extremes-heavy, zero point, near zero point, then random again"""
    sets = []
    for j in range(first, first + k):
        one = []
        for ty, n, z in specs:
            lo, hi = QRANGE[ty]
            r = np.random.RandomState(rng.getrandbits(32))
            mode = ["random", "min", "max", "extremes", "zp", "near_zp"][j % 6] if j < 6 else rng.choice(["random", "random", "extremes", "near_zp", "near_max"])
            if mode == "min":
                v = np.full(n, lo)
            elif mode == "max":
                v = np.full(n, hi)
            elif mode == "zp":
                v = np.full(n, z)
            elif mode == "extremes":
                v = r.choice([lo, hi, z, lo + 1, hi - 1], n)
            elif mode == "near_zp":
                v = np.clip(z + r.randint(-6, 7, n), lo, hi)
            elif mode == "near_max":
                v = np.clip(hi - r.randint(0, 40, n), lo, hi)
            else:
                v = r.randint(lo, hi + 1, n)
            np_t = {"int8": "i1", "uint8": "u1", "int16": "<i2"}[ty]
            one.append(v.astype(np_t).tobytes().hex())
        sets.append(one)
    return sets


def make_inputs(rng, src_bytes, k):
    """k input sets for the graph inputs of a source model"""
    return inputs_from_specs(rng, input_specs(src_bytes), k)


def with_inputs(line, sets):
    """the request line with another list of input sets"""
    toks = line.split(" ")
    return " ".join(("data=" + ";".join("/".join(s) for s in sets)) if t.startswith("data=") else t for t in toks)
