#!/venv/bin/python
"""C06 — the register command stream encodes exactly the operations it was given.

Proofs: Props/C06.lean (opcode tables = ISA, elision refines "write every register" for every history,
field round trips on exactly the fitting ranges, alignment of everything the checks accept, stream skeleton:
waits directly before their operation and exactly one final stop).

Validation on the real generator, every verdict computed by Lean (Handlers/Emit.lean):
 (a) random legal NpuOperation lists (api.py classes, length 1-12, five kinds, both layouts, tiles, explicit strides,
     upscaling, LUT, 2 cores, 40-bit addresses) -> npu_generate_register_command_stream -> Spec/Decode.lean
     -> Spec/OpCheck.lean compares every decoded field with the operation that was sent (register state tracked,
     so elided values are seen), checks one final STOP, that every field fits, and the alignment rules;
 (b) the same for every stream of compiled generated networks (NpuOperation list captured in-process);
 (c) Model/Emit.lean emits the same words as the real generator, word for word (also on (b));
 (d) a malformed stream: the model rejects what the generator rejects, with the same error kind.
"""
import os
import random
import sys
from concurrent.futures import ProcessPoolExecutor
import multiprocessing

import common
from common import Check, main_wrapper

KEY_SCALE_BASE = "scale-base-alignment-unchecked:generate_biases-has-no-check_alignment"
# compiled networks with a 16-bit LEAKY_RELU whose alpha is negative: the lowering hands the generator an int32 MUL whose OFM scale
# is negative (the alpha constant carries the scale alpha); the emitter masks it into the unsigned field. Repair: C16-20.
KEY_NEG_ALPHA = "int16-lrelu-negative-alpha-negative-ofm-scale"


def truncation_only(d):
    """Lean's verdict says: the list holds scales no register can take (`trunc` = every `fits` complaint) and the stream encodes
    exactly the list with those scales reduced modulo 2^32 (`residual` = 0); decode, stop and alignment are in order."""
    return (d.get("decode") == "ok" and d.get("stop") == 1 and d.get("align") == 0 and d.get("scalebase") == 0
            and d.get("trunc", 0) > 0 and d.get("fits") == d.get("trunc") and d.get("residual") == 0)


# ------------------------------------------------------------------------------------------------
# generation of one case (replayable from (seed, index))


def case_rng(seed, idx):
    return random.Random((seed * 1000003 + idx) * 7919 + 17)


def _archs():
    from ethosu.vela import api
    from ethosu.vela.architecture_features import Accelerator, create_default_arch

    accs = list(api.NpuAccelerator)
    return accs, [create_default_arch(Accelerator.from_npu_accelerator(a)) for a in accs]


_ARCH = None


def archs():
    global _ARCH
    if _ARCH is None:
        _ARCH = _archs()
    return _ARCH


def make_case(seed, idx):
    """-> (acc index, op list, meta) for the legal stream"""
    import c06_ops

    rng = case_rng(seed, idx)
    accs, arch = archs()
    ai = rng.choice([0, 1, 2, 3, 4, 5, 5, 4])
    n = rng.randint(1, 12)
    big, high = rng.random() < 0.2, rng.random() < 0.25
    for _ in range(5):
        try:
            ops = c06_ops.gen_op_list(rng, arch[ai], n, big=big, high=high)
            if ops:
                return ai, ops, {"n": len(ops), "big": big, "high": high}
        except OverflowError:
            high = False
    return ai, c06_ops.gen_op_list(rng, arch[ai], 1), {"n": 1, "big": False, "high": False}


def run_real(ai, ops):
    """real generator with the recorder; -> (words or None, recs, error kind or None)"""
    import c06_ops
    from ethosu.vela import api
    from ethosu.vela.errors import ByteAlignmentError, ByteSizeError, VelaError

    accs, _ = archs()
    with c06_ops.recording() as rec:
        try:
            words = api.npu_generate_register_command_stream(ops, accs[ai])
            return list(words), rec.ops, None
        except Exception as e:  # noqa: B902  classified below; anything unknown is re-raised
            kinds = [(ByteAlignmentError, "err:align"), (ByteSizeError, "err:size"), (VelaError, "err:vela"),
                     (AssertionError, "err:assert"), (TypeError, "err:type"), (KeyError, "err:key"), (IndexError, "err:index")]
            for cls, kind in kinds:
                if isinstance(e, cls):
                    # a rejection by a mechanism outside the emitter model (block config fit, memory limits) is labelled as such
                    return None, rec.ops, ("unmodelled:" + rec.unmodelled) if rec.unmodelled else kind
            raise


def op_stats(ops):
    from ethosu.vela import api as a

    st = {}

    def c(k):
        st[k] = st.get(k, 0) + 1

    for op in ops:
        c("kind_" + type(op).__name__)
        if isinstance(op, a.NpuDmaOperation):
            continue
        for nm, fm in (("ifm", op.ifm), ("ofm", op.ofm), ("ifm2", op.ifm2)):
            if fm is None or fm.tiles is None or fm.shape is None or fm.shape.height == 0:
                continue
            c("layout_" + fm.layout.name)
            c("dtype_" + fm.data_type.name)
            if fm.tiles.height_0 < fm.shape.height or fm.tiles.width_0 < fm.shape.width:
                c("multi_tile_fm")
            if fm.strides is not None:
                c("explicit_strides")
            if max(fm.tiles.addresses) >= 1 << 32:
                c("address_above_4GiB")
            if fm.quantization is not None and fm.quantization.zero_point < 0:
                c("negative_zero_point")
        if op.ifm_upscale != a.NpuResamplingMode.NONE:
            c("upscale")
        fms = [f for f in (op.ifm, op.ofm, op.ifm2) if f is not None]
        if op.ifm.data_type.size_in_bits() == 16 and all(f.quantization is not None and f.quantization.scale_f32 is not None for f in fms):
            # the operations whose accumulator width the Spec decides on (40 bit unless max / average pooling)
            c("ifm16_scaled_" + type(op).__name__ + ("_" + op.sub_op_type.name if isinstance(op, a.NpuPoolingOperation) else ""))
        if op.activation is not None:
            c("act_" + op.activation.op_type.name)
        if op.ifm2_scalar is not None:
            c("ifm2_scalar")
        if len(op.weights) == 2:
            c("two_core_weights")
        if getattr(op, "sub_op_type", None) is not None:
            c("sub_" + op.sub_op_type.name)
    return st


SIB_K = 2          # sibling lists per base list


def make_siblings(seed, idx, ai, ops, k=SIB_K):
    """history cases for base list (seed, idx): [(label, placement, acc index, op list)].  Every sibling differs from the base
    in ONE field of ONE operation (or in the accelerator) and is generated right after the base in the same process."""
    import siblings
    from ethosu.vela import api as a
    from ethosu.vela import register_command_stream_generator as g

    rng = case_rng(seed + 424243, idx)
    accs, arch = archs()

    def fits_on(ar):
        def accept(op):
            if isinstance(op, a.NpuDmaOperation):
                return True
            try:
                g.get_arch_block_config(op, getattr(op, "block_traversal", a.NpuBlockTraversal.DEPTH_FIRST), ar)
            except AssertionError:
                return False
            if isinstance(op, a.NpuPoolingOperation):
                import c06_ops

                try:
                    return c06_ops.pool_scale_accepted(op)
                except Exception:  # noqa: B902
                    return False
            return True
        return accept

    out = []
    if rng.random() < 0.12:
        # the same list on the neighbouring accelerator of the same family (micro-block and address width agree)
        fam = [i for i in range(len(arch)) if i != ai and arch[i].is_ethos_u65_system == arch[ai].is_ethos_u65_system
               and arch[i].ofm_ublock == arch[ai].ofm_ublock and arch[i].ncores == arch[ai].ncores]
        if fam:
            aj = rng.choice(fam)
            if all(fits_on(arch[aj])(o) for o in ops):
                out.append(("accelerator", "replace", aj, list(ops)))
    opts = {"lut_slots": list(range(8))}
    for label, place, ops2 in siblings.sibling_lists(rng, a, ops, arch[ai], k - len(out), opts=opts, accept=fits_on(arch[ai])):
        out.append((label, place, ai, ops2))
    return out


def legal_batch(job):
    seed, lo, hi = job
    sys.path.insert(0, common.HERE)
    common.setup_repo_path()
    import c06_ops

    out = []

    def one(idx, ai, ops, meta, sib=None):
        words, recs, err = run_real(ai, ops)
        e = {"idx": idx, "ai": ai, "err": err, "meta": meta, "line": None, "stats": op_stats(ops), "sib": sib}
        if words is None:
            if sib is not None and not (err or "").startswith("unmodelled:"):
                # a sibling the generator rejects: the model must reject it with the same error kind
                recs = list(recs) + [{"kwait": -1, "dwait": -1} for _ in range(len(ops) - len(recs))]
                e["model_line"] = c06_ops.request(ai, ops, recs[:len(ops)], [], tag="c06model")
            out.append(e)
            return False
        e["waits"] = sum(1 for r in recs if r["kwait"] >= 0 or r["dwait"] >= 0)
        e["line"] = c06_ops.request(ai, ops, recs, words)
        out.append(e)
        return True

    for idx in range(lo, hi):
        ai, ops, meta = make_case(seed, idx)
        if not one(idx, ai, ops, meta):
            continue
        # siblings: same process, base first (the Lean side is history-free, the generator must be too)
        for j, (label, place, aj, ops2) in enumerate(make_siblings(seed, idx, ai, ops)):
            one(idx, aj, ops2, {"n": len(ops2), "big": meta["big"], "high": meta["high"]}, sib={"j": j, "field": label, "place": place})
    return out


# ------------------------------------------------------------------------------------------------
# malformed stream: one defect injected into an otherwise legal list

DEFECTS = ["pool_scale", "nhcwb16_addr", "nhwc16_addr", "stride_size", "weight_addr", "weight_len", "bias_len", "dma_u55", "lut_index",
           "broadcast", "reduce_sum_layout", "scalar_range", "no_kernel", "pool_no_padding", "tile_addr", "ew_neg_scale"]
# defects for which the generator has no check and no hardware encoding exists: the list is outside the property's quantifier, the
# generator masks the field (like the edge probes below). Accepted silently is the recorded behaviour; what is still demanded is that
# the stream encodes the list with the field reduced modulo 2^32 and nothing else differs (`truncation_only`).
TRUNCATING = ("ew_neg_scale",)


def inject(rng, ops, arch, defect):
    """mutate one operation in place; returns True when the defect applies"""
    from ethosu.vela import api as a

    blocks = [o for o in ops if not isinstance(o, a.NpuDmaOperation)]
    dmas = [o for o in ops if isinstance(o, a.NpuDmaOperation)]
    convs = [o for o in blocks if isinstance(o, (a.NpuConv2DOperation, a.NpuConvDepthWiseOperation))]
    ews = [o for o in blocks if isinstance(o, a.NpuElementWiseOperation)]

    def set_addr(fm, i, v):
        ad = list(fm.tiles.addresses)
        ad[i] = v
        fm.tiles = a.NpuTileBox(height_0=fm.tiles.height_0, height_1=fm.tiles.height_1, width_0=fm.tiles.width_0, addresses=ad)

    if defect in ("nhcwb16_addr", "nhwc16_addr", "tile_addr", "stride_size"):
        cands = []
        for o in blocks:
            for fm in (o.ifm, o.ofm):
                if defect == "nhcwb16_addr" and fm.layout == a.NpuLayout.NHCWB16:
                    cands.append(fm)
                elif defect == "nhwc16_addr" and fm.layout == a.NpuLayout.NHWC and fm.data_type.size_in_bytes() > 1:
                    cands.append(fm)
                elif defect == "tile_addr" and fm.layout == a.NpuLayout.NHCWB16:
                    cands.append(fm)
                elif defect == "stride_size":
                    cands.append(fm)
        if not cands:
            return False
        fm = rng.choice(cands)
        if defect == "nhcwb16_addr":
            set_addr(fm, 0, fm.tiles.addresses[0] + rng.choice([1, 4, 8]))
        elif defect == "nhwc16_addr":
            set_addr(fm, 0, fm.tiles.addresses[0] + 1)
        elif defect == "tile_addr":
            set_addr(fm, rng.choice([1, 2, 3]), 8)
        else:
            import c06_ops

            sy, sx, sc = c06_ops.default_strides(a, fm.shape, fm.data_type, fm.layout)
            if fm.layout == a.NpuLayout.NHCWB16:
                fm.strides = a.NpuShape3D(height=sy + 8, width=sx, depth=sc)
            elif fm.data_type.size_in_bytes() > 1:
                fm.strides = a.NpuShape3D(height=sy, width=sx + 1, depth=sc)
            else:
                return False
        return True
    if defect in ("weight_addr", "weight_len", "bias_len"):
        cands = [o for o in convs if o.weights and (defect != "bias_len" or o.biases)]
        if not cands:
            return False
        o = rng.choice(cands)
        if defect == "weight_addr":
            w = o.weights[0]
            o.weights = [a.NpuAddressRange(w.region, w.address + 8, w.length)] + list(o.weights[1:])
        elif defect == "weight_len":
            w = o.weights[-1]
            o.weights = list(o.weights[:-1]) + [a.NpuAddressRange(w.region, w.address, w.length + 4)]
        else:
            b = o.biases[0]
            o.biases = [a.NpuAddressRange(b.region, b.address, b.length + 10)] + list(o.biases[1:])
        return True
    if defect == "dma_u55":
        if not dmas or arch.is_ethos_u65_system:
            return False
        o = rng.choice(dmas)
        which = rng.choice(["src", "dst", "len"])
        if which == "src":
            o.src = a.NpuAddressRange(o.src.region, o.src.address + 4, o.src.length)
        elif which == "dst":
            if o.dest.region > 7:
                return False      # on-chip destination: the range check (check_mem_limits, not modelled) would fire first
            o.dest = a.NpuAddressRange(o.dest.region, o.dest.address + 2, o.dest.length)
        else:
            o.src = a.NpuAddressRange(o.src.region, o.src.address, o.src.length + 3)
        return True
    if defect == "lut_index":
        cands = [o for o in blocks if o.activation is not None and o.activation.op_type == a.NpuActivationOp.TABLE_LOOKUP]
        if not cands:
            return False
        rng.choice(cands).activation.lookup_table_index = rng.choice([8, -1, 100])
        return True
    if defect == "broadcast":
        cands = [o for o in ews if o.ifm2 is not None and o.ifm2_scalar is None and o.ifm.shape.depth > 2]
        if not cands:
            return False
        o = rng.choice(cands)
        s = o.ifm2.shape
        o.ifm2.shape = a.NpuShape3D(height=s.height, width=s.width, depth=2 if o.ifm.shape.depth != 2 else 3)
        return True
    if defect == "reduce_sum_layout":
        cands = [o for o in blocks if isinstance(o, a.NpuPoolingOperation) and o.sub_op_type == a.NpuPoolingOp.REDUCE_SUM
                 and (o.ifm.data_type == a.NpuDataType.INT32 or arch.ncores == 2) and all(x % 16 == 0 for x in o.ifm.tiles.addresses)]
        if not cands:
            return False
        o = rng.choice(cands)
        o.ifm.layout = a.NpuLayout.NHCWB16
        o.ifm.strides = None
        return True
    if defect == "scalar_range":
        cands = [o for o in ews if o.ifm2_scalar is not None and o.ifm2.data_type.size_in_bits() == 8]
        if not cands:
            return False
        o = rng.choice(cands)
        o.ifm2_scalar = 1000.0
        return True
    if defect == "no_kernel":
        if not convs:
            return False
        rng.choice(convs).kernel = None
        return True
    if defect == "pool_scale":
        # average / reduce-sum pooling over a window larger than 1x1 that requantises by 16: the OFM scale needs 36 bits
        cands = [o for o in blocks if isinstance(o, a.NpuPoolingOperation) and o.sub_op_type != a.NpuPoolingOp.MAX
                 and sum(o.padding) == 0 and o.kernel.width * o.kernel.height > 1 and not o.fused_quantize and o.rescale is None
                 and (o.activation is None or o.activation.op_type not in (a.NpuActivationOp.TANH, a.NpuActivationOp.SIGMOID))]
        if not cands:
            return False
        # both feature maps must already carry a scale: otherwise the injection changes the accumulator format and the
        # block configuration may stop fitting (an earlier, un-modelled rejection)
        cands = [o for o in cands if o.ifm.quantization is not None and o.ifm.quantization.scale_f32 is not None
                 and o.ofm.quantization is not None and o.ofm.quantization.scale_f32 is not None]
        if not cands:
            return False
        o = rng.choice(cands)
        o.ifm.quantization = a.NpuQuantization(scale_f32=0.003921568859368563, zero_point=o.ifm.quantization.zero_point)
        o.ofm.quantization = a.NpuQuantization(scale_f32=0.000244140625, zero_point=o.ofm.quantization.zero_point)
        for other in blocks:        # the same NpuQuantization / feature map may be shared along a chain: every block config must still fit
            try:
                from ethosu.vela import register_command_stream_generator as g

                g.get_arch_block_config(other, getattr(other, "block_traversal", a.NpuBlockTraversal.DEPTH_FIRST), arch)
            except AssertionError:
                return False
        return True
    if defect == "ew_neg_scale":
        # an elementwise ADD / SUB / MUL whose global OFM scale is outside [0, 2^32): through an explicit `rescale` (negative, or
        # 2^32 and above), or (MUL) through a negative quantisation scale of the second operand, which is how the graph optimiser
        # produced it
        cands = [o for o in ews if o.sub_op_type in (a.NpuElementWiseOp.MUL, a.NpuElementWiseOp.ADD, a.NpuElementWiseOp.SUB)
                 and (o.activation is None or o.activation.op_type not in (a.NpuActivationOp.TANH, a.NpuActivationOp.SIGMOID))]
        if not cands:
            return False
        o = rng.choice(cands)
        q = [f.quantization for f in (o.ifm, o.ifm2, o.ofm) if f is not None]
        if (o.sub_op_type == a.NpuElementWiseOp.MUL and o.rescale is None and len(q) == 3 and rng.random() < 0.5
                and all(x is not None and x.scale_f32 is not None for x in q)):
            o.ifm2.quantization = a.NpuQuantization(scale_f32=-float(o.ifm2.quantization.scale_f32), zero_point=o.ifm2.quantization.zero_point)
            if o.ifm2_scalar is not None:
                o.ifm2_scalar = -o.ifm2_scalar       # keeps the quantised scalar (value / scale) what it was
        else:
            # below 0 and at / above 2^32: both ends of the unsigned 32-bit field
            o.rescale = (rng.choice([-1, -1177933312, -(1 << 31), -(1 << 40) + 5, 1 << 32, (1 << 32) + 7, 45992645995, (1 << 63) + 1]),
                         rng.randint(0, 40))
        return True
    if defect == "pool_no_padding":
        cands = [o for o in blocks if isinstance(o, a.NpuPoolingOperation)]
        if not cands:
            return False
        rng.choice(cands).padding = None
        return True
    return False


def malformed_batch(job):
    seed, lo, hi = job
    sys.path.insert(0, common.HERE)
    common.setup_repo_path()
    import c06_ops

    _, arch = archs()
    out = []
    for idx in range(lo, hi):
        ai, ops, meta = make_case(seed + 7777, idx)
        rng = case_rng(seed + 31337, idx)
        defect = DEFECTS[idx % len(DEFECTS)]
        try:
            ok = inject(rng, ops, arch[ai], defect)
        except Exception:
            ok = False
        if not ok:
            continue
        try:
            words, recs, err = run_real(ai, ops)
        except Exception as e:          # an exception class the model has no name for: reported as its own kind
            words, recs, err = None, [], "err:other:" + type(e).__name__
        # operations after the failing one have no recorder entry
        recs = list(recs) + [{"kwait": -1, "dwait": -1} for _ in range(len(ops) - len(recs))]
        out.append({"idx": idx, "ai": ai, "defect": defect, "real": err if words is None else "ok:%d" % len(words),
                    "line": c06_ops.request(ai, ops, recs[:len(ops)], [], tag="c06model"),
                    # accepted although a defect was injected: the Spec judges the emitted stream (failing-input search)
                    "spec_line": c06_ops.request(ai, ops, recs[:len(ops)], words, tag="c06p") if words is not None else None})
    return out


# ------------------------------------------------------------------------------------------------
# pipeline streams


def pipeline_extra(res):
    """runs in the compile worker: describe every captured stream for the Lean side"""
    import c06_ops
    import hl2npu
    from ethosu.vela import register_command_stream_generator as g
    from ethosu.vela.architecture_features import Accelerator

    out = []
    for art in res.streams:
        if art.words is None:
            continue
        ai = list(Accelerator).index(art.arch.accelerator_config)
        with c06_ops.recording() as rec:
            words2 = g.generate_command_stream(art.npu_ops, art.arch, False, art.mem_limits)
        out.append({"line": c06_ops.request(ai, art.npu_ops, rec.ops, art.words, tag="c06p"),
                    "rerun_same": list(words2) == list(art.words), "nops": len(art.npu_ops),
                    # scheduled operation -> NpuOperation (harness/hl2npu.py): descriptor captured before the conversion
                    "hl": hl2npu.lines(art, rec.ops), "hl_limits": hl2npu.limits(art)})
    hl2npu.clear()
    return out


# ------------------------------------------------------------------------------------------------
# edge probes (witness theorems replayed on the implementation; known findings)


def edge_cases():
    """[(name, acc index, ops, expectation)]: expectation 'finding:<key>' or 'illegal' (outside the property's quantifier)"""
    import c06_ops
    from ethosu.vela import api as a

    _, arch = archs()
    out = []

    def base_conv(ai, seed=1):
        rng = random.Random(seed)
        al = c06_ops.Alloc(rng, int(arch[ai].max_address_offset))
        ctx = c06_ops.Ctx(rng, arch[ai], al)
        for _ in range(200):
            op = c06_ops.gen_conv(ctx, False, False)
            if op.ifm_upscale == a.NpuResamplingMode.NONE and c06_ops.pick_block_config(rng, op, arch[ai]):
                return op
        raise common.InfraError("no conv for edge cases")

    # finding: scale base address is not checked for alignment
    op = base_conv(2)
    b = op.biases[0] if op.biases else a.NpuAddressRange(0, 4096, 32)
    op.biases = [a.NpuAddressRange(b.region, b.address + 8, b.length)]
    out.append(("scale_base_unaligned", 2, [op], "finding:" + KEY_SCALE_BASE))
    # outside the quantifier (no hardware encoding exists): accepted and silently truncated — replays the _witness theorems
    op = base_conv(4, 5)
    op.ofm.shape = a.NpuShape3D(height=65537, width=op.ofm.shape.width, depth=op.ofm.shape.depth)
    op.ofm.tiles = a.NpuTileBox(height_0=65537, height_1=65537, width_0=op.ofm.tiles.width_0, addresses=op.ofm.tiles.addresses)
    out.append(("ofm_height_65537", 4, [op], "illegal"))
    op = base_conv(4, 6)
    w = op.weights[0]
    op.weights = [a.NpuAddressRange(w.region, w.address, (1 << 32) + 16)]
    out.append(("weight_length_2^32+16", 4, [op], "illegal"))
    op = base_conv(1, 7)
    op.kernel = a.NpuKernel(op.kernel.width, op.kernel.height, op.kernel.stride_x, op.kernel.stride_y, 3, 1)
    out.append(("dilation_x_3", 1, [op], "illegal"))
    op = base_conv(3, 8)
    act = a.NpuActivation(a.NpuActivationOp.NONE_OR_RELU)
    act.min, act.max = 40000.0, None
    op.activation = act
    op.ofm.data_type = a.NpuDataType.INT32
    op.ofm.quantization = a.NpuQuantization(scale_f32=1.0, zero_point=0)
    if op.ofm.layout == a.NpuLayout.NHWC:
        op.ofm.tiles = a.NpuTileBox(op.ofm.tiles.height_0, op.ofm.tiles.height_1, op.ofm.tiles.width_0,
                                    [x // 4 * 4 for x in op.ofm.tiles.addresses])
    op.ofm.strides = None
    out.append(("activation_min_40000_int32", 3, [op], "illegal"))
    # an elementwise MUL with an explicit negative rescale (the OFM scale of the int16 negative-alpha LEAKY_RELU network, given
    # through the public API): no unsigned 32-bit field holds it, the generator masks it (negative_ofm_scale_witness)
    rng = random.Random(11)
    for _ in range(200):
        try:
            ops = c06_ops.gen_op_list(rng, arch[2], 1)
        except OverflowError:
            continue
        if ops and isinstance(ops[0], a.NpuElementWiseOperation) and ops[0].sub_op_type == a.NpuElementWiseOp.MUL:
            ops[0].rescale = (-1177933312, 30)
            out.append(("ew_mul_negative_ofm_scale", 2, ops, "illegal"))
            break
    return out


# ------------------------------------------------------------------------------------------------


def parse(ans):
    parts = [p.strip() for p in ans.split(" | ")]
    d = {"raw": ans, "model": parts[0]}
    for p in parts[1:]:
        head, _, rest = p.partition(" ")
        if head.startswith("decode="):
            d["decode"] = head[len("decode="):]
            for kv in rest.split():
                k, _, v = kv.partition("=")
                d[k] = int(v)
        else:
            k, _, v = head.partition("=")
            try:
                d[k] = int(v)
            except ValueError:
                d[k] = -1
            d[k + "_msgs"] = [x for x in rest.strip().split("~") if x]
    d["model_eq"] = parts[0].startswith("model=eq")
    el = [t for t in parts[0].split() if t.startswith("elided=")]
    d["elided"] = int(el[0][7:]) if el else 0
    return d


def replay_mode(ck):
    import json

    obj = json.load(open(ck.replay_arg))["replay"]
    common.setup_repo_path()
    import c06_ops

    if "case" in obj:
        ai, ops, _ = make_case(obj["case"]["seed"], obj["case"]["index"])
        words, recs, err = run_real(ai, ops)
        if obj["case"].get("sibling"):
            # the base list has just been generated (history), now its sibling
            label, place, ai, ops = make_siblings(obj["case"]["seed"], obj["case"]["index"], ai, ops)[obj["case"]["sibling"]["j"]]
            print("sibling:", label, place)
            words, recs, err = run_real(ai, ops)
        if words is None:
            print("real generator:", err)
            return
        line = c06_ops.request(ai, ops, recs, words)
    else:
        line = obj["request"]
    print(ck.model([line], parallel=False)[0])


def main():
    ck = Check("C06", "proof")
    ck.lean_stage(["VelaVerif.Props.C06", "VelaVerif.Props.C06Src", "VelaVerif.Props.C06Build"])
    if ck.replay_arg:
        replay_mode(ck)
        sys.exit(0)
    common.setup_repo_path()
    sys.path.insert(0, common.HERE)
    import c06_ops  # noqa: F401

    n_legal = 80000 if ck.thorough else 1800      # base lists; each brings up to SIB_K sibling lists (history)
    n_mal = 20000 if ck.thorough else 700
    n_nets = 900 if ck.thorough else 42
    jobs = min(16, os.cpu_count() or 4)
    ctx = multiprocessing.get_context("fork")

    def shard(fn, n):
        step = max(50, (n + jobs * 4 - 1) // (jobs * 4))
        js = [(ck.seed, lo, min(n, lo + step)) for lo in range(0, n, step)]
        with ProcessPoolExecutor(jobs, mp_context=ctx) as ex:
            return [x for part in ex.map(fn, js) for x in part]

    # ---- (a)+(c)+(d) random legal lists ---------------------------------------------------------
    legal = shard(legal_batch, n_legal)
    lines = [c["line"] for c in legal if c["line"] is not None]
    owners = [c for c in legal if c["line"] is not None]
    sib_rej = [c for c in legal if c["line"] is None and c.get("sib")]
    for c in legal:
        if c["line"] is None and not c.get("sib"):
            # the generator rejected a list that is legal by construction
            ck.violation(f"a legal operation list is rejected by the generator ({c['err']})",
                         {"case": {"seed": ck.seed, "index": c["idx"]}, "accelerator_index": c["ai"], "error": c["err"]})
    # siblings the generator rejects (a one-field change may leave the legal set): the model must reject alike
    sib_rej_m = [c for c in sib_rej if c.get("model_line")]
    sib_rej_diff = []
    for c, ans in zip(sib_rej_m, ck.model([c["model_line"] for c in sib_rej_m]) if sib_rej_m else []):
        got = ans.split()[0][len("model="):]
        ck.count("sibling_rejected_" + ":".join(c["err"].split(":")[:2]))
        if got != c["err"] and got != "err:oracle":
            sib_rej_diff.append((c, got))
    ck.count("sibling_rejected_unmodelled", len(sib_rej) - len(sib_rej_m))
    answers = [parse(a) for a in ck.model(lines)]
    nontrivial, model_diff, spec_bad = 0, [], []
    for c, d in zip(owners, answers):
        for k, v in c["stats"].items():
            ck.count(k, v)
        ck.count("acc_%d" % c["ai"])
        ck.count("len_%d" % c["meta"]["n"])
        if c.get("sib"):
            ck.count("sibling_lists")
            ck.count("sibling_place_" + c["sib"]["place"])
            ck.count("sibling_field_" + c["sib"]["field"].split("@")[0].split("+")[0])
        ck.count("elided_" + ("0" if d["elided"] == 0 else "1-49" if d["elided"] < 50 else "50-199" if d["elided"] < 200 else "200+"))
        if c.get("waits"):
            ck.count("lists_with_waits")
        if d["elided"] >= 1:
            nontrivial += 1
        ok = d.get("decode") == "ok" and d.get("stop") == 1 and d.get("cmp") == 0 and d.get("fits") == 0 and d.get("align") == 0 \
            and d.get("scalebase") == 0
        if not ok:
            spec_bad.append((c, d))
        if not d["model_eq"]:
            model_diff.append((c, d))
    for c, d in spec_bad[:6]:
        what = ("emitted stream does not decode: " if d.get("decode") != "ok" else
                "stream does not encode the operations it was given: " if d.get("cmp") else
                "stream violates " + ("the single final stop" if d.get("stop") != 1 else "fit / alignment rules") + ": ")
        hist = "" if not c.get("sib") else (f"; HISTORY: sibling {c['sib']['j']} of list {c['idx']} (field {c['sib']['field']}, placement "
                                            f"{c['sib']['place']}), generated in the same process right after its base")
        ck.violation(what + d["raw"][d["raw"].find("|") + 2:][:260] + f" (accelerator index {c['ai']}, {c['meta']['n']} operations)" + hist,
                     {"case": {"seed": ck.seed, "index": c["idx"], "sibling": c.get("sib")}, "request": c["line"][:20000], "verdict": d["raw"][:1500],
                      "how_to_replay": "./check C06 --replay <this file> regenerates the list from (seed, index), runs the real "
                                       "generator and prints the Lean verdict"})
    # ---- (b) streams of compiled networks --------------------------------------------------------
    import pipe_common
    import pipeline
    import hl2npu

    pipeline.load_vela()
    hl2npu.install()        # before the workers fork: they inherit the wrapped convert_command_to_npu_op
    outs = pipe_common.run_corpus(ck, n_nets, want={"extra": pipeline_extra}, corpus_first=False)
    # families that aim at the branches of high_level_command_to_npu_op.py (operand swap, stand-alone scale tensors, TRANSPOSE,
    # tile padding, clamp behind a forced zero point / overridden scale); their streams are judged by (b) and (c) as well
    outs += pipe_common.run_corpus(ck, 660 if ck.thorough else 55, profiles=["hl2npu:"], want={"extra": pipeline_extra}, corpus_first=False)
    # LEAKY_RELU with a negative alpha (index 0 = the witness of finding int16-lrelu-negative-alpha-negative-ofm-scale): on a tree with
    # repair C16-20 the 16-bit operators stay on the CPU and the 8-bit ones (table lookup) are the regression population
    outs += pipe_common.run_corpus(ck, 120 if ck.thorough else 12, profiles=["hl2npu:neg_alpha"], want={"extra": pipeline_extra}, corpus_first=False)
    plines, pown = [], []
    for o in outs:
        ck.count("net_status_" + str(o.get("status", "harness-exception")))
        for t_ in o.get("src_tags") or []:
            ck.count("src_tag_" + t_)
        if "harness_exception" in o:
            raise common.InfraError("pipeline worker failed:\n" + o["harness_exception"])
        for si, e in enumerate(o.get("extra") or []):
            plines.append(e["line"])
            pown.append((o, si, e))
    panswers = [parse(a) for a in ck.model(plines)] if plines else []
    p_ops = 0
    for (o, si, e), d in zip(pown, panswers):
        p_ops += e["nops"]
        if not e["rerun_same"]:
            ck.count("pipeline_rerun_differs")
        if d["elided"] >= 1:
            nontrivial += 1
        ok = d.get("decode") == "ok" and d.get("stop") == 1 and d.get("cmp") == 0 and d.get("fits") == 0 and d.get("align") == 0 \
            and d.get("scalebase") == 0
        if not ok:
            # Vela's own front end handed its generator an operation no register can hold: a finding whatever the generator did
            # with it. Recorded under its key when (Lean) nothing but the masked scale differs, every such operation is an int32
            # MUL, and the source network has the construct the key names.
            key = KEY_NEG_ALPHA if (truncation_only(d) and d.get("truncmul32") == d.get("trunc")
                                    and "int16-leaky-relu-negative-alpha" in (o.get("src_tags") or [])) else None
            ck.violation(f"stream of compiled network {o['idx']} ({o['profile']}, {o.get('opts')}) does not encode its NpuOperation list: "
                         + ("an operation outside the legal range was built and its scale masked: " if key else "")
                         + d["raw"][d["raw"].find("|") + 2:][:260], key=key, replay=
                         {"profile": o["profile"], "seed": o["seed"], "index": o["idx"], "opts": o.get("opts"), "network": o.get("desc"),
                          "stream": si, "verdict": d["raw"][:1500], "request": e["line"][:20000]})
        if not d["model_eq"]:
            model_diff.append(({"idx": o["idx"], "ai": -1, "line": e["line"], "meta": {"n": e["nops"]}, "pipeline": True}, d))
    # ---- (e) scheduled operation -> NpuOperation (Model/NpuOpBuild.lean, Spec/NpuOpBuild.lean) -----------------
    hl_tot = hl2npu.judge(ck, outs)
    hl_tot.update(hl2npu.float_stage(ck, 40000 if ck.thorough else 3000))
    # ---- (d) malformed stream ---------------------------------------------------------------------
    mal = shard(malformed_batch, n_mal)
    mouts = ck.model([m["line"] for m in mal]) if mal else []
    mal_diff = []
    no_oracle = 0
    for m, ans in zip(mal, mouts):
        got = ans.split()[0][len("model="):]
        want = m["real"]
        ck.count("malformed_" + m["defect"])
        ck.count("malformed_outcome_" + (":".join(want.split(":")[:2]) if not want.startswith("ok") else "ok"))
        if want.startswith("unmodelled:"):
            continue            # rejected by try_block_config / check_mem_limits: the emitter model has no opinion
        if got == "err:oracle":
            # the recorder could not supply an integer the model needs: a harness gap, never a model verdict
            no_oracle += 1
            ck.notes.append(f"no oracle for malformed list {m['idx']} (defect {m['defect']}, generator {want})")
            continue
        if got != want:
            mal_diff.append((m, got))
    ck.count("malformed_without_oracle", no_oracle)
    if no_oracle > max(3, len(mal) // 100):
        raise common.InfraError(f"the recorder could not supply the oracle integers for {no_oracle} of {len(mal)} malformed lists")
    # failing-input search on the malformed stream: whatever the generator accepted must still satisfy the Spec
    acc_mal = [m for m in mal if m.get("spec_line")]
    for m, a in zip(acc_mal, ck.model([m["spec_line"] for m in acc_mal]) if acc_mal else []):
        d = parse(a)
        bad = not (d.get("decode") == "ok" and d.get("stop") == 1 and d.get("cmp") == 0 and d.get("align") == 0 and d.get("scalebase") == 0)
        if m["defect"] in TRUNCATING:
            ck.count("malformed_%s_%s" % (m["defect"], "truncated" if truncation_only(d) else ("encoded" if not bad else "other")))
            bad = bad and not truncation_only(d)
        if bad:
            ck.violation(f"a list with injected defect '{m['defect']}' is accepted and its stream breaks the Spec: " + d["raw"][d["raw"].find("|") + 2:][:240],
                         {"defect": m["defect"], "malformed_case": {"seed": ck.seed, "index": m["idx"]}, "request": m["spec_line"][:20000],
                          "verdict": d["raw"][:1200]})
    # ---- edge probes ------------------------------------------------------------------------------
    for name, ai, ops, expect in edge_cases():
        words, recs, err = run_real(ai, ops)
        if words is None:
            ck.count("edge_rejected_" + name)
            if expect.startswith("finding:"):
                ck.notes.append(f"edge case {name} is now rejected by the generator ({err}): the recorded finding no longer reproduces")
            continue
        d = parse(ck.model([c06_ops.request(ai, ops, recs, words)], parallel=False)[0])
        if not d["model_eq"]:
            model_diff.append(({"idx": name, "ai": ai, "line": "", "meta": {"n": 1}}, d))
        if expect == "finding:" + KEY_SCALE_BASE:
            if d.get("scalebase", 0) > 0 and d.get("cmp") == 0:
                ck.violation("an unaligned scale (bias) base address is accepted and emitted: " + d["scalebase_msgs"][0],
                             {"edge_case": name, "verdict": d["raw"][:600]}, key=KEY_SCALE_BASE)
            else:
                ck.notes.append("scale base probe: " + d["raw"][:200])
        else:
            # outside the quantifier: record whether the generator truncates silently (cmp>0 and fits>0) as the witness theorems say
            ck.count("edge_%s_%s" % (name, "truncated" if d.get("cmp", 0) > 0 else "encoded"))
            if name == "ew_mul_negative_ofm_scale" and not truncation_only(d):
                # the one illegal field for which the Spec says what "masked, nothing else wrong" means
                ck.violation("an elementwise MUL with a negative OFM scale is accepted and its stream is not the list with the scale "
                             "reduced modulo 2^32: " + d["raw"][d["raw"].find("|") + 2:][:300], {"edge_case": name, "verdict": d["raw"][:1200]})
    # ---- correspondence broken but the Spec accepts every real stream ----------------------------------
    if model_diff and not any(v[2] for v in ck.violations):
        c, d = min(model_diff, key=lambda x: x[0]["meta"]["n"])
        ck.violation(f"correspondence Model/Emit.lean vs register_command_stream_generator broken on {len(model_diff)} streams: {d['model']}",
                     {"correspondence": "c06 model words", "case": {"seed": ck.seed, "index": c["idx"]}, "model_verdict": d["model"],
                      "request": c["line"][:20000]}, found_input=False)
    if sib_rej_diff and not any(v[2] for v in ck.violations):
        c, got = sib_rej_diff[0]
        ck.violation(f"model and generator disagree on rejecting {len(sib_rej_diff)} sibling lists (field {c['sib']['field']}): generator {c['err']}, model {got}",
                     {"correspondence": "c06model (siblings)", "case": {"seed": ck.seed, "index": c["idx"], "sibling": c["sib"]},
                      "request": c["model_line"][:20000], "real": c["err"], "model": got}, found_input=False)
    if mal_diff and not any(v[2] for v in ck.violations):
        m, got = mal_diff[0]
        ck.violation(f"model and generator disagree on rejecting {len(mal_diff)} malformed lists: defect {m['defect']}: generator {m['real']}, model {got}",
                     {"correspondence": "c06model", "defect": m["defect"], "request": m["line"][:20000], "real": m["real"], "model": got},
                     found_input=False)
    for c, d in list(zip(owners, answers))[:2]:
        ck.sample({"request": c["line"][:300], "verdict": d["raw"][:200]})
    for (o, si, e), d in list(zip(pown, panswers))[:2]:
        ck.sample({"network": o.get("desc"), "opts": o.get("opts"), "verdict": d["raw"][:200]})
    for m, ans in list(zip(mal, mouts))[:2]:
        ck.sample({"defect": m["defect"], "generator": m["real"], "model": ans})
    ck.finish({
        "evaluations": len(lines) + len(plines) + len(mal) + hl_tot["hl2npu_operations"] + hl_tot["hl2npu_float_ops"],
        "distinct_nontrivial": nontrivial,
        "rule": "case = one operation list (random legal list, or the NpuOperation list of one compiled network's stream) through the real "
                "generator and the Lean decoder/comparator; non-trivial when >= 1 register write was elided; lists are distinct by "
                "(seed, index) / (profile, index, stream)",
        "legal_lists": len(lines), "sibling_lists": ck.counters.get("sibling_lists", 0), "pipeline_streams": len(plines), "pipeline_operations": p_ops, "malformed_lists": len(mal),
        "model_word_disagreements": len(model_diff), "malformed_disagreements": len(mal_diff), "spec_rejections": len(spec_bad),
        "exhaustive": False, **hl_tot,
        "partial": "OFM/OPA/OPB scale values, op_to_scale, SHRAM layout, BLOCKDEP and wait watermarks are taken from the run "
                   "(scaling.*, try_block_config, calc_blockdep, get_wait_dependency: C09, C15, C04) and compared as integers",
    }, assumptions=["implicit IFM extent = (OFM-1)*stride + dilated kernel - pads, halved (rounded up) when upscaling",
                    "hardware alignment rules: NHCWB16 bases/strides 16 bytes, NHWC element size, weight and scale streams 16 bytes, "
                    "DMA 16 bytes on Ethos-U55 / on-chip side only on Ethos-U65",
                    "quantise(): float32 division, round half away from zero (independent transcription in harness/c06_ops.q_f32)"])


main_wrapper(main)
