"""C02, address-generation link: correspondence of Model/TensorAddr.lean with the real Tensor methods
(function level) and with the feature maps of compiled networks (pipeline level).

Function level: real `ethosu.vela.tensor.Tensor` objects (set_format with a default arch, set_new_sub_purpose
for rolling buffers) — storage shape / storage_size / get_strides / address_for_coordinate /
addresses_for_rolling_buffer / create_feature_map against the model, and the Lean Spec
(`Spec/TensorBounds.lean`: elements inside the allocation, pairwise disjoint, register tiling reaches
the tensor's own address of every box element) on the REAL outputs.

Pipeline level: for every NpuFeatureMap of a compiled network the model's strides and tile addresses from
(tensor attributes, box, op_shape4D, offsets, multiplier) against what the compiler produced, and
`footprintInsideAllocation` of the feature maps decoded from the emitted registers against the tensor's
own allocation [address, address + storage_size()).
"""
import itertools

import common

FMT_NO = {"NHWC": 0, "NHCWB16": 1}
ERR = {"AssertionError": "err:assert", "ZeroDivisionError": "err:zerodiv", "UnsupportedFeatureError": "err:unsupported",
       "TypeError": "err:type"}


def _vela():
    common.setup_repo_path()
    from ethosu.vela import tensor, data_type, shape4d, architecture_features, operation, errors
    from ethosu.vela import high_level_command_to_npu_op as hl
    from ethosu.vela import high_level_command_stream as hlcs

    return dict(tensor=tensor, data_type=data_type, shape4d=shape4d, af=architecture_features, operation=operation,
                errors=errors, hl=hl, hlcs=hlcs)


def as_int(v):
    """Python computes strides / addresses as floats with integral values (storage_compression_scale = 1.0)."""
    f = float(v)
    if not f.is_integer():
        return "nonintegral:%r" % (v,)
    return int(f)


def call(fn, *a, **k):
    try:
        return True, fn(*a, **k)
    except BaseException as e:  # noqa: B902
        return False, ERR.get(type(e).__name__, "err:py:" + type(e).__name__)


def fmt_no(V, t):
    TF = V["tensor"].TensorFormat
    return 0 if t.format == TF.NHWC else 1 if t.format == TF.NHCWB16 else 2


def purpose_no(V, t):
    TP = V["tensor"].TensorPurpose
    return 0 if t.purpose == TP.FeatureMap else 1 if t.purpose == TP.Weights else 2


def enc_list(l):
    return " ".join(map(str, [len(l)] + [int(x) for x in l]))


def enc_tensor(V, t):
    """the `T …` form of the protocol from the real tensor's attributes"""
    q = list(t.storage_rounding_quantum)
    q = [1] * (4 - len(q)) + [int(x) for x in q]
    std = 1 if t.sub_purpose == V["tensor"].TensorSubPurpose.Standard else 0
    return (f"T {enc_list(t.shape)} {enc_list(t.storage_shape)} {q[0]} {q[1]} {q[2]} {q[3]} {fmt_no(V, t)} "
            f"{int(t.element_size())} {int(t.alignment)} {purpose_no(V, t)} {std} {1 if t.use_linear_format else 0} {int(t.address)}")


def enc_op(op):
    return "-" if op is None else " ".join(str(int(x)) for x in op.as_list())


def enc_strides(st):
    return "-" if st is None else " ".join(str(as_int(x)) for x in st)


# ------------------------------------------------------------------------------------------------
# generators


class Spec:
    """one generated tensor description (plain data, so it can be written into a replay file)"""

    def __init__(self, shape, elem, align, fmt, linear, purpose, addr, roll):
        self.shape, self.elem, self.align, self.fmt, self.linear, self.purpose, self.addr, self.roll = (
            shape, elem, align, fmt, linear, purpose, addr, roll)

    def mk_line(self):
        r = "-" if self.roll is None else " ".join(map(str, self.roll))
        return (f"ta mk {enc_list(self.shape)} {self.elem} {self.align} {self.fmt} {1 if self.linear else 0} "
                f"{self.purpose} {self.addr} {r}")

    def obj(self):
        return dict(shape=self.shape, elem=self.elem, align=self.align, fmt=["NHWC", "NHCWB16", "Unknown"][self.fmt],
                    linear=self.linear, purpose=["FeatureMap", "Weights", "LUT"][self.purpose], address=self.addr, rolling=self.roll)


def build_real(V, sp, arch):
    """the real Tensor for a Spec; raises what the real code raises"""
    T, DT = V["tensor"], V["data_type"].DataType
    dt = {1: DT.int8, 2: DT.int16, 4: DT.int32}[sp.elem]
    t = T.Tensor(list(sp.shape), dt, "t")
    t.purpose = [T.TensorPurpose.FeatureMap, T.TensorPurpose.Weights, T.TensorPurpose.LUT][sp.purpose]
    t.mem_type = T.MemType.Scratch
    t.mem_area = T.MemArea.Sram
    t.alignment = sp.align
    t.force_linear_format = True if sp.linear else False
    t.address = sp.addr
    t.set_format([T.TensorFormat.NHWC, T.TensorFormat.NHCWB16, T.TensorFormat.Unknown][sp.fmt], arch)
    if sp.roll is not None:
        SP = T.TensorSubPurpose
        kind = {"x": SP.RollingBufferX, "y": SP.RollingBufferY, "xy": SP.RollingBufferXY}[sp.roll[0]]
        t.set_new_sub_purpose(kind, *sp.roll[1:])
    return t


def gen_spec(rng, malformed=False):
    rank = rng.choice([4, 4, 4, 4, 3, 2, 1, 0])
    dims = [rng.randint(1, 6) for _ in range(rank)]
    if rank >= 1:
        dims[-1] = rng.choice([1, 2, 3, 15, 16, 17, 20, 31, 32, 33, 40, rng.randint(1, 40)])
    if rank == 4 and rng.random() < 0.85:
        dims[0] = 1
    elem = rng.choice([1, 1, 2, 4])
    fmt = rng.choice([0, 1, 1])
    linear = fmt == 0 and rng.random() < 0.5
    purpose = 0
    align = 16
    roll = None
    if rank >= 1 and rng.random() < 0.4:
        k = rng.choice(["y", "y", "y", "x", "xy"])
        full = [1] * (4 - rank) + dims
        if k == "y":
            roll = ("y", rng.randint(1, full[1] + 1))
        elif k == "x":
            roll = ("x", rng.randint(1, full[2] + 1))
        else:
            roll = ("xy", rng.randint(1, full[2] + 1), rng.randint(1, full[1] + 1))
    if malformed:
        m = rng.randint(0, 5)
        if m == 0 and rank:
            dims[rng.randrange(rank)] = 0
        elif m == 1:
            linear, fmt = True, 1
        elif m == 2:
            purpose = rng.choice([1, 2])
        elif m == 3:
            fmt = 2
        elif m == 4:
            align = rng.choice([1, 4, 64, 3])
        else:
            purpose = 2
    return Spec(dims, elem, align, fmt, linear, purpose, 16 * rng.randint(0, 4096), roll)


def small_specs():
    """exhaustive small scope: rank-4 shapes over a boundary set, both formats, the three element sizes, rolling in y"""
    out = []
    for h, w, c, fmt, elem in itertools.product([1, 3], [1, 2], [1, 15, 16, 17, 32, 33, 40], [0, 1], [1, 2, 4]):
        out.append(Spec([1, h, w, c], elem, 16, fmt, False, 0, 64, None))
        if h > 1:
            out.append(Spec([1, h, w, c], elem, 16, fmt, False, 0, 64, ("y", 2)))
    return out


def op_shapes(V, rng, t, sp):
    """operator shapes a tensor may be accessed through: none, its own 4-D shape, a reshape of equal volume,
    and (rarely) an unrelated one"""
    S4 = V["shape4d"].Shape4D
    full = [1] * (4 - len(sp.shape)) + list(sp.shape)
    out = [None, S4(list(full))]
    n, h, w, c = full
    out.append(S4([n, 1, h * w, c]))
    if c % 2 == 0:
        out.append(S4([n, h, w * 2, c // 2]))
    if rng.random() < 0.2:
        out.append(S4([1, rng.randint(1, 6), rng.randint(1, 6), rng.randint(1, 40)]))
    return out


def coords_of(shape4, limit, rng):
    n, h, w, c = shape4
    total = n * h * w * c
    if total <= limit:
        return [list(x) for x in itertools.product(range(n), range(h), range(w), range(c))]
    out = set()
    # boundary-biased sample
    for _ in range(limit):
        out.add((rng.randrange(n), rng.choice([0, h - 1, rng.randrange(h)]), rng.choice([0, w - 1, rng.randrange(w)]),
                 rng.choice([0, c - 1, 15 % c, 16 % c, rng.randrange(c)])))
    return [list(x) for x in sorted(out)]


def gen_box(rng, shape4, buf_h):
    """a box inside `shape4`; for a rolling buffer of height `buf_h` mostly at most `buf_h` rows high"""
    n, h, w, c = shape4
    y0 = rng.randrange(h)
    maxh = h - y0
    if buf_h is not None and rng.random() < 0.85:
        maxh = min(maxh, buf_h)
    y1 = y0 + rng.randint(1, maxh)
    x0 = rng.randrange(w) if rng.random() < 0.3 else 0
    x1 = rng.randint(x0 + 1, w)
    c0 = rng.choice([0, 0, 16 * rng.randrange((c + 15) // 16), rng.randrange(c)])
    c0 = min(c0, c - 1)
    c1 = rng.randint(c0 + 1, c)
    b = rng.randrange(n)
    return [b, y0, x0, c0], [b + 1, y1, x1, c1]


# ------------------------------------------------------------------------------------------------
# function level


class Case:
    """a request for the model together with the real answer"""
    __slots__ = ("line", "real", "kind", "ctx")

    def __init__(self, line, real, kind, ctx):
        self.line, self.real, self.kind, self.ctx = line, real, kind, ctx


def real_afc(t, coord, strides, op, top):
    ok, v = call(t.address_for_coordinate, list(coord), None if strides is None else list(strides), op, top)
    return str(as_int(v)) if ok else v


def real_arb(t, s, e, strides, op):
    ok, v = call(t.addresses_for_rolling_buffer, list(s), list(e), list(strides), op)
    if not ok:
        return v
    h0, h1, w0, addrs = v
    return " ".join(str(as_int(x)) for x in [h0, h1, w0] + list(addrs))


def real_cfm(V, t, s, e, arch, op, offs, mult, transposed):
    hl, Box = V["hl"], V["hlcs"].Box
    saved_ops = t.ops
    if transposed:
        o = V["operation"].Operation(V["operation"].Op.AvgPool, "tr")
        o._original_type = V["operation"].Op.Transpose
        t.ops = [o]
    try:
        ok, fm = call(hl.create_feature_map, t, Box(list(s), list(e)), arch, op, list(offs), None if mult is None else list(mult), transposed)
    finally:
        t.ops = saved_ops
    if not ok:
        return fm
    return " ".join(str(int(x)) for x in [fm.strides.height, fm.strides.width, fm.strides.depth, fm.tiles.height_0,
                                          fm.tiles.height_1, fm.tiles.width_0] + list(fm.tiles.addresses))


def fm_tokens(t_fmt_no, elem, h0, h1, w0, sx, sy, sc, addrs, h, w, d):
    return " ".join(map(str, [1 if t_fmt_no == 1 else 0, elem, h0, h1, w0, sx, sy, sc] + list(addrs) + [h, w, d]))


def function_level(ck, n_random, seconds_hint=None):
    """returns (evaluations, distinct tensors). Violations are recorded on ck."""
    V = _vela()
    arch = V["af"].create_default_arch(V["af"].Accelerator.Ethos_U55_128)
    rng = ck.rng
    S4 = V["shape4d"].Shape4D
    specs = small_specs() + [gen_spec(rng, malformed=(i % 7 == 6)) for i in range(n_random)]
    # stage 1: construction
    mk = ck.model([sp.mk_line() for sp in specs])
    tensors = []
    for sp, ans in zip(specs, mk):
        ok, t = call(build_real, V, sp, arch)
        if ok:
            oks, size = call(t.storage_size)
            real = enc_tensor(V, t) + " | " + (str(as_int(size)) if oks else size)
        else:
            real = t
        ck.count("mk_" + ("ok" if ok else real))
        if real != ans:
            tensors.append((sp, t if ok else None, ("mk", sp.mk_line(), real, ans)))
        elif ok:
            tensors.append((sp, t, None))
    cases = []
    spec_reqs = []          # (line, ctx) Lean Spec on real outputs; must answer 1
    mismatched_tensors = []
    for sp, t, bad in tensors:
        if bad is not None:
            mismatched_tensors.append((sp, bad))
        if t is None or len(sp.shape) > 4:
            continue
        T = enc_tensor(V, t)
        full = [1] * (4 - len(sp.shape)) + list(sp.shape)
        ops = op_shapes(V, rng, t, sp)
        for op in ops:
            ok, st = call(t.get_strides, op)
            real = enc_strides(st) if ok else st
            cases.append(Case(f"ta strides {T} {enc_op(op)}", real, "strides", sp))
        # address_for_coordinate: every in-shape coordinate through None / own shape; samples through the others
        if 0 in full or sp.fmt == 2 or sp.purpose == 1:
            ck.count("tensor_degenerate")
        if 0 in full:
            # a zero dimension: the in-shape assert (Standard) or the wrap-around modulo (rolling) rejects every coordinate
            for op in ops[:2]:
                cd = [0, 0, 0, 0] if op is not None else [0] * len(sp.shape)
                r = real_afc(t, cd, None, op, False)
                cases.append(Case(f"ta afc {T} {enc_op(op)} - 0 {len(cd)} " + " ".join(map(str, cd)), r, "afc", sp))
        own = S4(list(full))
        std_fm = t.is_standard_fm
        for op in ops:
            shape_for_coords = full if op is None or op is ops[1] else op.as_list()
            if any(d == 0 for d in shape_for_coords):
                continue
            exhaustive = op is None or op is ops[1]
            coords = coords_of(shape_for_coords, 700 if exhaustive else 40, rng)
            if len(sp.shape) < 4 and op is None:
                # Python callers pass coordinates of the tensor's own rank when no operator shape is given
                coords = [cd[4 - len(sp.shape):] for cd in coords]
            addrs = []
            for cd in coords:
                r = real_afc(t, cd, None, op, False)
                cases.append(Case(f"ta afc {T} {enc_op(op)} - 0 {len(cd)} " + " ".join(map(str, cd)), r, "afc", sp))
                if not r.startswith("err") and not r.startswith("nonint"):
                    addrs.append(int(r))
            ck.count("afc_coords", len(coords))
            # Spec on the real addresses: inside the allocation the tensor reports, pairwise disjoint
            if exhaustive and addrs and len(addrs) == len(coords) and (std_fm or op is None):
                oks, size = call(t.storage_size)
                volume_ok = True
                if oks:
                    spec_reqs.append((f"ta_inside {int(t.address)} {as_int(size)} {sp.elem} " + " ".join(map(str, addrs)),
                                      ("inside", sp, enc_op(op))))
                if len(addrs) <= 1200 and sp.roll is None and volume_ok:
                    spec_reqs.append((f"ta_disjoint {sp.elem} " + " ".join(map(str, addrs)), ("disjoint", sp, enc_op(op))))
        # is_top_box, explicit strides, out-of-range and negative coordinates
        for _ in range(6):
            op = rng.choice(ops)
            shp = full if op is None else op.as_list()
            k = rng.random()
            if k < 0.4:      # top box: end coordinate of a box (1-based)
                cd = [rng.randint(1, max(1, d)) for d in shp]
                top = True
            elif k < 0.7:    # out of range by one / negative
                cd = [rng.randrange(max(1, d)) for d in shp]
                i = rng.randrange(4)
                cd[i] = rng.choice([-1, shp[i], shp[i] + 1, -2])
                top = rng.random() < 0.3
            else:
                cd = [rng.randrange(max(1, d)) for d in shp]
                top = False
            st = None
            if rng.random() < 0.5:
                ok, st0 = call(t.get_strides, op)
                if ok:
                    st = [as_int(x) for x in st0]
                    if rng.random() < 0.4 and sp.fmt == 0:
                        st[2] *= 2
                        st[3] *= 2
            if len(sp.shape) < 4 and op is None and rng.random() < 0.7:
                cd = cd[4 - len(sp.shape):]
            r = real_afc(t, cd, st, op, top)
            ck.count("afc_variant_" + ("top" if top else "plain") + ("_err" if r.startswith("err") else ""))
            cases.append(Case(f"ta afc {T} {enc_op(op)} {enc_strides(st)} {1 if top else 0} {len(cd)} " + " ".join(map(str, cd)),
                              r, "afc", sp))
        # addresses_for_rolling_buffer and create_feature_map on boxes
        if any(d == 0 for d in full):
            continue
        for bi in range(5):
            op = own if rng.random() < 0.8 else rng.choice(ops[1:])
            shp = op.as_list()
            if any(d == 0 for d in shp):
                continue
            buf_h = None
            if sp.roll is not None:
                st_full = [1] * (4 - len(t.storage_shape)) + list(t.storage_shape)
                buf_h = st_full[1]
            s, e = gen_box(rng, shp, buf_h)
            if sp.roll is not None and rng.random() < 0.5:
                # boxes further down than the buffer is high: rows wrap round
                dy = rng.randint(0, 9)
                s[1] += dy
                e[1] += dy
            ok, st0 = call(t.get_strides, op)
            if not ok:
                continue
            st = [as_int(x) for x in st0]
            r = real_arb(t, s, e, st, op)
            ck.count("arb_" + ("err" if r.startswith("err") else "two_tiles" if r.split()[5] != "0" else "one_tile"))
            cases.append(Case(f"ta arb {T} {enc_op(op)} {enc_strides(st)} " + " ".join(map(str, s + e)), r, "arb", sp))
            offs = [0, 0, 0, 0] if rng.random() < 0.7 else [16 * rng.randrange(8) for _ in range(4)]
            mult = None if rng.random() < 0.6 else rng.choice([[1, 1, 1], [1, 2, 2], [1, 2, 1], [2, 1, 3]])
            transposed = rng.random() < 0.15
            rc = real_cfm(V, t, s, e, arch, op, offs, mult, transposed)
            ck.count("cfm_" + ("err" if rc.startswith("err") else "ok") + ("_mult" if mult not in (None, [1, 1, 1]) else "") +
                     ("_transposed" if transposed else ""))
            cases.append(Case(f"ta cfm {T} {enc_op(op)} " + " ".join(map(str, s + e + offs)) + " " +
                              ("-" if mult is None else " ".join(map(str, mult))) + f" {1 if transposed else 0}", rc, "cfm", sp))
            # Spec on the real tiles: the register addressing reaches the tensor's own address of every box element
            # (preconditions of `tiles_cover_box`: a real storage shape; at most the buffer height; a rolling buffer is
            #  not crossed in x or depth; NHCWB16 boxes start on a brick)
            st4 = [1] * (4 - len(t.storage_shape)) + list(t.storage_shape)
            fits = std_fm or (e[2] <= st4[2] and e[3] <= st4[3])
            if not r.startswith("err") and len(sp.shape) > 0 and fits and e[1] - s[1] <= (buf_h if buf_h is not None else e[1]) and \
                    (sp.fmt == 0 or s[3] % 16 == 0):
                vals = [int(x) for x in r.split()]
                h, w, d = e[1] - s[1], e[2] - s[2], e[3] - s[3]
                if h * w * d <= 600:
                    exp = []
                    good = True
                    for y in range(h):
                        for x in range(w):
                            for c in range(d):
                                a = real_afc(t, [s[0], s[1] + y, s[2] + x, s[3] + c], st, op, False)
                                if a.startswith("err"):
                                    good = False
                                    break
                                exp.append(a)
                    if good:
                        fmt = fm_tokens(sp.fmt, sp.elem, vals[0], vals[1], vals[2], st[3], st[2], st[1], vals[3:7], h, w, d)
                        spec_reqs.append((f"ta_tiles {fmt} " + " ".join(exp), ("tiles", sp, (s, e, enc_op(op)))))
                        oks, size = call(t.storage_size)
                        if oks and (op is own or not std_fm):
                            spec_reqs.append((f"ta_fpinside {fmt} {int(t.address)} {as_int(size)}", ("fpinside", sp, (s, e, enc_op(op)))))
    answers = ck.model([c.line for c in cases])
    n_bad = 0
    bad_specs = {}
    for c, a in zip(cases, answers):
        ck.count("fn_" + c.kind)
        if a.startswith("err"):
            ck.count("fn_" + c.kind + "_" + a)
        if a != c.real:
            n_bad += 1
            bad_specs.setdefault(id(c.ctx), (c.ctx, []))[1].append((c.line, c.real, a))
    sv = ck.model([l for l, _ in spec_reqs]) if spec_reqs else []
    spec_fail = []
    for (l, ctx), a in zip(spec_reqs, sv):
        ck.count("spec_" + ctx[0])
        if a != "1":
            spec_fail.append((l, ctx, a))
    # verdicts
    for l, ctx, a in spec_fail[:5]:
        what = {"inside": "an in-shape element is addressed outside [address, address + storage_size())",
                "disjoint": "two distinct in-shape coordinates get overlapping element byte ranges",
                "tiles": "the tile addresses / strides do not reach the tensor's own address of a box element",
                "fpinside": "the register footprint of a box inside the tensor leaves its allocation"}[ctx[0]]
        ck.violation(f"address generation (function level): {what}: tensor {ctx[1].obj()} via {ctx[2]}",
                     {"tensor": ctx[1].obj(), "access": ctx[2], "lean_spec_request": l[:2000], "lean_spec_answer": a,
                      "how_to_replay": "harness/ta_lib.build_real(spec) then the named Tensor method; the Spec request is the Lean input"},
                     found_input=True)
    for sp, bad in mismatched_tensors[:3]:
        ck.violation(f"model and Tensor.set_format / set_new_sub_purpose / storage_size disagree for {sp.obj()}: real '{bad[2]}' model '{bad[3]}'",
                     {"tensor": sp.obj(), "request": bad[1], "real": bad[2], "model": bad[3],
                      "correspondence": "Model/TensorAddr.setFormat, setRolling, storageSize"}, found_input=bool(spec_fail))
    for _k, (sp, lst) in list(bad_specs.items())[:3]:
        line, real, model = lst[0]
        ck.violation(f"model and real tensor addressing disagree ({len(lst)} requests) for {sp.obj()}: `{line[:160]}` real '{real}' model '{model}'",
                     {"tensor": sp.obj(), "request": line, "real": real, "model": model, "more": [x[0] for x in lst[1:4]],
                      "correspondence": "Model/TensorAddr (getStrides / addressForCoordinate / addressesForRollingBuffer / createFeatureMap)"},
                     found_input=bool(spec_fail))
    for c in cases[:2]:
        ck.sample({"request": c.line[:200], "real_and_model": c.real})
    return len(cases) + len(specs) + len(spec_reqs), len(specs), n_bad + len(mismatched_tensors), len(spec_reqs)


# ------------------------------------------------------------------------------------------------
# pipeline level (runs inside the compile worker, before the process state is reset)


def _fm_real(fm):
    return " ".join(str(int(x)) for x in [fm.strides.height, fm.strides.width, fm.strides.depth, fm.tiles.height_0,
                                          fm.tiles.height_1, fm.tiles.width_0] + list(fm.tiles.addresses))


def pipeline_extra(res):
    """per captured stream: the `ta cfm` requests with the compiler's own feature maps as expected answers, and the
    `alloccheck` request (emitted words + allocation [address, storage_size()) of the tensor behind every feature map)"""
    V = _vela()
    from ethosu.vela.high_level_command_stream import NpuStripe
    from ethosu.vela.api import NpuDmaOperation
    from ethosu.vela.operation import Op, Padding

    hl = V["hl"]
    out = []
    for art in res.streams:
        cfm, allocs, notes = [], [], []
        for idx, npu_op in enumerate(art.npu_ops):
            cmd = art.op_to_cmd[npu_op]
            if isinstance(npu_op, NpuDmaOperation) or not isinstance(cmd, NpuStripe):
                allocs.append("D")
                continue
            ps = cmd.ps
            op = ps.primary_op
            tile_pad = op.attrs.get("padding", None) == Padding.TILE
            recs = [("IFM", cmd.ifm_tensor, cmd.ifm_box, ps.ifm_shapes[0], op.tile_base_offsets_ifm[0], None, False, npu_op.ifm)]
            if getattr(npu_op, "ifm2", None) is not None and cmd.ifm2_tensor is not None:
                recs.append(("IFM2", cmd.ifm2_tensor, cmd.ifm2_box, ps.ifm_shapes[1], op.tile_base_offsets_ifm[1], None, False, npu_op.ifm2))
            recs.append(("OFM", cmd.ofm_tensor, cmd.ofm_box, ps.ofm_shapes[0], op.tile_base_offsets_ofm, op.ofm_stride_multiplier, True, npu_op.ofm))
            al = {"IFM": (0, 0), "IFM2": (0, 0), "OFM": (0, 0)}
            for what, tens, box, shp, offs, mult, is_ofm, fm in recs:
                transposed = bool(is_ofm and tens.ops and tens.ops[0] is not None and tens.ops[0].original_type == Op.Transpose)
                s, e = [int(x) for x in box.start_coord], [int(x) for x in box.end_coord]
                al[what] = (int(tens.address), int(tens.storage_size()))
                if len(s) != 4 or len(e) != 4:
                    notes.append(f"op {idx} {what}: box of rank {len(s)}")
                    continue
                real = _fm_real(fm)
                if what == "IFM" and tile_pad:
                    # create_padding re-points the IFM tiles of a Padding.TILE operation afterwards: compare with a
                    # re-invocation of the real create_feature_map on the same arguments
                    ok, fm2 = call(hl.create_feature_map, tens, box, art.arch, shp, offs)
                    real = _fm_real(fm2) if ok else fm2
                line = (f"ta cfm {enc_tensor(V, tens)} {enc_op(shp)} " + " ".join(map(str, s + e)) + " " +
                        " ".join(str(int(o)) for o in offs) + " " + ("-" if not mult else " ".join(str(int(m)) for m in mult)) +
                        f" {1 if transposed else 0}")
                cfm.append((line, real, f"op {idx} {what} {op.type.name} tensor {tens.name}"))
            allocs.append("B," + ",".join(f"{a},{b}" for a, b in (al["IFM"], al["IFM2"], al["OFM"])))
        out.append({"cfm": cfm, "alloc": "alloccheck allocs=" + ";".join(allocs) + " words=" + ",".join(map(str, art.words)),
                    "notes": notes})
    return out


def _source_key(o, msg):
    """known-finding key explained by a construct of the source network (stream_checks.classify_source), or None"""
    import stream_checks

    return stream_checks.classify_source(o, msg)


def pipeline_level(ck, outs):
    """judge the `extra` records of the compiled corpus. Returns (feature maps compared, streams checked)."""
    lines, owners = [], []
    for o in outs:
        for si, ex in enumerate(o.get("extra") or []):
            for line, real, what in ex["cfm"]:
                lines.append(line)
                owners.append((o, si, "cfm", real, what))
            lines.append(ex["alloc"])
            owners.append((o, si, "alloc", None, None))
            for nt in ex["notes"]:
                ck.count("pipeline_note_" + nt.split(":")[-1].strip().replace(" ", "_"))
    if not lines:
        return 0, 0
    answers = ck.model(lines)
    n_fm = n_streams = 0
    alloc_bad = {}
    cfm_bad = []
    for (o, si, kind, real, what), line, a in zip(owners, lines, answers):
        if kind == "cfm":
            n_fm += 1
            ck.count("pipeline_fm")
            rt = real.split()
            if len(rt) == 10:
                ck.count("pipeline_fm_" + what.split()[2])
                if rt[8] != "0":
                    ck.count("pipeline_fm_two_tiles")
            toks = line.split()
            if toks[-2] != "-" and toks[-4:-1] != ["1", "1", "1"]:
                ck.count("pipeline_fm_stride_multiplier")
            if toks[-1] == "1":
                ck.count("pipeline_fm_transposed")
            if " 1 1 1 16 1 " in line:
                ck.count("pipeline_fm_nhcwb16")
            if a != real:
                cfm_bad.append((o, si, line, real, a, what))
        else:
            n_streams += 1
            if not a.startswith("decode=ok") or "allocs-mismatch" in a:
                ck.violation(f"alloccheck: stream of network {o['idx']} ({o['profile']}) not judged: {a[:200]}",
                             {"profile": o["profile"], "seed": o["seed"], "index": o["idx"], "opts": o.get("opts"), "answer": a[:500]},
                             found_input=False)
                continue
            n = int(a.split("alloc=")[1].split()[0])
            if n:
                alloc_bad[(o["profile"], o["seed"], o["idx"], si)] = (o, si, a, line)
    for key, (o, si, a, line) in list(alloc_bad.items())[:6]:
        msg = a.split("alloc=")[1]
        ck.violation(f"NPU access leaves the allocation of its own tensor: {msg[:300]} (network {o['idx']} {o['profile']} {o.get('opts')})",
                     {"profile": o["profile"], "seed": o["seed"], "index": o["idx"], "opts": o.get("opts"), "network": o.get("desc"),
                      "stream": si, "spec_verdict": a[:1500], "alloccheck_request_head": line[:600],
                      "how_to_replay": "./check C02 --replay <this file> recompiles (seed, index, profile)"},
                     found_input=True, key=_source_key(o, msg))
    for o, si, line, real, a, what in cfm_bad[:4]:
        ck.violation(f"model and create_feature_map disagree ({len(cfm_bad)} feature maps): {what}: real '{real}' model '{a}' "
                     f"(network {o['idx']} {o['profile']} {o.get('opts')})",
                     {"profile": o["profile"], "seed": o["seed"], "index": o["idx"], "opts": o.get("opts"), "network": o.get("desc"),
                      "stream": si, "request": line, "real": real, "model": a,
                      "correspondence": "Model/TensorAddr.createFeatureMap vs high_level_command_to_npu_op.create_feature_map"},
                     found_input=bool(alloc_bad))
    return n_fm, n_streams


# ------------------------------------------------------------------------------------------------
# networks that aim at the hypotheses of the theorems (operator shape != tensor shape, depth offsets that are not
# multiples of 16, TRANSPOSE, half-pixel RESIZE_BILINEAR = stride multiplier + tile base offsets)

TA_FAMILIES = ["reshape_mid", "reshape_mid", "concat_unaligned", "slice_unaligned", "transpose", "resize_half_pixel", "split_unaligned"]


def ta_net(rng, idx):
    import netgen
    from netgen import Op

    fam = TA_FAMILIES[idx % len(TA_FAMILIES)]
    dtype = rng.choice(["int8", "int8", "uint8", "int16"]) if fam in ("reshape_mid", "transpose") else rng.choice(["int8", "uint8"])
    b = netgen.B(rng, f"ta{idx}_{fam}", dtype)
    b.net.desc.append(f"ta family={fam} dtype={dtype}")
    h, w = rng.choice([2, 4, 6, 8]), rng.choice([2, 4, 6, 8])
    x = b.input([1, h, w, rng.choice([4, 8, 16])])

    def npu_tail(y):
        k = rng.choice(["conv", "relu", "pool", "add"])
        if k == "conv":
            z = b.conv(y, rng.choice([8, 16, 20]), (1, 1), (1, 1), (1, 1), "SAME")
            return z if z is not None else b.unary("RELU", y)
        if k == "relu":
            return b.unary("RELU", y)
        if k == "pool":
            return b.pool(y, "MAX_POOL_2D", (1, 1), (1, 1), "VALID")
        return b.binary("ADD", y, y)

    if fam == "reshape_mid":
        c1 = rng.choice([20, 40, 17, 24, 33, 16, 48])
        y = b.conv(x, c1, rng.choice([(1, 1), (3, 3)]), (1, 1), (1, 1), "SAME")
        cands = [[1, 1, h * w, c1], [1, h * w, 1, c1], [1, w, h, c1]]
        if c1 % 2 == 0:
            cands += [[1, h, w * 2, c1 // 2], [1, h * 2, w, c1 // 2]]
        if h % 2 == 0:
            # merging rows into channels: the producer's operator shape, rounded to bricks, is larger than the tensor
            cands += [[1, h // 2, w, c1 * 2]] * 4 + [[1, h // 2, w * 2, c1]]
        if w % 2 == 0:
            cands += [[1, h, w // 2, c1 * 2]] * 3
        cands += [[1, h * w * c1]]
        shp = rng.choice(cands)
        r = b.reshape(y, shp)
        if len(shp) == 2:
            out = b.fc(r, rng.choice([4, 10, 20]))
        else:
            out = npu_tail(r)
            if rng.random() < 0.4:
                out = b.reshape(out, [1, 1, 1, -1] if False else [1, b.t(out).shape[1] * b.t(out).shape[2], 1, b.t(out).shape[3]])
                out = npu_tail(out)
        return b.finish([out])
    if fam == "concat_unaligned":
        parts = [b.conv(x, c, rng.choice([(1, 1), (3, 3)]), (1, 1), (1, 1), "SAME") for c in rng.choice([[8, 20], [20, 8, 4], [17, 16], [24, 24]])]
        cat = b.concat(parts, 3)
        return b.finish([npu_tail(cat)])
    if fam in ("slice_unaligned", "split_unaligned"):
        c1 = rng.choice([40, 48, 32])
        y = b.conv(x, c1, (1, 1), (1, 1), (1, 1), "SAME")
        if fam == "slice_unaligned":
            c0 = rng.choice([8, 4, 16, 20])
            s = b.strided_slice(y, [0, 0, 0, c0], [1, h, w, rng.randint(c0 + 1, c1)])
            return b.finish([npu_tail(s)])
        outs = b.split(y, rng.choice([2, 4]), 3)
        return b.finish([npu_tail(o) for o in outs])
    if fam == "transpose":
        y = b.conv(x, rng.choice([8, 16, 20]), (1, 1), (1, 1), (1, 1), "SAME")
        yt = b.t(y)
        perm = b.const([4], "int32", [0, 2, 1, 3], name=b.fresh("perm"))
        o = b.fm([1, yt.shape[2], yt.shape[1], yt.shape[3]], yt.dtype, scale=yt.scales[0], zp=yt.zps[0])
        b.net.ops.append(Op("TRANSPOSE", [y, perm], [o], ("TransposeOptions", {})))
        return b.finish([npu_tail(o)])
    # resize_half_pixel
    y = b.conv(x, rng.choice([8, 16]), (1, 1), (1, 1), (1, 1), "SAME") if rng.random() < 0.5 else x
    r = b.resize(y, 2, "RESIZE_BILINEAR", align=False, half=True)
    return b.finish([npu_tail(r)])


def _ta_worker(job):
    import random
    import traceback
    import zlib

    import netgen
    import pipeline
    import pipe_common

    seed, idx = job
    rng = random.Random((seed << 20) ^ (idx * 104729) ^ zlib.crc32(b"ta_nets"))
    out = {"idx": idx, "profile": "ta_nets", "seed": seed}
    try:
        net = ta_net(rng, idx)
        opts = ["--accelerator-config", rng.choice(pipe_common.ACCS), "--optimise", rng.choice(["Size", "Performance"])]
        data = netgen.serialize(net)
        out.update(desc=net.describe(), opts=opts, family=net.name.split("_", 1)[-1])
        res = pipeline.compile_net(data, opts, name=f"ta{idx}")
        out["status"] = res.status
        out["exc"] = (type(res.exc).__name__ + ": " + str(res.exc))[:300] if res.exc is not None else ""
        if res.status == "ok" and res.out_model is not None:
            out["extra"] = pipeline_extra(res)
            out["npu_ops"] = [len(a.npu_ops) for a in res.streams]
        pipeline.reset_process_state()
    except BaseException:  # noqa: B902
        out["harness_exception"] = traceback.format_exc()[-1500:]
    return out


def ta_corpus(ck, n):
    """compile `n` networks of the families above (replay: `ta_lib._ta_worker((seed, index))`)"""
    import multiprocessing
    import os
    from concurrent.futures import ProcessPoolExecutor

    import pipeline

    pipeline.load_vela()
    jobs = [(ck.seed, i) for i in range(n)]
    ctx = multiprocessing.get_context("fork")
    with ProcessPoolExecutor(min(16, os.cpu_count() or 4), mp_context=ctx) as ex:
        outs = list(ex.map(_ta_worker, jobs, chunksize=1))
    for o in outs:
        if "harness_exception" in o:
            raise common.InfraError("ta_nets worker failed:\n" + o["harness_exception"])
        ck.count("ta_nets_status_" + str(o.get("status")))
        if o.get("status") == "ok" and sum(o.get("npu_ops") or [0]) > 0:
            ck.count("ta_nets_npu_" + o.get("family", "?"))
    return outs
