"""Function-level drive of the real TFLite reader and writer on generated source files (harness/wgen.py).

    case = run_case(seed, idx, malformed=False, perturb=True)
      case["src_tree"]      walk of the source file                        (text)
      case["read"]          ("ok", description of what TFLiteGraph built)  | ("err", kind)
      case["write"]         ("ok", description before writing, walk of the written file) | ("err", kind, description) | None
      case["reread"]        the real reader on the written file: ("ok", description) | ("err", kind, repr) | ("skipped", why)

The harness stands in for the compiler between reader and writer: it calls `refresh_after_modification` (as `read_tflite`
does), lists the operators of every subgraph as one pass (the Const / Placeholder producers in tensor order, then the file's
operators that still produce a tensor, in file order - Model/TfliteReader.lean documents the same order) and, when `perturb`
is set, changes attributes only a compilation sets (memory area / type, address, purpose, shapes, placement, metadata names as
`str`, scalar / array form of quantisation values). The real functions are never edited; the reader's operators are recorded
by wrapping `tflite_reader.Operation` / `TFLiteSubgraph.parse_operator` from outside.
"""
import contextlib
import io
import random
from types import SimpleNamespace

import wgen
import wtree

KINDS = {"IndexError": "index", "KeyError": "key", "AssertionError": "assert", "AttributeError": "attr", "ValueError": "value",
         "SystemExit": "exit", "InputFileError": "vela-error", "VelaError": "vela-error", "OverflowError": "overflow",
         "TypeError": "type"}


def kind_of(e):
    return KINDS.get(type(e).__name__, "other:" + type(e).__name__)


def scalar_constant_as_1d(e, data):
    """True when the reader's exit is the documented corner outside the reader model: `Tensor.as_1D` (bias operand of a
    convolution / FULLY_CONNECTED) on a CONSTANT tensor whose shape is empty — `np.prod([])` is the float 1.0, so
    `values.reshape([1.0])` raises TypeError, which the reader turns into its invalid-file diagnosis and `sys.exit(1)`; the model
    has `prod [] = 1`. Confirmed three ways: the exit's cause is that TypeError, it was raised in `as_1D`, and the file does hold
    a constant tensor of empty shape. A rank-0 bias is not a valid operand, the file is rejected with a diagnosis and nothing
    is written, so the property is not concerned; counted, never silently dropped."""
    import traceback

    ctx = getattr(e, "__context__", None)
    if not (isinstance(e, SystemExit) and isinstance(ctx, TypeError) and "cannot be interpreted as an integer" in str(ctx)):
        return False
    if not any(fr.name == "as_1D" for fr in traceback.extract_tb(ctx.__traceback__)):
        return False
    from ethosu.vela.tflite.Model import Model

    m = Model.GetRootAsModel(bytearray(data), 0)
    for si in range(m.SubgraphsLength()):
        sg = m.Subgraphs(si)
        for ti in range(sg.TensorsLength()):
            t = sg.Tensors(ti)
            if t.ShapeLength() == 0 and 0 <= t.Buffer() < m.BuffersLength() and m.Buffers(t.Buffer()).DataLength() > 0:
                return True
    return False


def read_real(data):
    """TFLiteGraph(data) with the operators of every subgraph recorded in creation order"""
    from ethosu.vela import tflite_reader as tr

    rec = {}
    cur = [None]
    orig_op, orig_parse = tr.Operation, tr.TFLiteSubgraph.parse_operator

    def op_factory(op_type, name):
        op = orig_op(op_type, name)
        rec.setdefault(id(cur[0]), []).append(op)
        return op

    def parse(self, op_index, op_data):
        cur[0] = self
        return orig_parse(self, op_index, op_data)

    tr.Operation, tr.TFLiteSubgraph.parse_operator = op_factory, parse
    try:
        with contextlib.redirect_stdout(io.StringIO()):
            g = tr.TFLiteGraph(bytearray(data), 1, {}, [], [])
    finally:
        tr.Operation, tr.TFLiteSubgraph.parse_operator = orig_op, orig_parse
    return g, [rec.get(id(sg), []) for sg in g.subgraphs]


def seed_ids(g, rec):
    """tensor positions as the reader model numbers them: the tensors of a subgraph in file order, then what its operators
    created (virtual output, weight clone, bias clone) in creation order"""
    ids = wtree.Ids()
    per_sg = []
    for sg, ops in zip(g.subgraphs, rec):
        n0 = len(ids.tensors)
        for t in sg.tensors:
            ids.of(t)
        for op in ops:
            for t in list(op.outputs) + list(op.inputs):
                ids.of(t)
        per_sg.append(ids.tensors[n0:])
    return ids, per_sg


def make_passes(g, rec, per_sg):
    from ethosu.vela.operation import Op

    for sg, ops, tensors in zip(g.nng.subgraphs, rec, per_sg):
        startup = [t.ops[0] for t in tensors if t.ops and t.ops[0].type in (Op.Const, Op.Placeholder)]
        real = [op for op in ops if any(t is not None and t.ops and t.ops[0] is op for t in op.outputs)]
        sg.passes = [SimpleNamespace(ops=startup + real, inputs=[], outputs=[])]


def perturb(nng, rng, feats):
    """attributes that only a compilation sets"""
    import numpy as np
    from ethosu.vela.nn_graph import PassPlacement
    from ethosu.vela.tensor import MemArea, MemType, TensorPurpose

    tensors = []
    seen = set()
    for sg in nng.subgraphs:
        for ps in sg.passes:
            for op in ps.ops:
                for t in list(op.inputs) + list(op.outputs) + list(op.intermediates):
                    if t is not None and id(t) not in seen:
                        seen.add(id(t))
                        tensors.append(t)
    r = rng.random()
    if tensors and r < 0.7:
        # an arena: non-constant tensors live in Scratch of one memory area, with addresses; sometimes a scratch tensor
        area = rng.choice([MemArea.Sram, MemArea.Dram])
        addr = 0
        for t in tensors:
            if t.values is None and rng.random() < 0.8:
                t.mem_area = area if rng.random() < 0.9 else MemArea.OffChipFlash
                t.mem_type = rng.choice([MemType.Scratch, MemType.Scratch, MemType.Scratch_fast])
                if rng.random() < 0.9:
                    t.address = addr
                    addr += 16 * rng.randint(1, 9)
            elif t.values is not None and rng.random() < 0.5:
                t.mem_area, t.mem_type = MemArea.OffChipFlash, rng.choice([MemType.Permanent_NPU, MemType.Permanent_CPU])
        feats.add("w_arena")
        cands = [t for t in tensors if t.values is None]
        if cands and rng.random() < 0.7:
            s = rng.choice(cands)
            s.purpose, s.mem_area, s.mem_type = TensorPurpose.Scratch, area, MemType.Scratch
            feats.add("w_scratch_tensor")
            if rng.random() < 0.06 and len(cands) > 1:
                rng.choice(cands).purpose = TensorPurpose.Scratch
                feats.add("w_two_scratch_tensors")
        if rng.random() < 0.05:
            cs = [t for t in tensors if t.values is not None]
            if cs:
                c = rng.choice(cs)
                c.mem_area, c.mem_type = area, MemType.Scratch_fast
                feats.add("w_constant_in_fast_scratch")
    for t in tensors:
        r = rng.random()
        if r < 0.05 and t.shape:
            t.shape = list(t.shape) + [1]                      # same element count: the original shape is written
            feats.add("w_shape_changed_same_size")
        elif r < 0.08 and t.shape and t.values is None:
            t.shape = [2] + list(t.shape)                      # different element count: the new shape is written
            feats.add("w_shape_changed_size")
        q = t.quantization
        if q is not None:
            r = rng.random()
            if r < 0.1 and q.scale_f32 is not None:
                q.scale_f32 = np.atleast_1d(np.asarray(q.scale_f32, dtype=np.float64))      # array form, float64
                feats.add("w_scale_float64_array")
            elif r < 0.15:
                q.quant_dim = None
                feats.add("w_quant_dim_none")
            elif r < 0.2 and q.zero_point is not None and np.ndim(q.zero_point) == 0:
                q.zero_point = int(q.zero_point)
                feats.add("w_zero_point_python_int")
        if rng.random() < 0.04 and t.values is None and t.src_tensor is None:
            others = [u for u in tensors if u is not t]
            if others:
                t.src_tensor = rng.choice(others)              # a clone relation on an ordinary operand (e.g. `_cpu` copies)
                feats.add("w_src_tensor_on_plain_operand")
    if len(nng.subgraphs) > 1 and rng.random() < 0.3:
        nng.subgraphs[-1].placement = PassPlacement.Npu
        feats.add("w_npu_subgraph_skipped")
    if rng.random() < 0.3:
        nng.metadata.append((rng.choice(["extra_meta", "OfflineMemoryAllocation", "vela_version"]), np.frombuffer(b"\x01\x02\x03", np.uint8)))
        feats.add("w_metadata_str_name")
    # the writer's own failure paths (one per case at most): the model must raise the same kind
    r = rng.random()
    real_ops = [op for sg in nng.subgraphs for ps in sg.passes for op in ps.ops if op.type.name not in ("Const", "Placeholder", "SubgraphInput")]
    if r < 0.02 and [t for t in tensors if t.values is None and t.address is None]:
        t = rng.choice([t for t in tensors if t.values is None and t.address is None])
        t.mem_type = MemType.Scratch
        if t.address is None:
            t.address = rng.choice([1 << 31, (1 << 32) + 5, -(1 << 31) - 1])
            feats.add("w_err_address_outside_int32")
    elif r < 0.04:
        sg = nng.subgraphs[0]
        sg.original_output_positions = list(sg.original_output_positions or []) + [len(sg.output_tensors) + rng.randint(0, 2)]
        feats.add("w_err_output_position_out_of_range")
    elif r < 0.06 and real_ops:
        from ethosu.vela.operation import Op

        rng.choice(real_ops).type = rng.choice([Op.Memcpy, Op.Conv2D, Op.Clamp])       # no entry in builtin_operator_inv_map / a convolution-like type
        feats.add("w_err_type_without_serialiser")
    elif r < 0.08 and real_ops:
        from ethosu.vela.operation import Op

        convs = [op for op in real_ops if op.type in (Op.Conv2DBias, Op.DepthwiseConv2DBias, Op.FullyConnected)]
        if convs:
            op = rng.choice(convs)
            if rng.random() < 0.5:
                op.inputs = op.inputs[:1]
                feats.add("w_err_convolution_with_one_operand")
            elif len(op.inputs) > 1:
                op.inputs[1] = None
                feats.add("w_err_convolution_weights_none")
    elif r < 0.09 and tensors:
        from ethosu.vela.data_type import DataType

        rng.choice(tensors).dtype = rng.choice([DataType.int48, DataType.quint16, DataType.qint12, DataType.quint8, DataType.qint8])
        feats.add("w_err_dtype_without_tensor_type")


def write_real(nng):
    from ethosu.vela import tflite_writer as tw

    with contextlib.redirect_stdout(io.StringIO()):
        return bytes(tw.TFLiteSerialiser(nng).serialise())


def run_case(seed, idx, malformed=False, do_perturb=True, payloads=True):
    from ethosu.vela.tensor import TensorAddressMap

    TensorAddressMap.clear_address_map()        # process-wide state of the compiler; every case starts from none
    rng = random.Random((seed << 24) ^ (idx * 2654435761 % (1 << 24)) ^ (0x5A5A if malformed else 0))
    m = wgen.random_model(rng, idx, malformed)
    data = wgen.serialize(m)
    case = {"idx": idx, "seed": seed, "malformed": malformed, "features": set(m.features), "src": data,
            "src_tree": wtree.text(wtree.walk(data)), "write": None}
    try:
        g, rec = read_real(data)
    except BaseException as e:  # noqa: B902  (the reader calls sys.exit on some malformed files)
        if isinstance(e, (KeyboardInterrupt, MemoryError)):
            raise
        if scalar_constant_as_1d(e, data):
            case["read"] = ("skipped", "outside:scalar-constant-as_1D")
            return case
        case["read"] = ("err", kind_of(e), repr(e)[:200])
        return case
    ids, per_sg = seed_ids(g, rec)
    nng = g.nng
    try:
        with contextlib.redirect_stdout(io.StringIO()):
            nng.refresh_after_modification()
    except Exception as e:  # noqa: B902  graph traversal of nn_graph, not the reader: the case ends here
        case["read"] = ("skipped", "refresh:" + kind_of(e))
        return case
    make_passes(g, rec, per_sg)
    try:
        case["read"] = ("ok", wtree.text(wtree.describe(nng, payloads=False, ids=ids)))
    except wtree.Undescribable as e:
        case["read"] = ("skipped", "undescribable:" + str(e)[:80])
        return case
    if do_perturb:
        perturb(nng, rng, case["features"])
    try:
        desc = wtree.text(wtree.describe(nng, payloads=payloads))
    except wtree.Undescribable as e:
        case["write"] = ("skipped", "undescribable:" + str(e)[:80])
        return case
    try:
        out = write_real(nng)
    except Exception as e:  # noqa: B902
        case["write"] = ("err", kind_of(e), desc, repr(e)[:200])
        return case
    case["out"] = out
    case["write"] = ("ok", desc, wtree.text(wtree.walk(out)))
    case["reread"] = reread_real(out)
    return case


def reread_real(out):
    """the real reader on the file the real writer produced: ("ok", description) | ("err", kind) | ("skipped", why) — judged by
    Lean against Spec.normalise of the description that was written (Props/C11Writer.read_write_roundtrip)"""
    from ethosu.vela.tensor import TensorAddressMap

    TensorAddressMap.clear_address_map()
    try:
        g, rec = read_real(out)
    except BaseException as e:  # noqa: B902
        if isinstance(e, (KeyboardInterrupt, MemoryError)):
            raise
        if scalar_constant_as_1d(e, out):
            return ("skipped", "outside:scalar-constant-as_1D")
        return ("err", kind_of(e), repr(e)[:200])
    ids, per_sg = seed_ids(g, rec)
    try:
        with contextlib.redirect_stdout(io.StringIO()):
            g.nng.refresh_after_modification()
    except Exception as e:  # noqa: B902
        return ("skipped", "refresh:" + kind_of(e))
    make_passes(g, rec, per_sg)
    try:
        return ("ok", wtree.text(wtree.describe(g.nng, payloads=False, ids=ids)))
    except wtree.Undescribable as e:
        return ("skipped", "undescribable:" + str(e)[:80])
