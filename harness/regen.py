"""Second-generation compilation: feed a Vela OUTPUT back into the compiler.

`vela net.tflite; vela net_vela.tflite` is a legal use (an already optimised model reaches a build step that
optimises everything it is given; a model is optimised for its CPU operators a second time with other options).
An optimised model carries Ethos-U custom operators whose command streams have arena addresses baked in, the
fixed-size scratch tensors, and the OfflineMemoryAllocation metadata; the compiler is expected to pass all of
that through unchanged.  No pipeline check used to compile an already compiled model, so reader/writer
disagreements about what an optimised input looks like were invisible.

A profile name `gen2:<base profile>` (pipe_common) generates the network and options of `<base profile>`,
compiles it, and then compiles the OUTPUT again - with the same options or with freshly sampled ones - and, with
probability 1/3, a third time.  The worker output then describes the LAST generation (`status`, `out_model`,
`csv`, ...: the same keys the checks already read), plus

  gen_count      number of compilations done (2 or 3)
  gen_opts       options of every generation
  gen_status     ending of every generation
  gen_models     output bytes of every generation (only with want["out_model"] / want["models"])
  gen1_stream_words   per captured first-generation stream: the command words of the SAME Ethos-U operator in the final
                 file (driver payload stripped), or None when the operator is gone - the stream checks re-judge these

Nothing in here decides pass/fail.
"""
import pipeline

ALIGN = "--cpu-tensor-alignment"


def next_opts(rng, opts1, base_profile):
    """options of a later generation: the same (60 %) or a fresh sample.  The CPU tensor alignment of the first
    generation is kept: the arena plan of a compiled model is passed through, it is not computed again, so it can only
    honour the alignment it was computed for."""
    import pipe_common

    if rng.random() < 0.6:
        return list(opts1)
    o = pipe_common.sample_config(rng, base_profile)
    if ALIGN in o:
        i = o.index(ALIGN)
        del o[i:i + 2]
    if ALIGN in opts1:
        i = opts1.index(ALIGN)
        o += [ALIGN, opts1[i + 1]]
    return o


def ethosu_words_by_result(model_bytes):
    """{names of the operator's results: command words} for every Ethos-U operator of a written file (plain walker)"""
    import fbwalk

    model = fbwalk.parse(model_bytes)
    out = {}
    for si, op, mems, _rest in pipeline.ethosu_ops(model):
        sg = model["subgraphs"][si]
        key = (si,) + tuple(sg["tensors"][i]["name"] for i in op["outputs"])
        out[key] = pipeline.strip_payload(pipeline.payload_words(model, mems[0]))
    return out


def recompile(out, rng, res1, opts1, base_profile, name, want, introspect=True):
    """compile res1.out_model again (and perhaps a third time); fills the gen_* keys of the worker output `out` and
    returns the CompileResult of the last generation.  Its `streams` are those captured in the FIRST generation (an already
    compiled operator is not generated again) carrying the command words found in the FINAL file, followed by whatever
    the last generation generated itself."""
    from ethosu.vela.tensor import TensorAddressMap

    n_gen = 3 if rng.random() < 0.34 else 2
    models, statuses, all_opts = [res1.out_model], [res1.status], [list(opts1)]
    res = res1
    # every compilation starts by clearing the global tensor -> address map (compiler_driver): keep the first generation's
    # entries, they are the side information (tensor addresses) of its streams; keys are per-tensor uuids, so they cannot clash
    saved_addresses = TensorAddressMap.address_map
    for g in range(2, n_gen + 1):
        opts = next_opts(rng, opts1, base_profile)
        # no reset of the process state in between: the first generation's tensor objects (their addresses live in
        # TensorAddressMap) are still needed for the side information of its streams; history independence is C14's subject
        res = pipeline.compile_net(models[-1], opts, name=f"{name}_vela" + "_vela" * (g - 2), introspect=introspect)
        all_opts.append(opts)
        statuses.append(res.status)
        if res.status != "ok" or res.out_model is None:
            break
        models.append(res.out_model)
    for k_, v_ in saved_addresses.items():
        TensorAddressMap.address_map.setdefault(k_, v_)
    out["gen_count"] = len(all_opts)
    out["gen_opts"] = all_opts
    out["gen_status"] = statuses
    out["gen_new_streams"] = len(res.streams)
    if want.get("models") or want.get("out_model"):
        out["gen_models"] = models
    # the first generation's streams, as the final file carries them
    if res.status == "ok" and res.out_model is not None:
        first = ethosu_words_by_result(models[0])
        last = ethosu_words_by_result(res.out_model)
        kept, lost = [], 0
        for art in res1.streams:
            if art.words is None:
                continue
            keys = [k for k, w in first.items() if list(w) == list(art.words)]
            if keys and keys[0] in last:
                art.words = list(last[keys[0]])
                kept.append(art)
            else:
                lost += 1
        out["gen1_streams_lost"] = lost
        res.streams = kept + list(res.streams)
        res.nng = None          # the whole-inference line needs the graph that generated the streams
    return res


def worker(job):
    """pipe_common worker for the profile `gen2:<base>`: network and first options are exactly those of `<base>` at the same
    (seed, index); the post-compile hook of pipe_common._worker hands the first result to `recompile`."""
    import pipe_common

    seed, idx, profile, want = job
    base = profile.split(":", 1)[1]

    def hook(out, rng, res, data, opts):
        out["src_ops_first"] = out.get("src_ops")
        if res.status != "ok" or res.out_model is None:
            out["gen_count"] = 1
            return res
        return recompile(out, rng, res, opts, base, f"n{idx}", want)

    out = pipe_common._worker((seed, idx, base, dict(want, post_compile=hook)))
    out["profile"] = profile
    return out
