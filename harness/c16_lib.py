"""C16 helpers: serialise a Vela `Operation` into the descriptor line Model/Constraints.lean reads,
obtain the real verdict (and WHICH constraint failed) from the live checker objects, and build stub
operators inside / just outside every documented range.

Nothing here decides anything: `describe` copies what the constraint functions read (type, fused
activation, attributes, tensors: shape, data type, quantisation, constant values, producer), the
verdicts come from `is_operator_supported` / `is_operator_semantic_valid` themselves.
"""
import contextlib
import io
import struct

import numpy as np

VALUES_LIMIT = 4096          # constant tensors up to this many elements are transmitted in full
WEIGHTS_LIMIT = 1 << 18      # ... weights (the weights-sum constraint reads every element) up to this many


def _f32_bits(x):
    return struct.unpack("<I", struct.pack("<f", float(x)))[0]


def _f64_bits(x):
    return struct.unpack("<Q", struct.pack("<d", float(x)))[0]


def _scales(s):
    if s is None:
        return "N"
    a = np.asarray(s)
    if a.dtype == np.float32:
        return ",".join(str(int(v)) for v in a.reshape(-1).view(np.uint32))
    if a.dtype.kind == "f":
        f = a.astype(np.float32)
        with np.errstate(all="ignore"):
            if np.array_equal(f.astype(a.dtype), a, equal_nan=True):
                return ",".join(str(int(v)) for v in f.reshape(-1).view(np.uint32))
        return "X"        # not a binary32 value: outside the descriptor (-> err:parse -> counted as unmodelled)
    if a.dtype.kind in "iu":
        return ",".join(str(_f32_bits(v)) for v in a.reshape(-1))
    return "X"


def _zps(z):
    if z is None:
        return "N"
    a = np.asarray(z)
    if a.dtype.kind in "iu":
        return ",".join(str(int(v)) for v in a.reshape(-1))
    if a.dtype.kind == "f" and np.all(np.mod(a, 1) == 0):
        return ",".join(str(int(v)) for v in a.reshape(-1))
    return "X"


def _tens(t, is_weights=False):
    from ethosu.vela.operation import Op

    if t is None:
        return "~"
    shape = "s" if len(t.shape) == 0 else "x".join("N" if d is None else str(int(d)) for d in t.shape)
    dt = f"{t.dtype},{int(t.dtype.bits)},{int(t.dtype.type.value)},{int(getattr(t, 'element_size_bytes', 0))}"
    q = t.quantization
    if q is None:
        qs = "n"
    else:
        mm = int(np.size(q.min) > 1 or np.size(q.max) > 1)
        qs = f"{_scales(q.scale_f32)};{_zps(q.zero_point)};{mm}"
    if t.values is None:
        vs = "n"
    else:
        a = np.asarray(t.values)
        lim = WEIGHTS_LIMIT if is_weights else VALUES_LIMIT
        if a.dtype.kind in "iu" and a.size <= lim:
            vs = "v" + ",".join(str(int(v)) for v in a.reshape(-1))
        elif a.dtype.kind == "b" and a.size <= lim:
            vs = "v" + ",".join(str(int(v)) for v in a.reshape(-1))
        else:
            vs = "b"
    if len(t.ops) == 0:
        pr = "0"
    elif t.ops[0].type == Op.Const:
        pr = "c"
    else:
        pr = "o"
    return "/".join([shape, dt, qs, vs, pr])


def _attr(v):
    import enum

    if v is None:
        return "n"
    if isinstance(v, (bool, np.bool_)):
        return "b1" if v else "b0"
    if isinstance(v, (int, np.integer)):
        return "i" + str(int(v))
    if isinstance(v, float):
        return "f" + str(_f64_bits(v))
    if isinstance(v, np.floating):
        return "f" + str(_f64_bits(float(v)))
    if isinstance(v, enum.Enum):
        return "s" + v.name
    if isinstance(v, str):
        if all(c.isalnum() or c in "_-." for c in v) and v:
            return "s" + v
        return None
    if isinstance(v, (tuple, list)) and all(isinstance(x, (int, np.integer)) and not isinstance(x, bool) for x in v):
        return "l" + ",".join(str(int(x)) for x in v)
    return None


def describe(op):
    """The descriptor line (without the leading `c16 <what>`) of an ethosu.vela Operation."""
    idx = op.type.info.indices
    widx = idx.weights[0] if idx.weights else -1
    attrs = []
    for k, v in op.attrs.items():
        if k == "attribute_read_error":
            attrs.append(f"{k}:l" + ",".join("0" for _ in v))
            continue
        if not all(c.isalnum() or c == "_" for c in k):
            continue
        e = _attr(v)
        if e is not None:
            attrs.append(f"{k}:{e}")
    act = op.activation.op_type.name if op.activation is not None else "-"
    ins = "|".join(_tens(t, i == widx) for i, t in enumerate(op.inputs)) or "-"
    outs = "|".join(_tens(t) for t in op.outputs) or "-"
    return f"type={op.type.name} act={act} attrs={';'.join(attrs) or '-'} in={ins} out={outs}"


class RealCheckers:
    """The live checker objects plus the doc -> constraint-name map used to read WHICH constraint a
    verdict names (the checkers print the failing constraint's docstring)."""

    def __init__(self):
        from ethosu.vela.tflite_model_semantic import TFLiteSemantic
        from ethosu.vela.tflite_supported_operators import TFLiteSupportedOperators

        self.sup = TFLiteSupportedOperators()
        self.sem = TFLiteSemantic()
        self.docs = {}
        for which, cls in (("sup", TFLiteSupportedOperators), ("sem", TFLiteSemantic)):
            d = {}
            for k in vars(cls):
                if k.startswith("constraint_"):
                    d[k] = getattr(cls, k).__doc__ or ""
            self.docs[which] = d

    def verdict(self, which, op):
        """-> 'npu' | 'cpu <constraint name or - or ?>' | 'raised <ExceptionType>'"""
        out = io.StringIO()
        try:
            with contextlib.redirect_stdout(out):
                ok = self.sup.is_operator_supported(op) if which == "sup" else self.sem.is_operator_semantic_valid(op)
        except Exception as e:  # noqa: B902 - the model mirrors "the constraint function raises"
            return "raised " + type(e).__name__
        if ok:
            return "npu"
        text = out.getvalue()
        if which == "sup" and "is a CPU only op" in text or (which == "sup" and "Placing on CPU" not in text):
            return "cpu -"
        hits = [k for k, d in self.docs[which].items() if f"\n - {d}\n" in "\n" + text]
        if len(hits) == 1:
            return "cpu " + hits[0]
        # identical docstrings (none in the unchanged tree): report all candidates
        return "cpu ?" + "/".join(sorted(hits))


def canon_model(ans):
    """model answer -> the comparable form of RealCheckers.verdict"""
    if ans.startswith("raised "):
        parts = ans.split(" ")
        if len(parts) >= 3 and parts[2].startswith("unmodelled"):
            return "unmodelled " + parts[1]
        return "raised"
    return ans


def canon_real(v):
    return "raised" if v.startswith("raised") else v


# ------------------------------------------------------------------------------------------------
# stub operators


class Stubs:
    """Builders of stub operators (the style of ethosu/vela/test/testutil.py) with one knob per fact
    a constraint reads."""

    def __init__(self, rng):
        from ethosu.vela.data_type import DataType
        from ethosu.vela.operation import ActivationFunction, Op, Operation, Padding
        from ethosu.vela.tensor import QuantizationParameters, Tensor, create_const_tensor

        self.rng = rng
        self.DataType, self.Op, self.Operation, self.Padding = DataType, Op, Operation, Padding
        self.ActivationFunction = ActivationFunction
        self.QP, self.Tensor, self.create_const_tensor = QuantizationParameters, Tensor, create_const_tensor
        self.n = 0

    def dt(self, name):
        return getattr(self.DataType, name)

    def qp(self, scale=1.0, zp=0, n=1):
        """per-tensor (n == 1) or per-axis quantisation, stored the way tflite_reader stores it"""
        q = self.QP()
        if scale is None:
            q.scale_f32 = None
        elif n == 1:
            q.scale_f32 = np.float32(scale)
        else:
            q.scale_f32 = np.full(n, scale, dtype=np.float32)
        if zp is None:
            q.zero_point = None
        elif n == 1:
            q.zero_point = np.int64(zp)
        else:
            q.zero_point = np.full(n, zp, dtype=np.int64)
        return q

    def tens(self, shape, dtype="int8", quant="default", values=None, const_op=True, name=None):
        self.n += 1
        name = name or f"t{self.n}"
        d = self.dt(dtype) if isinstance(dtype, str) else dtype
        q = self.qp() if isinstance(quant, str) and quant == "default" else quant
        if values is not None and const_op:
            t = self.create_const_tensor(name, list(shape), d, values, quantization=q)
        else:
            t = self.Tensor(list(shape), d, name)
            t.quantization = q
            if values is not None:
                t.values = np.asarray(values)
        return t

    def op(self, op_type, inputs, outputs, attrs=None, act=None, name=None):
        self.n += 1
        o = self.Operation(getattr(self.Op, op_type) if isinstance(op_type, str) else op_type, name or f"op{self.n}")
        for t in inputs:
            if t is None:
                o.inputs.append(None)
            else:
                o.add_input_tensor(t)
        for t in outputs:
            o.outputs.append(t)
            if t is not None:
                t.ops = [o]
        if attrs:
            o.attrs.update(attrs)
        if act is not None:
            o.activation = self.ActivationFunction(getattr(self.Op, act))
        return o


# ------------------------------------------------------------------------------------------------
# families: one base operator per family with keyword knobs; `cases()` perturbs one (sometimes two)
# knobs at a time to values inside and just outside every documented range


def _out_hw(h, w, kh, kw, sh, sw, dh, dw, same):
    kh_d, kw_d = (kh - 1) * dh + 1, (kw - 1) * dw + 1
    if same:
        return -(-h // max(sh, 1)), -(-w // max(sw, 1))
    return max((h - kh_d) // max(sh, 1) + 1, 1), max((w - kw_d) // max(sw, 1) + 1, 1)


class Families(Stubs):
    def conv(self, kind="Conv2DBias", ifm=(1, 8, 8, 4), k=(3, 3), oc=4, stride=(1, 1), dil=(1, 1), padding="SAME",
             dtype="int8", wdtype=None, bdtype="int32", bias="1d", bias_vals=None, wvals=0, wzp=0, wconst=True,
             per_axis=False, ifm_quant="default", ofm_quant="default", w_quant="default", ofm=None, act=None,
             odtype=None, kic=None, depth_mult=None, attr_style="reader", extra_attrs=None):
        n, h, w, c = ifm
        kh, kw = k
        kic = c if kic is None else kic
        if kind == "DepthwiseConv2DBias":
            wshape = [kh, kw, c, oc // max(c, 1) if depth_mult is None else depth_mult]
            wshape = [kh, kw, 1, oc]
        elif kind == "Conv2DBackpropInput":
            wshape = [kh, kw, oc, kic]
        else:
            wshape = [kh, kw, kic, oc]
        wdtype = wdtype or ("uint8" if dtype == "uint8" else "int8")
        nw = int(np.prod(wshape))
        if w_quant == "default":
            w_quant = self.qp(0.5, wzp, oc if per_axis else 1)
        if wconst:
            wt = self.tens(wshape, wdtype, w_quant, np.full(wshape, wvals) if np.isscalar(wvals) else np.asarray(wvals).reshape(wshape))
        else:
            wt = self.tens(wshape, wdtype, w_quant)
        x = self.tens(list(ifm), dtype, ifm_quant)
        same = padding == "SAME"
        if ofm is None:
            if kind == "Conv2DBackpropInput":
                ofm = (n, h * stride[0], w * stride[1], oc) if same else \
                    (n, h * stride[0] + max(kh - stride[0], 0), w * stride[1] + max(kw - stride[1], 0), oc)
            else:
                oh, ow = _out_hw(h, w, kh, kw, stride[0], stride[1], dil[0], dil[1], same)
                ofm = (n, oh, ow, oc)
        y = self.tens(list(ofm), odtype or dtype, ofm_quant)
        bt = None
        if bias is not None:
            bshape = {"1d": [oc], "2d": [1, oc], "0d": []}[bias]
            bv = np.zeros(bshape, dtype=np.int64) if bias_vals is None else np.asarray(bias_vals, dtype=np.int64).reshape(bshape)
            bt = self.tens(bshape, bdtype, self.qp(0.5, 0), bv)
        attrs = {"padding": getattr(self.Padding, padding)}
        if attr_style == "reader":
            attrs.update(stride_w=stride[1], stride_h=stride[0], strides=(1, stride[0], stride[1], 1))
            if kind != "Conv2DBackpropInput":
                attrs.update(dilation_w_factor=dil[1], dilation_h_factor=dil[0], dilation=(1, dil[0], dil[1], 1))
        else:
            attrs.update(stride_w=stride[1], stride_h=stride[0])
            if kind != "Conv2DBackpropInput":
                attrs.update(dilation_w_factor=dil[1], dilation_h_factor=dil[0])
        if kind == "DepthwiseConv2DBias":
            attrs["depth_multiplier"] = 1 if depth_mult is None else depth_mult
        if extra_attrs:
            attrs.update(extra_attrs)
        if kind == "Conv2DBackpropInput":
            os_ = self.tens([4], "int32", None, np.asarray(ofm))
            ins = [os_, wt, x] + ([bt] if bt is not None else [])
        else:
            ins = [x, wt] + ([bt] if bt is not None else [])
        return self.op(kind, ins, [y], attrs, act)

    def pool(self, kind="MaxPool", ifm=(1, 8, 8, 4), k=(2, 2), stride=(2, 2), padding="VALID", dtype="int8", odtype=None,
             ofm=None, act=None, ifm_quant="default", ofm_quant="default", with_ksize=True):
        n, h, w, c = ifm
        oh, ow = _out_hw(h, w, k[0], k[1], stride[0], stride[1], 1, 1, padding == "SAME")
        x = self.tens(list(ifm), dtype, ifm_quant)
        y = self.tens(list(ofm or (n, oh, ow, c)), odtype or dtype, ofm_quant)
        attrs = {"padding": getattr(self.Padding, padding), "stride_w": stride[1], "stride_h": stride[0],
                 "filter_width": k[1], "filter_height": k[0], "strides": (1, stride[0], stride[1], 1)}
        if with_ksize:
            attrs["ksize"] = (1, k[0], k[1], 1)
        return self.op(kind, [x], [y], attrs, act)

    def fc(self, ifm=(1, 16), oc=8, dtype="int8", wdtype=None, bdtype="int32", bias="1d", wconst=True, ofm=None,
           keep_num_dims=None, ic=None, bias_vals=None, act=None, ifm_quant="default", w_quant="default", per_axis=False):
        ic = ifm[-1] if ic is None else ic
        x = self.tens(list(ifm), dtype, ifm_quant)
        wdtype = wdtype or ("uint8" if dtype == "uint8" else "int8")
        if w_quant == "default":
            w_quant = self.qp(0.5, 0, oc if per_axis else 1)
        wt = self.tens([ic, oc], wdtype, w_quant, np.zeros([ic, oc]) if wconst else None)
        bt = None
        if bias is not None:
            bshape = {"1d": [oc], "2d": [1, oc]}[bias]
            bv = np.zeros(bshape, dtype=np.int64) if bias_vals is None else np.asarray(bias_vals, dtype=np.int64).reshape(bshape)
            bt = self.tens(bshape, bdtype, self.qp(0.5, 0), bv)
        nb = int(np.prod(ifm)) // max(ic, 1)
        y = self.tens(list(ofm or (nb, oc)), dtype)
        attrs = {}
        if keep_num_dims is not None:
            attrs["keep_num_dims"] = keep_num_dims
        return self.op("FullyConnected", [x, wt] + ([bt] if bt is not None else []), [y], attrs, act)

    def binary(self, kind="Add", a=(1, 4, 4, 8), b=(1, 4, 4, 8), o=None, dtype="int8", dtype2=None, odtype=None,
               qa="default", qb="default", qo="default", b_const=False, act=None, a_vals=None):
        x = self.tens(list(a), dtype, qa, a_vals)
        y2 = self.tens(list(b), dtype2 or dtype, qb, np.zeros(list(b)) if b_const else None) if b is not None else None
        if o is None:
            ra, rb = list(a), list(b if b is not None else a)
            while len(ra) < len(rb):
                ra.insert(0, 1)
            while len(rb) < len(ra):
                rb.insert(0, 1)
            o = [max(p, q) for p, q in zip(ra, rb)]
        out = self.tens(list(o), odtype or dtype, qo)
        return self.op(kind, [x] + ([y2] if y2 is not None else []), [out], {}, act)

    def unary(self, kind="Relu", shape=(1, 4, 4, 8), dtype="int8", odtype=None, oshape=None, qi="default", qo="default",
              attrs=None, act=None):
        x = self.tens(list(shape), dtype, qi)
        y = self.tens(list(oshape if oshape is not None else shape), odtype or dtype, qo)
        return self.op(kind, [x], [y], attrs or {}, act)

    def mean(self, shape=(1, 8, 8, 4), axes=(1, 2), keep=True, dtype="int8", axis_scalar=False, oshape=None):
        x = self.tens(list(shape), dtype)
        if axis_scalar:
            ax = self.tens([], "int32", None, np.asarray(axes[0]))
        else:
            ax = self.tens([len(axes)], "int32", None, np.asarray(list(axes)))
        if oshape is None:
            pos = [a % len(shape) for a in axes if -len(shape) <= a < len(shape)]
            oshape = [1 if i in pos else d for i, d in enumerate(shape)] if keep else [d for i, d in enumerate(shape) if i not in pos]
            if not oshape:
                oshape = [1]
        y = self.tens(list(oshape), dtype)
        return self.op("Mean", [x, ax], [y], {"keep_dims": keep})

    def resize(self, kind="ResizeBilinear", ifm=(1, 4, 4, 8), ofm=(1, 8, 8, 8), align=False, half=False, size=None,
               size_const=True, dtype="int8", with_size=True):
        x = self.tens(list(ifm), dtype)
        ins = [x]
        if with_size:
            sv = list(size) if size is not None else [ofm[1], ofm[2]]
            ins.append(self.tens([len(sv)], "int32", None, np.asarray(sv) if size_const else None))
            if not size_const:
                ins[-1].values = None
        y = self.tens(list(ofm), dtype)
        return self.op(kind, ins, [y], {"align_corners": align, "half_pixel_centers": half})

    def pad(self, ifm=(1, 4, 4, 8), pads=((0, 0), (1, 1), (1, 1), (0, 0)), pdtype="int32", ofm=None, const=True, dtype="int8",
            extra_input=False, pshape=None):
        x = self.tens(list(ifm), dtype)
        pv = np.asarray(pads).reshape(pshape) if pshape is not None else np.asarray(pads)
        p = self.tens(list(pv.shape), pdtype, None, pv if const else None)
        if ofm is None:
            pa = np.asarray(pads).reshape(-1, 2)
            ofm = [d + int(pa[i][0]) + int(pa[i][1]) if i < len(pa) else d for i, d in enumerate(ifm)]
        y = self.tens(list(ofm), dtype)
        ins = [x, p] + ([self.tens([1], dtype, "default", np.zeros([1]))] if extra_input else [])
        return self.op("Pad", ins, [y], {})

    def reshape(self, kind="Reshape", ifm=(1, 4, 4, 8), ofm=(1, 128), dtype="int8", shape_kind="const", qi="default", qo="default"):
        x = self.tens(list(ifm), dtype, qi)
        ins = [x]
        if shape_kind == "const":
            ins.append(self.tens([len(ofm)], "int32", None, np.asarray(list(ofm))))
        elif shape_kind == "noop":          # values set, no producer
            ins.append(self.tens([len(ofm)], "int32", None, np.asarray(list(ofm)), const_op=False))
        elif shape_kind == "dynamic":       # produced by another operator
            st = self.tens([len(ofm)], "int32", None)
            self.op("Shape", [self.tens(list(ofm), dtype)], [st])
            ins.append(st)
        y = self.tens(list(ofm), dtype, qo)
        return self.op(kind, ins, [y], {})

    def concat(self, shapes=((1, 4, 4, 8), (1, 4, 4, 8)), axis=3, ofm=None, dtype="int8", axis_attr=True, act=None):
        ins = [self.tens(list(s), dtype) for s in shapes]
        if ofm is None:
            ofm = list(shapes[0])
            a = axis % len(ofm) if -len(ofm) <= axis < len(ofm) else len(ofm) - 1
            ofm[a] = sum(s[a] for s in shapes if len(s) > a)
        y = self.tens(list(ofm), dtype)
        attrs = {"axis": axis} if axis_attr else {}
        return self.op("ConcatTFLite", ins, [y], attrs, act)

    def split(self, ifm=(1, 4, 4, 8), axis=3, num=2, dtype="int8", axis_scalar=True, ofm=None):
        ax = self.tens([] if axis_scalar else [1], "int32", None, np.asarray(axis) if axis_scalar else np.asarray([axis]))
        x = self.tens(list(ifm), dtype)
        if ofm is None:
            ofm = list(ifm)
            a = axis % len(ofm) if -len(ofm) <= axis < len(ofm) else len(ofm) - 1
            ofm[a] = max(ofm[a] // max(num, 1), 1)
        outs = [self.tens(list(ofm), dtype) for _ in range(max(num, 1))]
        return self.op("Split", [ax, x], outs, {"num_splits": num})

    def strided_slice(self, ifm=(1, 8, 8, 4), begin=(0, 1, 1, 0), end=(1, 5, 5, 4), strides=(1, 1, 1, 1), masks=None, dtype="int8",
                      nconst=(), n_inputs=4, offset=None, ofm=None):
        x = self.tens(list(ifm), dtype)
        mk = lambda i, v: self.tens([len(v)], "int32", None, None if i in nconst else np.asarray(list(v)))  # noqa: E731
        ins = [x, mk(1, begin), mk(2, end), mk(3, strides)][:n_inputs]
        if n_inputs > 4:
            ins.append(mk(4, strides))
        if ofm is None:
            ofm = [max(e - b, 1) for b, e in zip(begin, end)]
        y = self.tens(list(ofm), dtype)
        attrs = dict(begin_mask=0, end_mask=0, ellipsis_mask=0, new_axis_mask=0, shrink_axis_mask=0)
        attrs.update(masks or {})
        if offset is not None:
            attrs["offset"] = offset
        return self.op("StridedSlice", ins, [y], attrs)

    def quantize(self, shape=(1, 4, 4, 8), dtype="int8", odtype="int8", qi="default", qo="default"):
        return self.unary("Quantize", shape, dtype, odtype, qi=qi, qo=qo)


    def generic(self, kind, ins, outs, attrs=None, act=None):
        return self.op(kind, ins, outs, attrs or {}, act)

    def argmax(self, shape=(1, 4, 4, 8), axis=3, dtype="int8", odtype="int32", axis_scalar=True):
        x = self.tens(list(shape), dtype)
        ax = self.tens([] if axis_scalar else [1], "int32", None, np.asarray(axis) if axis_scalar else np.asarray([axis]))
        y = self.tens(list(shape[:-1]) or [1], odtype, None)
        return self.op("ArgMax", [x, ax], [y], {})

    def transpose(self, shape=(1, 4, 8, 2), perm=(0, 2, 1, 3), dtype="int8", perm_const=True, pshape=None):
        x = self.tens(list(shape), dtype)
        p = self.tens(list(pshape) if pshape is not None else [len(perm)], "int32", None, np.asarray(list(perm)).reshape(pshape or [len(perm)]) if perm_const else None)
        oshape = [shape[i] if 0 <= i < len(shape) else 1 for i in perm][: len(shape)] or [1]
        y = self.tens(oshape, dtype)
        return self.op("Transpose", [x, p], [y], {})

    def slice_(self, ifm=(1, 8, 8, 4), begin=(0, 1, 1, 0), size=(1, 4, 4, 4), nconst=(), dtype="int8"):
        x = self.tens(list(ifm), dtype)
        b = self.tens([len(begin)], "int32", None, None if 1 in nconst else np.asarray(list(begin)))
        sz = self.tens([len(size)], "int32", None, None if 2 in nconst else np.asarray(list(size)))
        y = self.tens(list(size), dtype)
        return self.op("Slice", [x, b, sz], [y], {})

    def splitv(self, ifm=(1, 4, 4, 8), sizes=(2, 6), axis=3, dtype="int8"):
        x = self.tens(list(ifm), dtype)
        st = self.tens([len(sizes)], "int32", None, np.asarray(list(sizes)))
        ax = self.tens([], "int32", None, np.asarray(axis))
        outs = []
        for sz in sizes:
            o = list(ifm)
            o[axis] = max(sz, 1)
            outs.append(self.tens(o, dtype))
        return self.op("SplitV", [x, st, ax], outs, {"num_splits": len(sizes)})


DTYPES = ["int8", "uint8", "int16", "int32", "int64", "float32", "bool", "uint16"]


def stub_cases(rng, thorough=False):
    """-> list of (family, label, Operation). Deterministic skeleton (every range edge) + random fill."""
    F = Families(rng)
    out = []

    def add(fam, label, fn, *a, **kw):
        try:
            out.append((fam, label, fn(*a, **kw)))
        except Exception as e:  # noqa: B902  a stub that cannot even be built (e.g. asserts in Tensor) is skipped, loudly
            out.append((fam, label + " [unbuildable: %s]" % type(e).__name__, None))

    inf32, tiny32 = float("inf"), 1.1754944e-38
    # ---- generic constraints, exercised through several operator families --------------------------
    for fam, fn in (("conv", F.conv), ("maxpool", lambda **kw: F.pool("MaxPool", **kw)), ("avgpool", lambda **kw: F.pool("AvgPool", **kw))):
        for dt in DTYPES:
            add(fam, f"dtype={dt}", fn, dtype=dt)
        for dim in (0, 1, 2, 65535, 65536):
            add(fam, f"ifm_h={dim}", fn, ifm=(1, dim, 8, 4))
            add(fam, f"ifm_c={dim}", fn, ifm=(1, 8, 8, dim)) if fam != "conv" else None
        for b in (1, 2, 3):
            add(fam, f"batch={b}", fn, ifm=(b, 8, 8, 4))
        for act in (None, "Relu", "Relu6", "ReluN1To1", "Tanh", "Sigmoid", "LUT", "Softmax", "HardSwish", "LeakyRelu", "Clip"):
            add(fam, f"act={act}", fn, act=act)
            if fam == "maxpool":
                add(fam, f"act={act},odtype=int32", fn, act=act, odtype="int32")
        for q in ("none", "inf", "tiny", "sub", "neg", "nan", "zero", "scale_none", "ratio_inf", "ratio_big"):
            sc = {"none": None, "inf": inf32, "tiny": tiny32, "sub": 1e-39, "neg": -1.0, "nan": float("nan"), "zero": 0.0,
                  "scale_none": "sn", "ratio_inf": 1e-30, "ratio_big": 1e-20}[q]
            for where in ("ifm_quant", "ofm_quant"):
                if sc is None:
                    qp = None
                elif sc == "sn":
                    qp = F.qp(None, 0)
                else:
                    qp = F.qp(sc, 0)
                kw = {where: qp}
                if q in ("ratio_inf", "ratio_big") and where == "ofm_quant":
                    kw["ifm_quant"] = F.qp(3e38 if q == "ratio_inf" else 1e18, 0)
                add(fam, f"{where}={q}", fn, **kw)
        add(fam, "ifm_per_axis", fn, ifm_quant=F.qp(0.5, 0, 4))
        add(fam, "ofm_per_axis", fn, ofm_quant=F.qp(0.5, 0, 4))
        add(fam, "rank5", fn, ifm=(1, 1, 8, 8, 4)) if fam != "conv" else None
    # ---- convolution -----------------------------------------------------------------------------------
    for kind in ("Conv2DBias", "DepthwiseConv2DBias"):
        fam = "conv" if kind == "Conv2DBias" else "dwconv"
        base = dict(kind=kind)
        for sw in (0, 1, 2, 3, 4, 5, 6, 7, 9, 12, 14):
            for iw in (8, 9, 12, 21, 133, 1):
                add(fam, f"stride_w={sw},ifm_w={iw}", F.conv, ifm=(1, 8, iw, 4), stride=(1, sw), k=(1, 1), **base)
        for sh in (0, 1, 2, 3, 4):
            for ih in (8, 1, 3):
                add(fam, f"stride_h={sh},ifm_h={ih}", F.conv, ifm=(1, ih, 8, 4), stride=(sh, 1), k=(1, 1), padding="VALID", **base)
        add(fam, "stride 4x4 ofm 1x1", F.conv, ifm=(1, 4, 4, 4), stride=(4, 4), k=(4, 4), padding="VALID", **base)
        for kh, dh in ((64, 1), (65, 1), (33, 2), (32, 2), (22, 3), (23, 3), (1, 64), (2, 64), (2, 63)):
            add(fam, f"kh={kh},dil_h={dh}", F.conv, ifm=(1, 8, 8, 2), k=(kh, 1), dil=(dh, 1), oc=2, **base)
        for kh, kw in ((64, 64), (64, 65), (32, 128), (32, 129), (1, 4096), (1, 4097), (2, 2048), (2, 2049)):
            add(fam, f"k={kh}x{kw}", F.conv, ifm=(1, 8, 8, 1), k=(kh, kw), oc=1, **base)
        for d in ((0, 1), (1, 0), (2, 2), (3, 1)):
            add(fam, f"dil={d}", F.conv, dil=d, **base)
        for wd in ("int8", "uint8", "int16", "int32"):
            add(fam, f"wdtype={wd}", F.conv, wdtype=wd, **base)
        add(fam, "weights non-const", F.conv, wconst=False, **base)
        # sum of |w - zp| per output channel around 127 * 65536
        for (kh, kw, ic, v, zp) in ((64, 64, 16, 127, 0), (64, 64, 16, -128, 0), (64, 64, 16, 127, -1), (64, 64, 16, 126, -1),
                                    (64, 32, 32, 127, 0), (64, 32, 32, -127, 1), (64, 64, 15, -128, -10)):
            if kind == "Conv2DBias":
                add(fam, f"weights sum k={kh}x{kw}x{ic} v={v} zp={zp}", F.conv, ifm=(1, 8, 8, ic), k=(kh, kw), oc=2, wvals=v, wzp=zp, **base)
        add(fam, "weights sum mixed channels", F.conv, ifm=(1, 8, 8, 16), k=(64, 64), oc=2,
            wvals=np.stack([np.full((64, 64, 16), 127), np.full((64, 64, 16), -128)], axis=-1), **base) if kind == "Conv2DBias" else None
        for b in ("1d", "2d", None):
            add(fam, f"bias={b}", F.conv, bias=b, **base)
        for bd in ("int32", "int64", "int16", "int8", "uint8"):
            add(fam, f"bdtype={bd}", F.conv, bdtype=bd, **base)
        for v in (2 ** 39 - 1, 2 ** 39, 2 ** 40 - 1, 2 ** 40, -(2 ** 38), -(2 ** 39) + 1, -(2 ** 39), -(2 ** 40), 0, -1):
            add(fam, f"bias40 v={v}", F.conv, bdtype="int64", bias_vals=[v, 0, 0, 0], **base)
        add(fam, "bias40 int32 big", F.conv, bdtype="int32", bias_vals=[2 ** 31 - 1, 0, 0, 0], **base)
        add(fam, "per-axis weights", F.conv, per_axis=True, **base)
        add(fam, "weights quant none", F.conv, w_quant=None, **base)
        add(fam, "attr style plain", F.conv, attr_style="plain", stride=(2, 2), **base)
        add(fam, "attribute_read_error", F.conv, extra_attrs={"attribute_read_error": ["padding"]}, **base)
        add(fam, "attribute_read_error empty", F.conv, extra_attrs={"attribute_read_error": []}, **base)
    for kic in (1, 2, 3, 4, 8):
        for oc in (4, 6, 3):
            add("conv", f"groups ifm_c=4 kernel_ic={kic} oc={oc}", F.conv, kic=kic, oc=oc)
    for dm, c, oc in ((1, 4, 4), (2, 1, 2), (2, 1, 3), (2, 2, 4), (3, 1, 3), (0, 4, 4)):
        add("dwconv", f"depth_multiplier={dm},c={c},oc={oc}", F.conv, kind="DepthwiseConv2DBias", ifm=(1, 8, 8, c), oc=oc, depth_mult=dm)
    # ---- transpose convolution -----------------------------------------------------------------------
    for s in ((1, 1), (2, 2), (1, 2), (2, 1), (3, 3), (2, 3)):
        for pad in ("SAME", "VALID"):
            for ih, kh in ((4, 3), (1, 1), (1, 3), (4, 1)):
                add("tconv", f"stride={s},{pad},ih={ih},kh={kh}", F.conv, kind="Conv2DBackpropInput", ifm=(1, ih, 4, 4), k=(kh, 3), stride=s, padding=pad)
    for pad in ("SAME", "VALID"):
        for dh, dw in ((0, 1), (1, 0), (-1, 0), (0, -1)):
            o = (1, 8 + dh, 8 + dw, 4) if pad == "SAME" else (1, 9 + dh, 9 + dw, 4)
            add("tconv", f"{pad} ofm off by {dh},{dw}", F.conv, kind="Conv2DBackpropInput", ifm=(1, 4, 4, 4), k=(3, 3), stride=(2, 2), padding=pad, ofm=o)
    add("tconv", "valid k<stride", F.conv, kind="Conv2DBackpropInput", ifm=(1, 4, 4, 4), k=(1, 1), stride=(2, 2), padding="VALID")
    add("tconv", "no bias", F.conv, kind="Conv2DBackpropInput", ifm=(1, 4, 4, 4), stride=(2, 2), bias=None)
    add("tconv", "weights non-const", F.conv, kind="Conv2DBackpropInput", ifm=(1, 4, 4, 4), stride=(2, 2), wconst=False)
    # ---- pooling -----------------------------------------------------------------------------------------
    for kind in ("MaxPool", "AvgPool"):
        fam = kind.lower()
        for s in ((0, 1), (1, 0), (1, 1), (2, 2), (3, 3), (4, 4), (1, 4), (4, 1), (1, 6), (1, 9), (1, 5)):
            for pad in ("SAME", "VALID"):
                for iw in (8, 12, 9):
                    add(fam, f"stride={s},{pad},iw={iw}", F.pool, kind, ifm=(1, 8, iw, 4), stride=s, padding=pad)
        add(fam, "stride 4x4 ofm 1x1", F.pool, kind, ifm=(1, 4, 4, 4), k=(4, 4), stride=(4, 4), padding="VALID")
        for k in ((1, 1), (8, 8), (9, 8), (8, 9), (9, 9), (256, 1), (257, 1), (256, 256), (256, 257), (1, 65536), (1, 65537),
                  (0, 1), (2, 32768), (2, 32769)):
            for pad in ("SAME", "VALID"):
                add(fam, f"k={k},{pad}", F.pool, kind, ifm=(1, 8, 8, 4), k=k, stride=(1, 1), padding=pad, ofm=(1, 8, 8, 4))
        add(fam, "k 9x9 stride 9 same", F.pool, kind, ifm=(1, 18, 18, 4), k=(8, 9), stride=(1, 9), padding="SAME")
        add(fam, "ifm/ofm dtype differ", F.pool, kind, odtype="int16")
        add(fam, "no ksize attr", F.pool, kind, with_ksize=False, k=(9, 9), padding="SAME")
    # ---- fully connected -----------------------------------------------------------------------------------
    for ifm, ic in (((1, 16), 16), ((4, 16), 16), ((2, 2, 16), 16), ((16,), 16), ((1, 15), 16), ((1, 1, 1, 16), 16), ((3, 5), 16), ((2, 1, 1, 16), 16), ((2, 2, 2, 16), 16)):
        add("fc", f"ifm={ifm},ic={ic}", F.fc, ifm=ifm, ic=ic)
    for kn, ifm, ofm in ((True, (2, 2, 16), (2, 2, 8)), (True, (2, 2, 16), (4, 8)), (False, (2, 2, 16), (4, 8))):
        add("fc", f"keep_num_dims={kn},ofm={ofm}", F.fc, ifm=ifm, ofm=ofm, keep_num_dims=kn)
    for wd in ("int8", "uint8", "int16"):
        add("fc", f"wdtype={wd}", F.fc, wdtype=wd)
    add("fc", "weights non-const", F.fc, wconst=False)
    for b in ("1d", "2d", None):
        add("fc", f"bias={b}", F.fc, bias=b)
    for bd in ("int32", "int64", "int16"):
        add("fc", f"bdtype={bd}", F.fc, bdtype=bd)
    for v in (2 ** 39 - 1, 2 ** 39, 2 ** 40, -(2 ** 39)):
        add("fc", f"bias40 v={v}", F.fc, bdtype="int64", bias_vals=[v] + [0] * 7)
    for dt in DTYPES:
        add("fc", f"dtype={dt}", F.fc, dtype=dt)
    add("fc", "per-axis weights", F.fc, per_axis=True)
    add("fc", "act=Relu", F.fc, act="Relu")
    add("fc", "batch 4 (excepted)", F.fc, ifm=(4, 16))
    # ---- binary elementwise ------------------------------------------------------------------------------
    shapes = [((1, 4, 4, 8), (1, 4, 4, 8)), ((1, 4, 4, 8), (1, 1, 1, 8)), ((1, 4, 4, 8), (1, 1, 1, 1)), ((1, 4, 4, 8), (8,)),
              ((1, 4, 4, 8), ()), ((1, 4, 4, 8), (1, 4, 1, 8)), ((1, 4, 4, 8), (1, 4, 4, 2)), ((1, 1, 4, 8), (1, 4, 1, 8)),
              ((4, 8), (1, 4, 4, 8)), ((2, 4, 4, 8), (2, 4, 4, 8)), ((1, 4, 4, 8), (2, 4, 4, 8)), ((4, 4, 8), (4, 4, 8)), ((8,), (8,))]
    for kind in ("Add", "Sub", "Mul", "Minimum", "Maximum"):
        fam = kind.lower()
        for a, b in shapes:
            add(fam, f"a={a},b={b}", F.binary, kind, a=a, b=b)
            add(fam, f"a={b},b={a}", F.binary, kind, a=b, b=a) if a != b else None
        add(fam, "ofm shape mismatch", F.binary, kind, a=(1, 4, 4, 8), b=(1, 1, 1, 8), o=(1, 4, 4, 4))
        add(fam, "ofm = neither", F.binary, kind, a=(1, 4, 1, 8), b=(1, 1, 4, 8), o=(1, 4, 4, 8))
        add(fam, "scalar const ifm2", F.binary, kind, b=(), b_const=True)
        add(fam, "dynamic scalar ifm2", F.binary, kind, b=())
        for dt, dt2, od in (("int8", "int8", "int8"), ("uint8", "uint8", "uint8"), ("int16", "int16", "int16"), ("int32", "int32", "int32"),
                            ("int8", "uint8", "int8"), ("int8", "int8", "uint8"), ("uint8", "uint8", "int8"), ("uint8", "uint8", "int32"),
                            ("int8", "int8", "int32"), ("int8", "int8", "int16"), ("float32", "float32", "float32"), ("int64", "int64", "int64"),
                            ("uint8", "uint8", "int16"), ("int16", "int16", "int32")):
            add(fam, f"dtypes={dt},{dt2}->{od}", F.binary, kind, dtype=dt, dtype2=dt2, odtype=od)
        for qa, qb, qo, lab in ((F.qp(0.5, 1), F.qp(0.5, 1), F.qp(0.5, 1), "all equal"), (F.qp(0.5, 1), F.qp(0.5, 1), F.qp(0.25, 1), "ofm scale differs"),
                                (F.qp(0.5, 1), F.qp(0.5, 2), F.qp(0.5, 1), "ifm2 zp differs"), (F.qp(0.5, 1), None, F.qp(0.5, 1), "ifm2 none"),
                                (F.qp(0.5, 1), F.qp(0.5, 1), F.qp(None, 1), "ofm scale none"), (F.qp(0.0, 0), F.qp(-0.0, 0), F.qp(0.0, 0), "signed zeros"),
                                (F.qp(float("nan"), 0), F.qp(float("nan"), 0), F.qp(float("nan"), 0), "nan scales")):
            add(fam, f"quant {lab}", F.binary, kind, qa=qa, qb=qb, qo=qo)
        add(fam, "act=Relu", F.binary, kind, act="Relu")
        add(fam, "per-axis ifm", F.binary, kind, qa=F.qp(0.5, 0, 8))
    # ---- unary / activations ----------------------------------------------------------------------------
    for kind in ("Relu", "Relu6", "ReluN1To1", "Sigmoid", "Tanh", "LeakyRelu", "HardSwish", "Abs", "Exp", "Rsqrt", "Quantize", "Softmax",
                 "Clip", "Prelu", "Relu0To1", "Sqrt", "Log", "Gelu", "Neg", "Sin"):
        fam = kind.lower()
        for dt in DTYPES[:7]:
            add(fam, f"dtype={dt}", F.unary, kind, dtype=dt)
        for dt, od in (("int8", "uint8"), ("int8", "int16"), ("uint8", "int8"), ("int16", "int8"), ("int8", "int32"), ("int32", "int8")):
            add(fam, f"dtype={dt}->{od}", F.unary, kind, dtype=dt, odtype=od)
        for shp in ((1, 4, 4, 8), (2, 4, 4, 8), (4, 8), (8,), (), (1, 1, 4, 4, 8), (3, 4, 8), (1, 65535, 1, 1), (1, 65536, 1, 1), (1, 0, 4, 8)):
            add(fam, f"shape={shp}", F.unary, kind, shape=shp)
        add(fam, "ofm shape differs", F.unary, kind, shape=(1, 4, 4, 8), oshape=(1, 4, 8, 4))
        add(fam, "ofm quant none", F.unary, kind, qo=None)
        add(fam, "ifm quant none", F.unary, kind, qi=None)
        add(fam, "per-axis ifm", F.unary, kind, qi=F.qp(0.5, 0, 8))
        add(fam, "ifm scale inf", F.unary, kind, qi=F.qp(inf32, 0))
        add(fam, "ofm scale subnormal", F.unary, kind, qo=F.qp(1e-40, 0))
        add(fam, "None dim", F.unary, kind, shape=(1, None, 4, 8))
    for beta in (1.0, 0.0, -0.0, -1.0, 0.5, float("nan"), -1e-30):
        add("softmax", f"beta={beta}", F.unary, "Softmax", attrs={"beta": beta})
    add("softmax", "batch 4 (excepted)", F.unary, "Softmax", shape=(4, 10))
    add("leakyrelu", "alpha", F.unary, "LeakyRelu", attrs={"alpha": 0.1})
    # ---- mean -----------------------------------------------------------------------------------------------
    for shape, axes in (((1, 8, 8, 4), (1, 2)), ((1, 8, 8, 4), (2, 1)), ((1, 8, 8, 4), (1,)), ((1, 8, 8, 4), (2,)), ((1, 8, 8, 4), (3,)),
                        ((1, 1, 8, 4), (3,)), ((1, 8, 8, 1), (3,)), ((1, 8, 8, 4), (0,)), ((2, 8, 8, 4), (0,)), ((2, 8, 8, 4), (1, 2)),
                        ((8, 8, 4), (0, 1)), ((8, 8, 4), (2,)), ((8, 1, 4), (2,)), ((8, 4), (0, 1)), ((8, 4), (1,)), ((8,), (0,)),
                        ((1, 8, 8, 4), (4,)), ((1, 8, 8, 4), (-1,)), ((1, 8, 8, 4), (1, 2, 3)), ((1, 1, 1, 4, 4), (3,)),
                        ((1, 64, 64, 4), (1, 2)), ((1, 4096, 1, 4), (1,)), ((1, 1, 4096, 4), (2,)), ((1, 1, 4097, 4), (2,)), ((1, 1, 4097, 4), (1,)),
                        ((1, 1, 1, 4096), (3,)), ((1, 1, 1, 4097), (3,)), ((1, 1, 1, 4097), (1, 2)), ((4097, 4), (0,)), ((4, 4097), (1,)),
                        ((4, 4097), (0,)), ((8, 4097, 4), (0,))):
        for dt in ("int8", "uint8", "int16"):
            add("mean", f"shape={shape},axes={axes},{dt}", F.mean, shape=shape, axes=axes, dtype=dt)
    for dt, shapes_ in (("int16", [(1, 256, 256, 1), (1, 256, 257, 1), (1, 4096, 16, 1), (1, 4096, 17, 1)]),
                        ("uint8", [(1, 4096, 2048, 1), (1, 4096, 2049, 1)]), ("int8", [(1, 4096, 4096, 1), (1, 4097, 4096, 1)])):
        for shp in shapes_:
            add("mean", f"product {shp} {dt}", F.mean, shape=shp, axes=(1, 2), dtype=dt)
    # ranks 2-4 with a unit extent in every position x every non-empty set of reduced axes (the depth-axis rule of
    # constraint_mean_axis looks at different extents for rank 3 and rank 4)
    import itertools
    for shape in ((8, 4), (1, 4), (8, 1), (1, 8, 16), (8, 1, 16), (8, 16, 1), (8, 4, 16), (1, 1, 16), (2, 8, 1),
                  (1, 8, 8, 4), (1, 1, 8, 4), (1, 8, 1, 4), (1, 8, 8, 1), (2, 8, 8, 4), (2, 1, 8, 4), (2, 8, 8, 1)):
        for r in range(1, len(shape) + 1):
            for axes in itertools.combinations(range(len(shape)), r):
                add("mean_axes", f"shape={shape},axes={axes}", F.mean, shape=shape, axes=axes, dtype="int8")
                add("mean_axes", f"shape={shape},axes={axes},keep=False", F.mean, shape=shape, axes=axes, dtype="int8", keep=False)
    add("mean", "scalar axis", F.mean, axes=(1,), axis_scalar=True)
    add("mean", "scalar axis depth", F.mean, shape=(1, 1, 1, 4097), axes=(3,), axis_scalar=True)
    add("mean", "keep_dims false", F.mean, keep=False)
    # ---- resize ---------------------------------------------------------------------------------------------
    for kind in ("ResizeBilinear", "ResizeNearestNeighbor"):
        fam = kind.lower()
        for ifm, ofm in (((1, 4, 4, 8), (1, 8, 8, 8)), ((1, 4, 4, 8), (1, 16, 16, 8)), ((1, 4, 4, 8), (1, 32, 32, 8)), ((1, 4, 4, 8), (1, 64, 64, 8)),
                         ((1, 4, 4, 8), (1, 12, 12, 8)), ((1, 4, 4, 8), (1, 8, 16, 8)), ((1, 4, 4, 8), (1, 4, 4, 8)), ((1, 1, 1, 8), (1, 7, 5, 8)),
                         ((1, 4, 4, 8), (1, 7, 7, 8)), ((1, 4, 4, 8), (1, 13, 13, 8)), ((1, 4, 4, 8), (1, 25, 25, 8)), ((1, 4, 4, 8), (1, 10, 10, 8)),
                         ((1, 3, 5, 8), (1, 5, 9, 8)), ((1, 3, 5, 8), (1, 6, 10, 8)), ((1, 1, 4, 8), (1, 1, 8, 8)), ((1, 1, 4, 8), (1, 2, 8, 8)),
                         ((1, 4, 1, 8), (1, 7, 1, 8)), ((4, 4, 8), (8, 8, 8)), ((1, 4, 4, 8), (1, 9, 9, 8)), ((1, 2, 2, 8), (1, 3, 3, 8))):
            for align, half in ((False, False), (True, False), (False, True), (True, True)):
                add(fam, f"{ifm}->{ofm},align={align},half={half}", F.resize, kind, ifm=ifm, ofm=ofm, align=align, half=half)
        add(fam, "size mismatch", F.resize, kind, size=(8, 9))
        add(fam, "size swapped", F.resize, kind, ifm=(1, 4, 4, 8), ofm=(1, 8, 8, 8), size=(9, 8))
        add(fam, "size 3 values", F.resize, kind, size=(8, 8, 8))
        add(fam, "no size tensor", F.resize, kind, with_size=False)
        add(fam, "size not const", F.resize, kind, size_const=False)
        add(fam, "batch 2", F.resize, kind, ifm=(2, 4, 4, 8), ofm=(2, 8, 8, 8))
    # ---- pad ----------------------------------------------------------------------------------------------------
    for pads, lab in ((((0, 0), (1, 1), (1, 1), (0, 0)), "hw"), (((0, 0), (0, 0), (0, 0), (1, 1)), "c"), (((1, 0), (0, 0), (0, 0), (0, 0)), "n"),
                      (((1, 1), (1, 1), (0, 0)), "3x2 hw"), (((0, 0), (0, 0), (2, 0)), "3x2 c"), (((1, 1), (1, 1)), "2x2"),
                      (((0, 0), (0, 0), (0, 0), (0, 0)), "zero")):
        for pd in ("int32", "int64", "int8", "int16"):
            add("pad", f"pads={lab},{pd}", F.pad, ifm=(1, 4, 4, 8)[: max(len(pads), 3) if len(pads) == 3 else 4] if len(pads) != 2 else (4, 8), pads=pads, pdtype=pd)
    add("pad", "wrong ofm", F.pad, ofm=(1, 6, 7, 8))
    add("pad", "not const", F.pad, const=False)
    add("pad", "3 inputs", F.pad, extra_input=True)
    add("pad", "pad tensor 8x1", F.pad, pshape=(8, 1))
    add("pad", "pad tensor flat 8", F.pad, pshape=(8,))
    add("pad", "int32 ifm", F.pad, dtype="int32")
    # ---- reshape / squeeze / expand_dims -----------------------------------------------------------------
    for kind in ("Reshape", "Squeeze", "ExpandDims"):
        fam = kind.lower()
        for sk in ("const", "noop", "dynamic", "absent"):
            add(fam, f"shape tensor {sk}", F.reshape, kind, shape_kind=sk)
        add(fam, "element mismatch", F.reshape, kind, ofm=(1, 127))
        add(fam, "quant mismatch", F.reshape, kind, qo=F.qp(0.25, 0))
        add(fam, "quant none", F.reshape, kind, qi=None, qo=None)
        add(fam, "batch 4", F.reshape, kind, ifm=(4, 4, 4, 8), ofm=(4, 128))
        add(fam, "int32", F.reshape, kind, dtype="int32")
        add(fam, "rank 5 ofm", F.reshape, kind, ofm=(1, 1, 4, 4, 8))
    # ---- concat -------------------------------------------------------------------------------------------------
    for shapes_, axis, ofm in ((((1, 4, 4, 8), (1, 4, 4, 8)), 3, None), (((1, 4, 4, 8), (1, 4, 4, 4)), 3, None), (((1, 4, 4, 8), (1, 4, 4, 8)), -1, None),
                               (((1, 4, 4, 8), (1, 4, 4, 8)), 4, None), (((1, 4, 4, 8), (1, 4, 4, 8)), -5, None), (((1, 4, 4, 8), (1, 4, 5, 8)), 3, None),
                               (((1, 4, 4, 8), (4, 4, 8)), 3, None), (((1, 4, 4, 8), (1, 4, 4, 8)), 3, (1, 4, 4, 15)), (((1, 4, 4, 8), (1, 4, 4, 8)), 1, None),
                               (((1, 4, 4, 8), (1, 4, 4, 8)), 0, None), (((1, 4, 4, 8), (1, 4, 4, 8), (1, 4, 4, 1)), 3, None), (((4, 8), (4, 8)), 1, None),
                               (((1, 4, 4, 8),), 3, None)):
        add("concat", f"shapes={shapes_},axis={axis},ofm={ofm}", F.concat, shapes=shapes_, axis=axis, ofm=ofm)
    add("concat", "no axis attr", F.concat, axis_attr=False)
    add("concat", "act=Relu", F.concat, act="Relu")
    add("concat", "int32", F.concat, dtype="int32")
    # ---- split / strided slice ---------------------------------------------------------------------------------
    for axis, num, sc in ((3, 2, True), (3, 3, True), (-1, 2, True), (4, 2, True), (-4, 1, True), (-5, 2, True), (1, 4, False), (0, 1, True), (3, 8, False)):
        add("split", f"axis={axis},num={num},scalar={sc}", F.split, axis=axis, num=num, axis_scalar=sc)
    add("split", "batch 2 (excepted)", F.split, ifm=(2, 4, 4, 8))
    add("split", "int32", F.split, dtype="int32")
    for begin, end, lab in (((0, 1, 1, 0), (1, 5, 5, 4), "ok"), ((0, 5, 1, 0), (1, 5, 5, 4), "empty h"), ((0, 6, 1, 0), (1, 5, 5, 4), "negative h"),
                            ((0, -3, 1, 0), (1, -1, 5, 4), "negative idx"), ((0, 1, 1, 0), (1, 0, 5, 4), "end 0"), ((0, 0, 0, 0), (1, 8, 8, 4), "full")):
        add("stridedslice", lab, F.strided_slice, begin=begin, end=end)
        for m in ({"begin_mask": 2}, {"end_mask": 2}, {"shrink_axis_mask": 2}, {"ellipsis_mask": 1}, {"new_axis_mask": 1}, {"new_axis_mask": 1, "shrink_axis_mask": 2},
                  {"begin_mask": 15, "end_mask": 15}):
            add("stridedslice", f"{lab} masks={m}", F.strided_slice, begin=begin, end=end, masks=m)
    for st in ((1, 1, 1, 1), (1, 2, 1, 1), (1, 1, 1, -1), (0, 1, 1, 1)):
        add("stridedslice", f"strides={st}", F.strided_slice, strides=st)
    for nc in ((1,), (2,), (3,), (1, 2, 3)):
        add("stridedslice", f"non-const {nc}", F.strided_slice, nconst=nc)
    for n_in in (3, 5):
        add("stridedslice", f"{n_in} inputs", F.strided_slice, n_inputs=n_in)
    for off in (False, True):
        add("stridedslice", f"offset={off}", F.strided_slice, offset=off)
    add("stridedslice", "batch 2 (excepted)", F.strided_slice, ifm=(2, 8, 8, 4), begin=(0, 1, 1, 0), end=(2, 5, 5, 4))
    # ---- quantize ------------------------------------------------------------------------------------------------
    for dt, od in (("int8", "int8"), ("int8", "uint8"), ("uint8", "int8"), ("int16", "int8"), ("int8", "int16"), ("int32", "int8"), ("float32", "int8"), ("int8", "int32")):
        add("quantize", f"{dt}->{od}", F.quantize, dtype=dt, odtype=od)
    add("quantize", "scalar", F.quantize, shape=())
    # ---- argmax / shifts / slice / split_v / transpose ------------------------------------------------------------
    for shape, axis in (((1, 4, 4, 8), 3), ((1, 4, 4, 8), -1), ((1, 4, 4, 8), 2), ((1, 4, 4, 127), 3), ((1, 4, 4, 128), 3), ((4, 8), 1), ((4, 8), 0), ((2, 4, 4, 8), 3)):
        for dt in ("int8", "uint8", "int16", "float32"):
            for od in ("int32", "int64", "int8"):
                add("argmax", f"shape={shape},axis={axis},{dt}->{od}", F.argmax, shape=shape, axis=axis, dtype=dt, odtype=od)
    add("argmax", "axis 1-element array", F.argmax, axis_scalar=False)
    for kind in ("SHL", "SHR", "CLZ"):
        for dt, dt2, od in (("int32", "int32", "int32"), ("int8", "int32", "int32"), ("int32", "int8", "int32"), ("int32", "int32", "int8"), ("int16", "int16", "int16")):
            if kind == "CLZ":
                add("shift", f"{kind} {dt}->{od}", F.unary, kind, dtype=dt, odtype=od, qi=None, qo=None)
            else:
                add("shift", f"{kind} {dt},{dt2}->{od}", F.binary, kind, dtype=dt, dtype2=dt2, odtype=od, qa=None, qb=None, qo=None)
                add("shift", f"{kind} {dt},{dt2}->{od} quantised", F.binary, kind, dtype=dt, dtype2=dt2, odtype=od)
        if kind != "CLZ":
            add("shift", f"{kind} broadcast bad", F.binary, kind, a=(1, 4, 4, 8), b=(1, 4, 4, 2), dtype="int32", qa=None, qb=None, qo=None)
    for nc in ((), (1,), (2,), (1, 2)):
        add("slice", f"non-const {nc}", F.slice_, nconst=nc)
    add("slice", "batch 2 (excepted)", F.slice_, ifm=(2, 8, 8, 4), size=(2, 4, 4, 4))
    for sizes in ((2, 6), (-1, 6), (-1, -1), (2, -1, -1), (8,)):
        add("splitv", f"sizes={sizes}", F.splitv, sizes=sizes)
    for shape, perm in (((4, 8), (1, 0)), ((4, 8, 2), (1, 0, 2)), ((1, 8, 2), (0, 2, 1)), ((4, 8, 2), (0, 2, 1)), ((4, 1, 2), (2, 1, 0)), ((4, 8, 2), (2, 1, 0)),
                        ((1, 4, 8, 2), (0, 2, 1, 3)), ((1, 1, 8, 2), (0, 1, 3, 2)), ((1, 4, 8, 2), (0, 1, 3, 2)), ((1, 4, 1, 2), (0, 3, 2, 1)), ((1, 4, 8, 2), (0, 3, 2, 1)),
                        ((1, 4, 8, 2), (0, 3, 1, 2)), ((2, 4, 8, 2), (1, 0, 2, 3)), ((1, 4, 8, 2), (0, 2, 1, 4)), ((1, 4, 8, 2), (0, 2, 1, -1)), ((8,), (0,)),
                        ((1, 4, 8, 2), (0, 2, 1)), ((4, 8, 2), (1, 0, 2, 3))):
        for dt in ("int8", "int32"):
            add("transpose", f"shape={shape},perm={perm},{dt}", F.transpose, shape=shape, perm=perm, dtype=dt)
    add("transpose", "perm not const", F.transpose, perm_const=False)
    add("transpose", "perm not const rank 2", F.transpose, shape=(4, 8), perm=(1, 0), perm_const=False)
    add("transpose", "perm 2-D", F.transpose, pshape=(2, 2))
    # ---- scalars, constants without data ---------------------------------------------------------------------------
    for kind in ("Relu", "Add", "Mul", "Mean", "Quantize", "MaxPool", "Sigmoid", "ConcatTFLite"):
        x = F.tens([], "int8", "default", np.asarray(3))
        y = F.tens([1, 4, 4, 8], "int8")
        o = F.tens([1, 4, 4, 8], "int8")
        add("scalar", f"{kind} const scalar first input", F.generic, kind, [x, y], [o], {"axis": 3} if kind == "ConcatTFLite" else {})
        x = F.tens([], "int8", "default", np.asarray(3))
        y = F.tens([1, 4, 4, 8], "int8")
        o = F.tens([1, 4, 4, 8], "int8")
        add("scalar", f"{kind} const scalar second input", F.generic, kind, [y, x], [o], {"axis": 3} if kind == "ConcatTFLite" else {})
        x = F.tens([1, 4, 4, 8], "int8")
        o = F.tens([], "int8", "default", np.asarray(3), const_op=False)
        add("scalar", f"{kind} scalar output with data", F.generic, kind, [x, x], [o], {"axis": 3} if kind == "ConcatTFLite" else {})
        x = F.tens([1, 4, 4, 8], "int8")
        c = F.tens([1, 4, 4, 8], "int8", "default", np.zeros([1, 4, 4, 8]))
        c.values = None
        o = F.tens([1, 4, 4, 8], "int8")
        add("scalar", f"{kind} constant without data", F.generic, kind, [x, c], [o], {"axis": 3} if kind == "ConcatTFLite" else {})
    # ---- operators Vela never accelerates / internal-only types -------------------------------------------------
    for kind in ("Cast", "Sin", "Cos", "FloorDiv", "Dequantize", "ReverseV2", "Tile", "Gather", "BatchMatMul", "Placeholder", "Const", "SubgraphInput"):
        add("unsupported", kind, F.unary, kind)

    # ---- random fill: joint perturbations ------------------------------------------------------------------------
    nrand = 12000 if thorough else 800
    for i in range(nrand):
        r = rng.random()
        ch = lambda xs: rng.choice(xs)  # noqa: E731
        if r < 0.3:
            kind = ch(["Conv2DBias", "DepthwiseConv2DBias", "Conv2DBackpropInput"])
            c = ch([1, 2, 4, 8])
            add("rand_conv", f"#{i}", F.conv, kind=kind, ifm=(ch([1, 1, 1, 2]), ch([1, 4, 8, 9]), ch([1, 6, 8, 9, 12, 21]), c),
                k=(ch([1, 2, 3, 5, 33, 64, 65]), ch([1, 2, 3, 64, 65])), oc=ch([1, 2, 4]) if kind != "DepthwiseConv2DBias" else c,
                stride=(ch([1, 1, 2, 3, 4]), ch([1, 1, 2, 3, 4, 6, 9])), dil=(ch([1, 1, 2, 3]), ch([1, 1, 2])), padding=ch(["SAME", "VALID"]),
                dtype=ch(["int8", "int8", "uint8", "int16", "int32"]), bdtype=ch(["int32", "int32", "int64", "int16"]), bias=ch(["1d", "1d", None, "2d"]),
                wconst=rng.random() < 0.9, per_axis=rng.random() < 0.3, act=ch([None, None, "Relu", "Tanh", "Softmax"]))
        elif r < 0.45:
            kind = ch(["MaxPool", "AvgPool"])
            add("rand_pool", f"#{i}", F.pool, kind, ifm=(ch([1, 1, 2]), ch([1, 8, 9]), ch([1, 8, 9, 12]), ch([1, 4])), k=(ch([1, 2, 3, 8, 9, 256, 257]), ch([1, 2, 3, 8, 9, 256])),
                stride=(ch([1, 2, 3, 4]), ch([1, 2, 3, 4, 6, 9])), padding=ch(["SAME", "VALID"]), dtype=ch(["int8", "uint8", "int16", "int32"]),
                odtype=ch([None, None, None, "int8"]), act=ch([None, None, "Relu6"]))
        elif r < 0.65:
            kind = ch(["Add", "Sub", "Mul", "Minimum", "Maximum"])
            dims = [ch([1, 2, 4]) for _ in range(ch([1, 2, 3, 4]))]
            a = tuple(dims)
            b = tuple(d if rng.random() < 0.6 else 1 for d in dims)[rng.randrange(0, len(dims)):]
            if rng.random() < 0.5:
                a, b = b, a
            dt = ch(["int8", "uint8", "int16", "int32"])
            add("rand_binary", f"#{i}", F.binary, kind, a=a, b=b, dtype=dt, dtype2=ch([dt, dt, dt, "int8"]), odtype=ch([dt, dt, dt, "int32", "int8"]),
                qa=F.qp(ch([0.5, 0.25]), ch([0, 1])), qb=F.qp(ch([0.5, 0.25]), ch([0, 1])), qo=F.qp(ch([0.5, 0.25]), ch([0, 1])), act=ch([None, None, "Relu"]))
        elif r < 0.75:
            add("rand_mean", f"#{i}", F.mean, shape=tuple(ch([1, 1, 2, 8, 4097]) for _ in range(ch([2, 3, 4, 4]))),
                axes=tuple(rng.sample([0, 1, 2, 3, -1], ch([1, 2]))), dtype=ch(["int8", "uint8", "int16"]), keep=rng.random() < 0.5)
        elif r < 0.85:
            ih, iw = ch([1, 2, 3, 4]), ch([1, 2, 3, 4])
            f = ch([1, 2, 3, 4, 8, 16])
            al = rng.random() < 0.4
            oh, ow = ((ih - 1) * f + 1, (iw - 1) * f + 1) if al else (ih * f, iw * ch([f, f, f, 2]))
            add("rand_resize", f"#{i}", F.resize, ch(["ResizeBilinear", "ResizeNearestNeighbor"]), ifm=(1, ih, iw, 4), ofm=(1, oh, ow, 4), align=al,
                half=rng.random() < 0.3)
        else:
            kind = ch(["Relu", "Sigmoid", "Tanh", "LeakyRelu", "HardSwish", "Softmax", "Quantize", "Abs"])
            dt = ch(["int8", "uint8", "int16", "int32"])
            add("rand_unary", f"#{i}", F.unary, kind, shape=tuple(ch([1, 2, 4, 8]) for _ in range(ch([1, 2, 3, 4, 4, 5]))), dtype=dt, odtype=ch([dt, dt, "int8"]),
                qi=ch([F.qp(0.5, 0), F.qp(0.5, 0), None]), qo=ch([F.qp(0.5, 0), F.qp(0.5, 0), None, F.qp(1e-40, 0)]))
    return out


# ------------------------------------------------------------------------------------------------
# Lean literals of descriptors (used once, by tools/c16_examples.py, to write the non-vacuity examples)


def lean_literal(op):
    def name(s):
        return 'n!"%s"' % s

    def tens(t, is_w):
        if t is None:
            return "none"
        enc = _tens(t, is_w).split("/")
        sh, dt, q, v, p = enc
        shape = "[]" if sh == "s" else "[" + ", ".join("none" if d == "N" else f"some {d if not d.startswith('-') else '(' + d + ')'}" for d in sh.split("x")) + "]"
        dn, bits, flags, eb = dt.split(",")
        if q == "n":
            qs = "none"
        else:
            sc, zp, mm = q.split(";")
            f = lambda x: "none" if x == "N" else "some [" + ", ".join(y if not y.startswith("-") else f"({y})" for y in x.split(",") if y) + "]"  # noqa: E731
            qs = f"some ⟨{f(sc)}, {f(zp)}, {'true' if mm == '1' else 'false'}⟩"
        if v == "n":
            vs = ".none"
        elif v == "b":
            vs = ".big"
        else:
            vs = ".ints [" + ", ".join(y if not y.startswith("-") else f"({y})" for y in v[1:].split(",") if y) + "]"
        pr = {"0": ".noOps", "c": ".constOp", "o": ".other"}[p]
        return (f"some {{ shape := {shape}, dtype := {name(dn)}, bits := {bits}, tflags := {flags}, elemBytes := {eb}, "
                f"quant := {qs}, vals := {vs}, prod := {pr} }}")

    def attr(v):
        e = _attr(v)
        if e is None:
            return None
        if e == "n":
            return ".none"
        k, rest = e[0], e[1:]
        if k == "i":
            return f".int {rest if not rest.startswith('-') else '(' + rest + ')'}"
        if k == "b":
            return f".bool {'true' if rest == '1' else 'false'}"
        if k == "l":
            return ".ints [" + ", ".join(y if not y.startswith("-") else f"({y})" for y in rest.split(",") if y) + "]"
        if k == "s":
            return f".str {name(rest)}"
        if k == "f":
            return f".flt {rest}"

    idx = op.type.info.indices
    widx = idx.weights[0] if idx.weights else -1
    attrs = []
    for k, v in op.attrs.items():
        a = attr(v)
        if a is not None:
            attrs.append(f"({name(k)}, {a})")
    act = "none" if op.activation is None else f"some {name(op.activation.op_type.name)}"
    ins = ",\n      ".join(tens(t, i == widx) for i, t in enumerate(op.inputs))
    outs = ",\n      ".join(tens(t, False) for t in op.outputs)
    return (f"{{ type := {name(op.type.name)}, act := {act},\n    attrs := [{', '.join(attrs)}],\n    inputs := [\n      {ins}],\n"
            f"    outputs := [\n      {outs}] }}")


# ------------------------------------------------------------------------------------------------
# "stays on the CPU unchanged": canonical form of an operator of a TFLite file (plain walker, both sides)

# BuiltinOptions members (schema.fbs numbering) whose slot 0 is a vector of int32 instead of an inline scalar
_VECTOR_OPTIONS = {17: "ReshapeOptions.new_shape", 30: "SqueezeOptions.squeeze_dims"}


def op_records(data):
    """[{code, outs: [names], canon: str}] for every operator of every subgraph.  `canon` holds everything that
    must survive when the operator is left on the CPU: builtin/custom code, option table type and content (scalar
    fields byte for byte, known vector fields resolved), custom options, input and output tensor names in order."""
    import struct

    import fbwalk

    buf = memoryview(bytes(data))
    root = fbwalk.Table(buf, struct.unpack_from("<I", buf, 0)[0])
    codes = []
    for oc in root.tables(1):
        codes.append((max(oc.scalar(0, "b"), oc.scalar(3, "i")), oc.string(1) or ""))
    out = []
    for sg in root.tables(2):
        names = [t.string(3) or "" for t in sg.tables(0)]
        sigs = {}
        nbuf = [len(bf.bytes_vec(0) or b"") for bf in root.tables(4)]
        descs = {}
        for t in sg.tables(0):
            q = t.table(4)
            quant = (tuple(q.vector(2, "f") or []), tuple(q.vector(3, "q") or []), q.scalar(6, "i")) if q is not None else None
            # description token for Spec.TensorDesc (only transcription: Lean normalises and compares):
            # shape;type;scale bit patterns;zero points;quantised dimension;c|d
            bi = t.scalar(2, "I")
            is_const = 0 <= bi < len(nbuf) and nbuf[bi] > 0
            sc, zp, qd = quant if quant is not None else ((), (), 0)
            descs.setdefault(t.string(3) or "", ";".join([
                "/".join(str(int(d)) for d in (t.vector(0, "i") or [])), str(t.scalar(1, "b")),
                "/".join(str(struct.unpack("<I", struct.pack("<f", x))[0]) for x in sc), "/".join(str(int(z)) for z in zp), str(int(qd)),
                "c" if is_const else "d"]))
            if quant is not None and not quant[0] and not quant[1]:
                quant = None
            # (shape, data type, quantisation): what a consumer is told about the tensor
            sigs.setdefault(t.string(3) or "", (tuple(t.vector(0, "i") or []), t.scalar(1, "b"), quant))
        for o in sg.tables(3):
            code, custom = codes[o.scalar(0, "I")]
            ins = [names[i] if i >= 0 else "~" for i in (o.vector(1, "i") or [])]
            outs = [names[i] if i >= 0 else "~" for i in (o.vector(2, "i") or [])]
            in_sigs = [sigs.get(n) for n in ins]
            otype = o.scalar(3, "B")
            fields = []
            t = o.table(4)
            if t is not None:
                # layout independent: a scalar field is the bytes from its offset to the next field (at most 8) with the
                # zero padding stripped, i.e. its little-endian value whatever order/alignment the writer chose
                nslots = (t.vt_len - 4) // 2
                offs = sorted((t._off(sl), sl) for sl in range(nslots) if t._off(sl))
                size = struct.unpack_from("<H", t.buf, t.vt + 2)[0]
                for k, (off, slot) in enumerate(offs):
                    if otype in _VECTOR_OPTIONS and slot == 0:
                        fields.append((slot, "v" + ".".join(str(v) for v in (t.vector(0, "i") or []))))
                        continue
                    end = offs[k + 1][0] if k + 1 < len(offs) else size
                    b = bytes(t.buf[t.pos + off:t.pos + min(end, off + 8)]).rstrip(b"\x00")
                    fields.append((slot, b.hex() or "00"))
                # a field holding its default value may be written or omitted: drop explicit zeros
                fields = [f"{sl}:{v}" for sl, v in sorted(fields) if v != "00"]
            co = o.bytes_vec(5)
            esc = lambda s: s.replace(" ", "_").replace("|", "_")  # noqa: E731
            canon = "|".join([str(code), esc(custom), str(otype), ",".join(fields) or "-", co.hex() if co else "-",
                              ",".join(esc(n) for n in ins) or "-", ",".join(esc(n) for n in outs) or "-",
                              ",".join(descs.get(n, "~") if n != "~" else "~" for n in ins) or "-",
                              ",".join(descs.get(n, "~") if n != "~" else "~" for n in outs) or "-"])
            out.append({"code": code, "custom": custom, "ins": ins, "outs": outs, "canon": canon, "in_sigs": in_sigs,
                        "out_sigs": [sigs.get(n) for n in outs]})
    return out


CANON_FIELDS = ("code", "custom code", "options type", "options", "custom options", "inputs", "outputs", "operand descriptions",
                "result descriptions")


def canon_diff(canon_s, canon_o):
    """names of the record fields that differ (for the message and the finding key; the verdict is Lean's).  A difference
    confined to the zero points of ONE operand that were all written as 0 is named precisely — the signature of a
    --force-symmetric-int-weights rewrite that reached an operator left on the CPU."""
    ps, po = canon_s.split("|"), canon_o.split("|")
    what = [n for n, x, y in zip(CANON_FIELDS, ps, po) if x != y]
    if what == ["operand descriptions"] and len(ps) == 9:
        a, b = ps[7].split(","), po[7].split(",")
        diff = [k for k, (x, y) in enumerate(zip(a, b)) if x != y] if len(a) == len(b) else []
        if len(diff) == 1:
            fa, fb = a[diff[0]].split(";"), b[diff[0]].split(";")
            if len(fa) == 6 and len(fb) == 6 and fa[:3] == fb[:3] and fa[4:] == fb[4:]:
                zs, zo = fa[3].split("/"), fb[3].split("/")
                if len(zs) == len(zo) and all(z == "0" for z in zo):
                    what = [f"operand{diff[0]}-zero-points-zeroed-{'const' if fa[5] == 'c' else 'dynamic'}-{'per-axis' if len(zs) > 1 else 'per-tensor'}"]
    return what


def alias_tokens(src_records, so, oo):
    """For every input position where the output operator `oo` reads another tensor name than the source operator
    `so`: describe, from the SOURCE graph only, how the expected tensor is produced from the one actually read — the
    chain of operators (following each producer's first input), whether each link keeps shape / type+quantisation,
    and whether the two end tensors carry the same (shape, type, quantisation) in source and output file.
    Only extraction: Spec.Alias.ok (Lean) decides whether such a substitution leaves the operator unchanged."""
    esc = lambda s: s.replace(" ", "_").replace("|", "_")  # noqa: E731
    prod = {}
    for r in src_records:
        for n in r["outs"]:
            prod.setdefault(n, r)
    toks = []
    if len(so["ins"]) != len(oo["ins"]):
        return toks
    for k, (x, y) in enumerate(zip(so["ins"], oo["ins"])):
        if x == y:
            continue
        links, cur, found = [], x, False
        for _ in range(16):
            p = prod.get(cur)
            if p is None or not p["ins"]:
                break
            a, b = p["in_sigs"][0], p["out_sigs"][p["outs"].index(cur)]
            same_shape = int(a is not None and b is not None and a[0] == b[0])
            same_tq = int(a is not None and b is not None and a[1:] == b[1:])
            links.append(f"{p['code']}.{same_shape}.{same_tq}")
            cur = p["ins"][0]
            if cur == y:
                found = True
                break
        same_sig = int(found and so["in_sigs"][k] is not None and so["in_sigs"][k] == oo["in_sigs"][k])
        toks.append(f"{esc(x)};{esc(y)};{same_sig};{','.join(links) if found and links else '-'}")
    return toks
