#!/venv/bin/python
"""C17 — driver payload framing: proofs (Props/C17.lean) + correspondence of Model/Payload.lean with
driver_actions.create_driver_payload / api.npu_create_driver_payload + Lean Spec parse of the real bytes."""
import common
from common import Check, main_wrapper


def hw_limit_probe(over):
    common.setup_repo_path()
    from ethosu.vela import api
    from ethosu.vela.errors import VelaError

    def make_ops(n):
        return [api.NpuDmaOperation(api.NpuAddressRange(i % 2, (i * 32) % (1 << 20), 16 + 16 * (i % 7)),
                                    api.NpuAddressRange(2 + (i % 3) % 2, (1 << 20) + (i * 48) % (1 << 20), 16 + 16 * (i % 7)))
                for i in range(n)]
    acc = api.NpuAccelerator.Ethos_U55_128
    per_op = len(api.npu_generate_register_command_stream(make_ops(2000), acc)) / 2000
    target = (1 << 22) + 4096 if over else (1 << 22) - 8192
    n = int(target / per_op) + (1 if over else 0)
    try:
        words = api.npu_generate_register_command_stream(make_ops(n), acc)
    except VelaError as e:
        return ("rejected", n, 0, str(e)[:120])
    out = ["generated", n, len(words), ""]
    try:
        b = api.npu_create_driver_payload(words, acc)
        out[3] = "framed %d bytes" % len(b)
    except VelaError as e:
        out[0], out[3] = "rejected-framing", str(e)[:120]
    return tuple(out)


def main():
    ck = Check("C17", "proof")
    lean = ck.lean_stage(["VelaVerif.Props.C17", "VelaVerif.Props.C17Src", "VelaVerif.Props.C12Raw"])
    common.setup_repo_path()
    from ethosu.vela import api, driver_actions
    from ethosu.vela.architecture_features import Accelerator, create_default_arch
    from ethosu.vela.errors import VelaError
    import struct

    rng = ck.rng
    accs = list(Accelerator)            # same order as Gen.accelerators (both iterate the enum)

    # hardware limit (16 MiB = 2^22 command words, the width of the queue-size register): a stream at or beyond it
    # must be rejected where it is generated. Needs a real stream of that size (~20 s), so it runs in a forked
    # child next to the rest of the check. Thorough: also a stream just below the limit, which must be accepted.
    from concurrent.futures import ProcessPoolExecutor
    import multiprocessing

    pool = ProcessPoolExecutor(2, mp_context=multiprocessing.get_context("fork"))
    hw_futs = [(True, pool.submit(hw_limit_probe, True))] + ([(False, pool.submit(hw_limit_probe, False))] if ck.thorough else [])
    npu_accs = {a: [n for n in api.NpuAccelerator if Accelerator.from_npu_accelerator(n) == a][0] for a in accs}

    def rand_word():
        r = rng.random()
        if r < 0.1:
            return rng.choice([0, 1, 0xFFFFFFFF, 0x80000000, 0x7FFFFFFF, 0xFFFF, 0x10000])
        return rng.getrandbits(32)

    cases = []  # (acc index, words)
    max_len = 300 if not ck.thorough else 1200
    for n in range(0, max_len + 1):
        for ai in (range(len(accs)) if n <= 40 or ck.thorough else [rng.randrange(len(accs))]):
            cases.append((ai, [rand_word() for _ in range(n)]))
    # history: after a base case, the same framing call with ONE thing changed - the accelerator (same words), one word, or the
    # length by one word - right after it in this process (a payload memoised by word list, or by length, would be stale there)
    base_cases, cases = cases, []
    for ai, ws in base_cases:
        cases.append((ai, ws))
        if rng.random() < 0.3:
            f = rng.choice(["accelerator", "word", "length"] if ws else ["accelerator", "length"])
            if f == "accelerator":
                cases.append((rng.choice([a for a in range(len(accs)) if a != ai]), list(ws)))
            elif f == "word":
                w2 = list(ws)
                j = rng.randrange(len(w2))
                w2[j] ^= 1 << rng.randrange(32)
                cases.append((ai, w2))
            else:
                cases.append((ai, list(ws) + [rand_word()]) if not ws or rng.random() < 0.5 else (ai, list(ws[:-1])))
            ck.count("sibling_" + f)
    for n in [65535, 65536, 65537] + ([1 << 20, (1 << 22) + 3] if ck.thorough else []):
        cases.append((rng.randrange(len(accs)), [rand_word() for _ in range(n)]))
    # malformed stream: words that do not fit 32 bits
    for _ in range(20):
        n = rng.randrange(1, 12)
        ws = [rand_word() for _ in range(n)]
        ws[rng.randrange(n)] = (1 << 32) + rng.getrandbits(8)
        cases.append((rng.randrange(len(accs)), ws))

    def real(ai, ws):
        try:
            if rng.random() < 0.5:
                b = api.npu_create_driver_payload(ws, npu_accs[accs[ai]])
            else:
                b = driver_actions.create_driver_payload(ws, create_default_arch(accs[ai]))
            return "ok " + b.hex(), b
        except VelaError:
            return "err:vela", None
        except struct.error:
            return "err:pack", None

    reqs, reals, blobs = [], [], []
    for ai, ws in cases:
        out, b = real(ai, ws)
        reals.append(out)
        blobs.append(b)
        reqs.append("payload %d %s" % (ai, " ".join(map(str, ws))))
    # header-only boundary cases, incl. the driver limit, through emit_cmd_stream_header
    hdr_cases = []
    lens = [0, 1, 65535, 65536, 65537, (1 << 24) - 1, 1 << 22, 0xABCDEF, 0xFF0000, 0xFFFF, 0x10000]
    for have in range(0, 12):
        for ln in lens + [rng.randrange(1 << 24) for _ in range(20 if not ck.thorough else 400)]:
            hdr_cases.append((have, ln))
    for have, ln in hdr_cases:
        data = [7] * have
        driver_actions.emit_cmd_stream_header(data, ln)
        reals.append("ok " + " ".join(map(str, data[have:])))
        blobs.append(None)
        reqs.append(f"payloadhdr {have} {ln}")
    # the size limit through the real entry point: a 2^24-element list is big but feasible once
    class FakeList(list):
        """a list whose len() is 2^24 without holding 2^24 ints"""
        def __len__(self):
            return 1 << 24
    try:
        driver_actions.create_driver_payload(FakeList(), create_default_arch(accs[0]))
        limit_out = "ok"
    except VelaError:
        limit_out = "err:vela"
    ck.count("limit_probe_" + limit_out)

    outs = ck.model(reqs)
    disagreements = []
    for i, (rq, m, r) in enumerate(zip(reqs, outs, reals)):
        kind = rq.split(" ", 1)[0]
        ck.count("req_" + kind)
        ck.count("outcome_" + r.split(" ")[0])
        if m != r:
            disagreements.append(i)
    # Spec check (Lean parser + acceptance predicate) on the *implementation's* bytes
    spec_reqs, spec_idx = [], []
    for i, (ai, ws) in enumerate(cases):
        if blobs[i] is not None and len(ws) <= 70000:
            spec_reqs.append("payloadcheck %d %d %s %s" % (ai, len(ws), " ".join(map(str, ws)), " ".join(map(str, blobs[i]))))
            spec_idx.append(i)
    nfull = len(spec_reqs)
    for j, (have, ln) in enumerate(hdr_cases):
        i = len(cases) + j
        spec_reqs.append(f"payloadhdrcheck {have} {ln} " + reals[i][3:])
        spec_idx.append(i)
    spec_out = ck.model(spec_reqs)
    spec_fail = [(i, o) for i, o in zip(spec_idx[:nfull], spec_out[:nfull]) if not o.endswith("ok=1")]
    hdr_fail = [(i, o) for i, o in zip(spec_idx[nfull:], spec_out[nfull:]) if o != "1"]
    for i, o in hdr_fail[:3]:
        have, ln = hdr_cases[i - len(cases)]
        ck.violation(f"Lean Spec rejects the real command-stream header for {have} preceding words, stream length {ln}: "
                     f"emitted words {reals[i][3:]}", {"have": have, "length": ln, "emitted": reals[i][3:],
                     "replay": f"driver_actions.emit_cmd_stream_header([7]*{have}, {ln})"})
    spec_fail = spec_fail + hdr_fail
    for i, o in spec_fail[:5]:
        if i >= len(cases):
            continue
        ai, ws = cases[i]
        ck.violation(f"Lean Spec rejects the real payload ({o}) for accelerator {accs[ai].value}, {len(ws)} words",
                     {"accelerator": accs[ai].value, "words": ws[:64], "n_words": len(ws),
                      "payload_hex": blobs[i][:256].hex(), "spec_verdict": o})
    for over, fut in hw_futs:
        kind, nops, nwords, note = fut.result()
        ck.count(f"hw_limit_probe_{'over' if over else 'under'}_{kind}")
        if over and nwords and nwords < (1 << 22):
            raise common.InfraError(f"hardware-limit probe built only {nwords} words")
        if over and kind not in ("rejected", "rejected-framing"):
            ck.violation(f"a command stream of {nwords} words ({nwords * 4} bytes, hardware limit 2^24 bytes) built from {nops} DMA "
                         f"operations through npu_generate_register_command_stream was neither rejected there nor when framed ({note})",
                         {"ops": nops, "words": nwords, "how": "harness/check_C17.py hw_limit_probe(True)"})
        if not over and kind != "generated":
            ck.violation(f"a command stream just below the hardware limit ({nops} DMA operations) was rejected: {note}",
                         {"ops": nops, "how": "harness/check_C17.py hw_limit_probe(False)"})
    pool.shutdown()
    if limit_out != "err:vela":
        ck.violation("a 2^24-word stream is not rejected by create_driver_payload", {"len": 1 << 24, "result": limit_out})
    if disagreements and not spec_fail:
        i = min(disagreements, key=lambda j: len(reqs[j]))
        ck.violation("correspondence Model/Payload.lean vs driver_actions broken on %d inputs" % len(disagreements),
                     {"correspondence": "payload/payloadhdr", "request": reqs[i][:2000], "model": outs[i][:400],
                      "implementation": reals[i][:400]}, found_input=False)
    # every command-stream tensor of compiled generated networks: the payload bytes stored in the output file
    # (plain flatbuffer walk) are parsed by the Lean Spec parser against the words the generator emitted
    import fbwalk
    import pipe_common
    import pipeline
    import raw_stream
    # the same compilations written in the second output format as well (harness/raw_stream.py, design.d/RawOutput.md): cmd_data of
    # the .npz must be the bytes of the command-stream tensor and must be accepted by the same Lean Spec
    raw_stream.install()
    pouts = pipe_common.run_corpus(ck, 160 if not ck.thorough else 600, profiles=["mixed", "cpu", "weights", "elementwise", "pattern"],
                                   want={"out_model": True, "words": True, "extra": raw_stream.extra_c17}, corpus_first=False)
    preqs, pown = [], []
    acc_names = [a.value for a in accs]
    for o in pouts:
        if "harness_exception" in o:
            raise common.InfraError(o["harness_exception"])
        if o.get("status") != "ok" or not o.get("out_model") or not o.get("cmd_words"):
            continue
        model = fbwalk.parse(o["out_model"])
        eops = pipeline.ethosu_ops(model)
        for k, (si, op, mems, _rest) in enumerate(eops):
            if k >= len(o["cmd_words"]):
                break
            blob = model["buffers"][mems[0]["buffer"]]
            ws = o["cmd_words"][k]
            if len(ws) > 60000:
                continue
            preqs.append("payloadcheck %d %d %s %s" % (acc_names.index(o["acc"]), len(ws), " ".join(map(str, ws)), " ".join(map(str, blob))))
            pown.append((o, k, len(ws)))
    pans = ck.model(preqs) if preqs else []
    for (o, k, nw), a in zip(pown, pans):
        ck.count("pipeline_payloads")
        if not a.endswith("ok=1"):
            ck.violation(f"Lean Spec rejects the command-stream tensor of a compiled network ({a}): network {o['idx']} {o['profile']} {o['opts']}",
                         {"profile": o["profile"], "seed": o["seed"], "index": o["idx"], "opts": o["opts"], "stream": k, "spec_verdict": a})
    raw_stats = raw_stream.stage(ck, pouts, raw_stream.FIELDS_C17)
    nontrivial = len({(ai, len(ws)) for ai, ws in cases if len(ws) > 0}) + len({c for c in hdr_cases if c[1] > 0})
    ck.sample({"request": reqs[5][:200], "model": outs[5][:120], "implementation": reals[5][:120]})
    ck.sample({"request": reqs[-1], "model": outs[-1], "implementation": reals[-1]})
    ck.finish({
        "evaluations": len(reqs) + len(spec_reqs) + len(preqs),
        "pipeline_payloads_parsed": len(preqs),
        **raw_stats,
        "distinct_nontrivial": nontrivial,
        "rule": "case = (accelerator, word list) through create_driver_payload or (words already present, length) through "
                "emit_cmd_stream_header; non-trivial when the stream length > 0; distinct by (accelerator, length) / (have, length)",
        "disagreements": len(disagreements),
        "spec_checked_real_payloads": len(spec_reqs),
        "spec_rejections": len(spec_fail),
        "exhaustive": False,
    }, assumptions=["struct.pack('<I') is little-endian 32-bit packing", "ctypes bit-field layout = LSB-first packing of _fields_"])


main_wrapper(main)
