#!/venv/bin/python
"""C05 — tensor allocators never overlap live buffers and report their true footprint.

Proofs: lean/VelaVerif/Props/C05.lean (model: Model/Alloc.lean, spec: Spec/Alloc.lean).
Tie to /repo on every run:
  * correspondence: every address, the total, the number of search iterations and the number of
    random draws of the real Greedy / LinearAlloc / HillClimb allocators are compared with the Lean
    model (the `random.randint` draws of hillclimb_allocation are recorded by a wrapper and fed to
    the model as its oracle list; part of the runs replace Python's generator by the harness's own
    so that other swap sequences than `seed(1)` are exercised);
  * failing-input search: the Lean Spec checker (`Spec.Alloc.*`, proved equivalent to the Prop) is
    applied to the addresses and totals the *implementation* returned;
  * `verify_allocation` is compared with its model on the real addresses and on corrupted ones.
Scopes: exhaustive small live-range sets + random large ones (see `rule` in the evidence).
"""
import itertools
import multiprocessing
import os
import signal
import sys

import common
from common import Check, main_wrapper

KEY_PADDING = "total==max(addr+round_up(size,align))"
# live-range sets on which HillClimb used to die with ValueError (random.randint(0, -1)) under its own seed(1)
# generator before the repair recorded as `fixed:` in known_findings.txt; replayed on every run as regression cases
HC_CRASH_CORPUS = [
    [(3, 4, 32, 128), (0, 2, 48, 64), (2, 3, 32, 32), (0, 1, 32, 64), (0, 2, 48, 32)],
    [(1, 2, 32, 32), (2, 3, 48, 16), (1, 2, 16, 32), (0, 1, 16, 32), (0, 0, 80, 32)],
]

TIMES = [(s, e) for s in range(5) for e in range(s, 5)]          # 15 intervals over 5 time steps
SIZES = [16, 32, 48, 80]
ALIGNS = [16, 32, 64, 128]
FULL = [(s, e, z, a) for (s, e) in TIMES for z in SIZES for a in ALIGNS]            # 240
REDUCED = [(s, e, z, a) for (s, e) in TIMES for z in (16, 48) for a in (16, 64)]    # 60

# ------------------------------------------------------------------------------------------------
# real side (runs in worker processes; the repo modules are imported before the pool forks)
# ------------------------------------------------------------------------------------------------
R = {}


class StubTens:
    """minimal tensor: the allocators only touch these attributes"""
    __slots__ = ("name", "address", "size", "mem_area", "equivalence_id", "weight_compression_config",
                 "scale_compression_config", "purpose", "ops", "consumer_list", "mem_type")

    def __init__(self, name, size, eqv, cpu=False):
        self.name = name
        self.address = None
        self.size = size
        self.mem_area = R["MemArea"].Sram
        self.mem_type = R["MemType"].Scratch
        self.equivalence_id = eqv
        self.weight_compression_config = None
        self.scale_compression_config = None
        self.purpose = R["TensorPurpose"].FeatureMap
        self.ops = [None] if cpu else []       # a falsy producer makes verify_alignment treat it as a CPU tensor
        self.consumer_list = []

    def storage_size(self):
        return self.size

    def equivalent(self, other):
        return self.equivalence_id == other.equivalence_id


class RecRandom:
    """stands in for the `random` module inside hillclimb_allocation: records every randint"""

    def __init__(self):
        import random as _r
        self._r = _r
        self.draws = []
        self.own = None

    def seed(self, s):
        self._r.seed(s)

    def randint(self, a, b):
        v = self._r.randint(a, b) if self.own is None else self.own.randint(a, b)   # ValueError on an empty range either way
        self.draws.append(v)
        return v


class Hang(Exception):
    pass


HANGS = [0]     # searches cut by the alarm in this worker process


def _alarm(_sig, _frm):
    raise Hang()


def setup_real():
    common.setup_repo_path()
    from ethosu.vela import greedy_allocation, hillclimb_allocation, live_range, tensor_allocation
    from ethosu.vela.errors import AllocationError
    from ethosu.vela.nn_graph import TensorAllocator
    from ethosu.vela.tensor import MemArea, MemType, Tensor, TensorPurpose
    R.update(greedy=greedy_allocation, hc=hillclimb_allocation, lr=live_range, ta=tensor_allocation,
             AllocationError=AllocationError, TensorAllocator=TensorAllocator, MemArea=MemArea, MemType=MemType,
             Tensor=Tensor, TensorPurpose=TensorPurpose)
    rec = RecRandom()
    hillclimb_allocation.random = rec
    hillclimb_allocation.print = lambda *a, **k: None      # the "memory limit below minimum" warning
    R["rec"] = rec
    # count search iterations = calls of attempt_bottleneck_fix
    H = hillclimb_allocation.HillClimbAllocator
    orig_fix = H.attempt_bottleneck_fix

    def counted_fix(self, indices, stuck):
        R["iters"] += 1
        return orig_fix(self, indices, stuck)

    H.attempt_bottleneck_fix = counted_fix
    R["iters"] = 0
    signal.signal(signal.SIGALRM, _alarm)


def build_graph(ranges, cpu=False, real_tensor=False):
    """ranges: (start, end, size, align[, name rank]) -> LiveRangeGraph with one tensor per range"""
    LiveRange, LiveRangeGraph = R["lr"].LiveRange, R["lr"].LiveRangeGraph
    g = LiveRangeGraph()
    tens = []
    for i, r in enumerate(ranges):
        s, e, z, a = r[:4]
        nm = "n%06d" % (r[4] if len(r) > 4 else i)
        if real_tensor:
            from ethosu.vela.data_type import DataType
            t = R["Tensor"]([1, 1, 1, max(z, 1)], DataType.int8, nm)
            t.mem_area = R["MemArea"].Sram
            t.mem_type = R["MemType"].Scratch
        else:
            t = StubTens(nm, z, ("e", i), cpu)
        lr = LiveRange(t, a)
        lr.size = z
        lr.start_time = s
        lr.end_time = e
        g.lrs.append(lr)
        g.ranges[t] = lr
        tens.append(t)
    return g, tens


def exc_name(e):
    if isinstance(e, ZeroDivisionError):
        return "err:zerodiv"
    if isinstance(e, R["AllocationError"]):
        return "err:alloc"
    if isinstance(e, ValueError):
        return "err:value"
    if isinstance(e, IndexError):
        return "err:index"
    if isinstance(e, AssertionError):
        return "err:assert"
    if isinstance(e, Hang):
        return "err:chain"
    raise e


def spec_line(total, placed):
    return "allocspec %d %d %s" % (total, len(placed), " ".join("%d %d %d %d %d %d" % p for p in placed))


def verify_lines(g, tens, alignment):
    """real verify_allocation on the graph as it stands + the model request on the same addresses"""
    req = "allocverify %d %d %s" % (alignment, len(g.lrs), " ".join(
        "%d %d %d %d %s" % (lr.start_time, lr.end_time, lr.size, len(lr.tensors), " ".join(
            "%d %d %d" % (t.address, t.equivalence_id[1] if isinstance(t.equivalence_id, tuple) else 0,
                          1 if t.ops else 0) for t in lr.tensors)) for lr in g.lrs))
    try:
        R["ta"].verify_allocation(g, alignment)
        real = "ok"
    except Exception as e:  # noqa
        real = exc_name(e)
    return req, real


def run_greedy(case):
    _k, ranges, opts = case
    out = []
    n = len(ranges)
    req = "alloc greedy %d %s" % (n, " ".join("%d %d %d %d %d" % r for r in ranges))
    via_allocate = opts.get("via_allocate", False)
    g, tens = build_graph(ranges, cpu=opts.get("cpu", False), real_tensor=opts.get("real_tensor", False))
    if opts.get("real_tensor"):
        R["Tensor"].__mro__  # noqa
        from ethosu.vela.tensor import TensorAddressMap
        TensorAddressMap.clear_address_map()
    total = None
    try:
        if via_allocate:
            R["lr"].extract_live_ranges_from_cascaded_passes = lambda *a, **k: g
            _g, total = R["ta"].allocate(None, None, R["MemArea"].Sram, {R["MemType"].Scratch},
                                         tensor_allocator=R["TensorAllocator"].Greedy, cpu_tensor_alignment=opts.get("cta", 16))
        else:
            total = R["greedy"].allocate_live_ranges(g, opts.get("cta", 16))
        real = "ok %d %s" % (total, " ".join(str(t.address) for t in tens))
    except Exception as e:  # noqa
        real = exc_name(e)
    out.append(("corr", req, real))
    if total is not None and opts.get("spec", True):
        placed = [(r[0], r[1], r[2], r[3], t.address, 0) for r, t in zip(ranges, tens)]
        out.append(("spec", spec_line(total, placed), None))
        out.append(("verify",) + verify_lines(g, tens, opts.get("cta", 16)))
    return out


def run_hc(case):
    _k, ranges, opts = case
    out = []
    n = len(ranges)
    max_iter = opts.get("max_iter")
    mem_limit = opts.get("mem_limit", 1 << 40)
    rec = R["rec"]
    rec.draws = []
    rec.own = None
    if opts.get("own_seed") is not None:
        import random as _r
        rec.own = _r.Random(opts["own_seed"])
    R["iters"] = 0
    g, tens = build_graph(ranges, cpu=opts.get("cpu", False))
    total = None
    addrs = None
    site = None
    # a live-range set of at most 40 ranges needs milliseconds with <= 700 iterations; a search that spins (seen with seeded changes of
    # the termination test) is cut after 15 s instead of 60 s so that a broken tree still gets its verdict within the time limit
    # ... and once three searches of this worker process have been cut, every later one gets 1 s: a tree whose search spins on most inputs
    # (seeded change C05-r6m2) must not turn the check into an hour of waiting; never triggered on a tree whose searches terminate
    signal.alarm(1 if HANGS[0] >= 3 else opts.get("timeout", 60 if len(ranges) > 40 else 15))
    try:
        if opts.get("via_allocate"):
            class Arch:
                def mem_type_size(self, _mt):
                    return mem_limit
            R["lr"].extract_live_ranges_from_cascaded_passes = lambda *a, **k: g
            _g, total = R["ta"].allocate(None, Arch(), R["MemArea"].Sram, {R["MemType"].Scratch},
                                         tensor_allocator=R["TensorAllocator"].HillClimb,
                                         cpu_tensor_alignment=opts.get("cta", 16), hillclimb_max_iterations=max_iter)
            addrs = [t.address for t in tens]
        elif opts.get("raw"):
            addrs = R["hc"].allocate_live_ranges(g.lrs, max_iter, mem_limit)
            if any(a < 0 for a in addrs):
                raise LookupError()
            total = max([a + lr.size for a, lr in zip(addrs, g.lrs)] + [0])   # not judged: raw stream is model-vs-code only
        else:
            total = R["ta"].hillclimb_allocate_live_ranges(g, opts.get("cta", 16), max_iter, mem_limit)
            addrs = [t.address for t in tens]
        real = "ok %d %s iters=%d left=0" % (total, " ".join(map(str, addrs)), R["iters"])
    except LookupError:
        real = "err:unalloc"
    except Exception as e:  # noqa
        if isinstance(e, Hang):
            HANGS[0] += 1
        real = exc_name(e)
        if real == "err:alloc":
            addrs = [t.address for t in tens]
        if real == "err:value":
            import traceback
            fr = [f for f in traceback.extract_tb(e.__traceback__) if f.filename.endswith("hillclimb_allocation.py")]
            site = (fr[-1].name + ": " + (fr[-1].line or "")) if fr else "?"
    finally:
        signal.alarm(0)
    draws = list(rec.draws)
    req = "alloc hc %d %d %d %s %s" % (-1 if max_iter is None else max_iter, mem_limit, n,
                                       " ".join("%d %d %d %d" % r[:4] for r in ranges), " ".join(map(str, draws)))
    out.append(("corr", req.rstrip(), real))
    if real == "err:value":
        out.append(("note", site, None))
    if addrs is not None and opts.get("spec", True):
        tot = total if total is not None else max(a + r[2] for a, r in zip(addrs, ranges))
        placed = [(r[0], r[1], r[2], r[3], a, 0) for r, a in zip(ranges, addrs)]
        out.append(("spec", spec_line(tot, placed), None))
        if total is not None:
            out.append(("verify",) + verify_lines(g, tens, opts.get("cta", 16)))
    return out


def run_linear(case):
    """case: ('l', gran, lrs=[(start,end,size,cls)], tens=[(lr, wcc, scc, lut, eqv)], opts)"""
    _k, gran, lrs, tl, opts = case
    LiveRange, LiveRangeGraph = R["lr"].LiveRange, R["lr"].LiveRangeGraph
    g = LiveRangeGraph()
    objs = []
    for i, (s, e, z, _c) in enumerate(lrs):
        lr = LiveRange(None, opts.get("lr_align", 16))
        lr.size = z
        lr.name = "l%05d" % i
        lr.start_time = s
        lr.end_time = e
        g.lrs.append(lr)
        objs.append(lr)
    tens = []
    for j, (li, wcc, scc, lut, eqv) in enumerate(tl):
        t = StubTens("t%05d" % j, lrs[li][2] if li < len(lrs) else 1, ("e", eqv), cpu=opts.get("cpu", False))
        t.weight_compression_config = None if wcc == 0 else ("wcc", wcc)
        t.scale_compression_config = ("scc", scc)
        if lut:
            t.purpose = R["TensorPurpose"].LUT
        objs[li].tensors.append(t)
        g.ranges[t] = objs[li]
        tens.append(t)
    req = "alloc linear %d %d %s %d %s" % (gran, len(lrs), " ".join(str(z) for (_s, _e, z, _c) in lrs), len(tl),
                                           " ".join("%d %d %d %d %d" % (li, w, s, 1 if lu else 0, q) for (li, w, s, lu, q) in tl))
    total = None
    try:
        if opts.get("via_allocate"):
            R["lr"].extract_live_ranges_from_cascaded_passes = lambda *a, **k: g
            _g, total = R["ta"].allocate(None, None, R["MemArea"].Sram, {R["MemType"].Scratch},
                                         tensor_allocator=R["TensorAllocator"].LinearAlloc, cpu_tensor_alignment=gran)
        else:
            total = R["ta"].linear_allocate_live_ranges(g, gran)
        addrs = [(lr.tensors[0].address if lr.tensors else None) for lr in objs]
        real = "ok %d %s" % (total, " ".join("-" if a is None else str(a) for a in addrs))
    except Exception as e:  # noqa
        real = exc_name(e)
    out = [("corr", " ".join(req.split()), real)]
    if total is not None and opts.get("spec", True):
        placed = [(s, e, z, gran, a, c) for (s, e, z, c), a in zip(lrs, addrs) if a is not None]
        out.append(("spec", spec_line(total, placed), None))
    return out


def run_verify(case):
    """case: ('v', alignment, lrs=[(start,end,size,[(addr,eqv,cpu)])]) : verify_allocation on given addresses"""
    _k, alignment, lrs = case
    LiveRange, LiveRangeGraph = R["lr"].LiveRange, R["lr"].LiveRangeGraph
    g = LiveRangeGraph()
    tens = []
    for i, (s, e, z, ts) in enumerate(lrs):
        lr = LiveRange(None, 16)
        lr.size = z
        lr.name = "l%05d" % i
        lr.start_time = s
        lr.end_time = e
        for (a, q, c) in ts:
            t = StubTens("t", z, ("e", q), cpu=bool(c))
            t.address = a
            lr.tensors.append(t)
            g.ranges[t] = lr
            tens.append(t)
        g.lrs.append(lr)
    req, real = verify_lines(g, tens, alignment)
    out = [("verify", req, real)]
    if all(len(ts) == 1 and z > 0 for (_s, _e, z, ts) in lrs):
        # Spec on the same data: verify_allocation must accept exactly the overlap-free allocations
        placed = [(s, e, z, 1, ts[0][0], ts[0][1] + 1) for (s, e, z, ts) in lrs]
        out.append(("vspec", spec_line(0, placed), real))
    return out


def run_case(case):
    k = case[0]
    if k == "g":
        return run_greedy(case)
    if k == "h":
        return run_hc(case)
    if k == "l":
        return run_linear(case)
    return run_verify(case)


def run_chunk(cases):
    out = []
    for c in cases:
        out.append(run_case(c))
    return out


# ------------------------------------------------------------------------------------------------
# generators
# ------------------------------------------------------------------------------------------------
def with_names(rng, ranges):
    names = list(range(len(ranges)))
    rng.shuffle(names)
    if rng.random() < 0.25:
        # duplicate names: the greedy order is (start, -end, creation index) since /repo 38401a6, names only
        # matter through LiveRange.__lt__ when two current allocations have equal addresses (zero sizes)
        names = [rng.randrange(max(1, len(ranges) // 2)) for _ in ranges]
    return [tuple(r) + (names[i],) for i, r in enumerate(ranges)]


def random_large(rng, n, tmax, aligned_sizes):
    out = []
    for _ in range(n):
        s = rng.randrange(tmax)
        e = min(tmax - 1, s + (rng.randrange(1, 4) if rng.random() < 0.7 else rng.randrange(1, max(2, tmax // 3))))
        if rng.random() < 0.05:
            e = s
        a = rng.choice([16, 16, 16, 32, 64, 128, 256])
        z = rng.choice([1, 16, 24, 100, 1000, 4096, rng.randrange(1, 70000), rng.randrange(1, 3000)])
        if aligned_sizes:
            z = -(-z // a) * a
        out.append((s, e, z, a))
    return out


def gen_cases(ck):
    rng = ck.rng
    thorough = ck.thorough
    cases = []

    def add_all_three(ranges, tag, hc_opts=None, lin=True):
        rs = with_names(rng, ranges)
        cases.append(("g", rs, {"tag": tag, "via_allocate": rng.random() < 0.15}))
        o = {"tag": tag, "max_iter": rng.choice([0, 1, 50, None, 700]), "via_allocate": rng.random() < 0.15}
        if rng.random() < 0.5:
            o["own_seed"] = rng.getrandbits(30)
        peak = max(sum(r[2] for r in ranges if r[0] <= t <= r[1]) for t in range(1 + max(r[1] for r in ranges)))
        o["mem_limit"] = rng.choice([1 << 32, peak, max(0, peak - 16), peak + 64, 0])
        if o["max_iter"] is None and o["mem_limit"] < 1 << 32:
            o["max_iter"] = 600          # keep the 99999 default for runs that cannot spin on the memory limit
        if hc_opts:
            o.update(hc_opts)
        cases.append(("h", [tuple(r[:4]) for r in rs], o))
        if lin:
            gran = rng.choice([16, 16, 32, 64, 128])
            lrs = [(r[0], r[1], r[2], 0) for r in ranges]
            tl = [(i, 0, 0, False, i) for i in range(len(ranges))]
            cases.append(("l", gran, lrs, tl, {"tag": tag, "via_allocate": rng.random() < 0.15}))

    fam_no = [0]

    def add_family(ranges, tag, hc_opts=None):
        """history: the three allocators on `ranges`, then - in the same worker process, right after (main() keeps a family in
        one chunk) - on a sibling set that differs in ONE field of ONE live range, with the very same options; and HillClimb once
        more on the base set with ONE option changed.  The Lean model is history-free."""
        n0 = len(cases)
        add_all_three(ranges, tag, hc_opts)
        base = cases[n0:]
        fam_no[0] += 1
        i, f = rng.randrange(len(ranges)), rng.choice(["start", "end", "size", "align"])
        s_, e_, z_, a_ = ranges[i][:4]
        if f == "start":
            s_ = s_ - 1 if s_ > 0 else min(s_ + 1, e_)
        elif f == "end":
            e_ = e_ + 1
        elif f == "size":
            z_ = z_ + rng.choice([16, 32, 1])
        else:
            a_ = rng.choice([x for x in ALIGNS if x != a_])
        if (s_, e_, z_, a_) == tuple(ranges[i][:4]):
            return
        sibs = []
        for c in base:
            o = dict(c[-1], fam=fam_no[0], sibling_field=f)
            c[-1]["fam"] = fam_no[0]
            if c[0] == "g":
                rs = list(c[1])
                rs[i] = (s_, e_, z_, a_) + tuple(rs[i][4:])
                sibs.append(("g", rs, o))
            elif c[0] == "h":
                if i >= len(c[1]):
                    continue
                rs = list(c[1])
                rs[i] = (s_, e_, z_, a_)
                sibs.append(("h", rs, o))
                # one OPTION changed, same live ranges
                o2 = dict(c[-1], sibling_field="option")
                which = rng.choice(["max_iter", "mem_limit", "own_seed"])
                if which == "max_iter":
                    o2["max_iter"] = rng.choice([x for x in (0, 1, 50, 600) if x != c[-1].get("max_iter")])
                elif which == "mem_limit":
                    o2["mem_limit"] = c[-1].get("mem_limit", 1 << 40) + 64
                    if o2.get("max_iter") is None:
                        o2["max_iter"] = 600
                else:
                    o2["own_seed"] = rng.getrandbits(30)
                sibs.append(("h", list(c[1]), o2))
            elif c[0] == "l" and f != "align":
                lrs = list(c[2])
                lrs[i] = (s_, e_, z_, lrs[i][3])
                sibs.append(("l", c[1], lrs, c[3], o))
            elif c[0] == "l":
                sibs.append(("l", rng.choice([g_ for g_ in (16, 32, 64, 128) if g_ != c[1]]), c[2], c[3], o))
        cases.extend(sibs)

    # --- corpus: known crashing sets, replayed with the allocator's own seed(1) generator -----------
    for ranges in HC_CRASH_CORPUS:
        cases.append(("h", ranges, {"tag": "corpus", "max_iter": None, "mem_limit": 1 << 32}))
    # --- exhaustive small scopes -------------------------------------------------------------
    for r in FULL:
        add_all_three([r], "exh1")
    pairs = list(itertools.product(FULL, FULL))            # all ordered pairs: 57 600
    if not thorough:
        pairs = [p for p in pairs if p[0] <= p[1]]          # unordered pairs (28 920); the order of ids is randomised
        pairs = [p if rng.random() < 0.5 else (p[1], p[0]) for p in pairs]
    for p in pairs:
        add_all_three(list(p), "exh2")
    # three ranges: reduced lattice, every multiset (37 820) in a random order of ids (thorough: full lattice sample + reduced ordered)
    tri = list(itertools.combinations_with_replacement(REDUCED, 3))
    if not thorough:
        tri = rng.sample(tri, 3000)
    for t in tri:
        t = list(t)
        rng.shuffle(t)
        add_all_three(t, "exh3")
    nrand = {3: 800, 4: 1050, 5: 1050} if not thorough else {3: 42000, 4: 47000, 5: 47000}     # families: base + one-field siblings
    for n, cnt in nrand.items():
        for _ in range(cnt):
            add_family([rng.choice(FULL) for _ in range(n)], "small%d" % n)
    # --- random large --------------------------------------------------------------------------
    nlarge = 24 if not thorough else 320
    for i in range(nlarge):
        n = rng.choice([50, 80, 120, 200, 300, 400]) if i % 3 else rng.randrange(6, 40)
        tmax = rng.choice([8, 20, 60, n, 2 * n])
        ranges = random_large(rng, n, tmax, aligned_sizes=(i % 4 == 0))
        # HillClimb runs >= 500 iterations whenever it is not optimal at once: keep n * iterations bounded
        hc_n = n if (thorough and i < 16) else min(n, 150)
        mi = rng.choice([0, 1, 50, 99999, None]) if hc_n <= 60 else rng.choice([0, 1, 50])
        rs = with_names(rng, ranges)
        cases.append(("g", rs, {"tag": "large"}))
        cases.append(("h", [tuple(r[:4]) for r in rs[:hc_n]],
                      {"tag": "large", "max_iter": mi, "mem_limit": 1 << 40, "timeout": 600,
                       "own_seed": rng.getrandbits(30) if rng.random() < 0.5 else None}))
        cases.append(("l", rng.choice([16, 64]), [(r[0], r[1], r[2], 0) for r in ranges],
                      [(j, 0, 0, False, j) for j in range(len(ranges))], {"tag": "large"}))
    # real Tensor objects (address goes through TensorAddressMap)
    for _ in range(200):
        ranges = [rng.choice(FULL) for _ in range(rng.randrange(1, 8))]
        cases.append(("g", with_names(rng, ranges), {"tag": "realtensor", "real_tensor": True}))
    # --- LinearAlloc with shared addresses (equal weight-compression config / equivalent LUT) ------------
    for _ in range(3000 if not thorough else 60000):
        nl = rng.randrange(1, 8)
        ncls = rng.randrange(0, 3)
        cls_kind = {c: rng.choice(["wcc", "lut"]) for c in range(1, ncls + 1)}
        cls_size = {c: rng.choice(SIZES + [100, 7]) for c in range(1, ncls + 1)}
        lrs, tl = [], []
        for i in range(nl):
            c = rng.randrange(0, ncls + 1)
            s, e = rng.choice(TIMES)
            z = cls_size[c] if c else rng.choice(SIZES + [1, 100, 1000])
            lrs.append((s, e, z, c))
        order = []
        for i in range(nl):
            for _k in range(1 if rng.random() < 0.8 else 2):
                order.append(i)
        rng.shuffle(order)
        for j, i in enumerate(order):
            c = lrs[i][3]
            if c and cls_kind[c] == "wcc":
                tl.append((i, c, c, False, 1000 + j))
            elif c:
                tl.append((i, 0, 0, True, c))
            else:
                tl.append((i, 0, 0, rng.random() < 0.1, 1000 + j))
        cases.append(("l", rng.choice([16, 32, 64]), lrs, tl, {"tag": "linshare", "cpu": rng.random() < 0.5}))
    # --- malformed stream (model-vs-code only, the Spec does not judge these) -------------------------
    for _ in range(1500 if not thorough else 20000):
        n = rng.randrange(1, 6)
        ranges = []
        for _i in range(n):
            s, e, z, a = rng.choice(FULL)
            r = rng.random()
            if r < 0.3:
                z = 0
            elif r < 0.5:
                s, e = e + 1, s            # end < start
            elif r < 0.6:
                a = 0
            elif r < 0.7:
                a = 48                     # not a power of two
            ranges.append((s, e, z, a))
        rs = with_names(rng, ranges)
        cases.append(("g", rs, {"tag": "malformed", "spec": False}))
        cases.append(("h", [tuple(r[:4]) for r in rs], {"tag": "malformed", "spec": False, "raw": True,
                                                         "max_iter": rng.choice([0, 5, 600]), "mem_limit": rng.choice([0, 1 << 30])}))
    cases.append(("h", [(0, 1, 1 << 62, 16), (0, 1, 1 << 62, 16), (1, 2, 1 << 62, 16)],
                  {"tag": "malformed", "spec": False, "raw": True, "max_iter": 0, "mem_limit": 0}))
    # duplicate names: ties of LiveRange.__lt__ are then decided by set order (hash of id) -> only allowed where the key differs
    # LinearAlloc malformed: granularity 0, mixed wcc + LUT, scc mismatch (assert)
    for _ in range(300 if not thorough else 5000):
        nl = rng.randrange(1, 5)
        lrs = [(0, 1, rng.choice([0, 16, 20]), 0) for _ in range(nl)]
        tl = [(rng.randrange(nl), rng.randrange(0, 3), rng.randrange(0, 2), rng.random() < 0.4, rng.randrange(0, 3))
              for _ in range(rng.randrange(1, 7))]
        cases.append(("l", rng.choice([0, 16, 24]), lrs, tl, {"tag": "malformed", "spec": False}))
    # --- verify_allocation on arbitrary (mostly overlapping) pre-assigned addresses ------------------
    for _ in range(4000 if not thorough else 80000):
        n = rng.randrange(1, 6)
        lrs = []
        for _i in range(n):
            s, e = rng.choice(TIMES)
            z = rng.choice([0, 16, 16, 32, 48])
            nt = 1 if rng.random() < 0.85 else 2
            ts = [(rng.choice([0, 16, 32, 40, 48, 64]), rng.randrange(0, 3), int(rng.random() < 0.3)) for _t in range(nt)]
            lrs.append((s, e, z, ts))
        cases.append(("v", rng.choice([16, 16, 32, 8]), lrs))
    return cases


# ------------------------------------------------------------------------------------------------
def parse_flags(ans):
    try:
        return dict(kv.split("=") for kv in ans.split())
    except ValueError:
        return {}


def main():
    ck = Check("C05", "proof")
    ck.lean_stage(["VelaVerif.Props.C05", "VelaVerif.Props.C05Src"])
    setup_real()
    if ck.replay_arg:
        import json

        def tup(x):
            return tuple(tup(y) for y in x) if isinstance(x, list) else x
        rp = json.load(open(ck.replay_arg if os.path.isabs(ck.replay_arg) else os.path.join(common.VERIF, ck.replay_arg)))
        raw = rp["replay"]["input"]["case"]
        cases = [tuple(tup(x) for x in raw)]
        print("replaying", cases[0])
    else:
        cases = gen_cases(ck)
    ck.count("cases", len(cases))
    # run the real allocators in worker processes (fork: the patched modules are inherited)
    jobs = min(16, os.cpu_count() or 4)
    def fam_of(i):
        o = cases[i][-1]
        return o.get("fam") if isinstance(o, dict) else None

    # units: a family (base cases, then their siblings, in generation order) is never split over worker processes
    units, by_fam = [], {}
    for i in range(len(cases)):
        f = fam_of(i)
        if f is None:
            units.append([i])
        elif f in by_fam:
            by_fam[f].append(i)
        else:
            by_fam[f] = [i]
            units.append(by_fam[f])
    ck.count("families", len(by_fam))
    ck.count("sibling_cases", sum(1 for i in range(len(cases)) if isinstance(cases[i][-1], dict) and cases[i][-1].get("sibling_field")))

    def usize(u):
        return max((len(cases[i][1]) if cases[i][0] in ("g", "h") else 1) for i in u)
    order = sorted(range(len(units)), key=lambda k: -usize(units[k]))
    big = [k for k in order if any(cases[i][0] == "h" and len(cases[i][1]) > 40 for i in units[k])]
    bigset = set(big)
    rest = [k for k in order if k not in bigset]
    chunks = [list(units[k]) for k in big]
    step = max(1, len(rest) // (jobs * 24))
    chunks += [[i for k in rest[j:j + step] for i in units[k]] for j in range(0, len(rest), step)]
    ctx = multiprocessing.get_context("fork")
    with ctx.Pool(jobs) as pool:
        res = pool.map(run_chunk, [[cases[i] for i in ch] for ch in chunks], chunksize=1)
    results = [None] * len(cases)
    for ch, rs in zip(chunks, res):
        for i, r in zip(ch, rs):
            results[i] = r
    # one flat request list for the Lean driver
    reqs, meta = [], []
    notes_by_case = {}
    for ci, r in enumerate(results):
        for (kind, req, real) in r:
            if kind == "note":
                notes_by_case[ci] = req
                continue
            reqs.append(req)
            meta.append((ci, kind, real))
    perm = sorted(range(len(reqs)), key=lambda i: (i % 16, i))
    pouts = ck.model([reqs[i] for i in perm])
    outs = [None] * len(reqs)
    for i, o in zip(perm, pouts):
        outs[i] = o

    disagreements, spec_bad, padded_hits, hc_crashes = [], [], [], []
    nontrivial = set()
    for (ci, kind, real), req, out in zip(meta, reqs, outs):
        case = cases[ci]
        alloc = {"g": "greedy", "h": "hillclimb", "l": "linear", "v": "verify"}[case[0]]
        ck.count(f"{kind}_{alloc}")
        if kind in ("corr", "verify"):
            ck.count(f"outcome_{alloc}_{real.split(' ')[0]}")
            if out != real:
                disagreements.append((ci, kind, req, out, real))
            if kind == "corr" and case[0] == "h" and real.startswith("err:") and case[2].get("tag") != "malformed":
                # a valid live-range set on which HillClimb raises instead of returning an allocation
                hc_crashes.append((ci, req, real + " " + notes_by_case.get(ci, "")))
        elif kind == "vspec":
            f = parse_flags(out)
            want = "ok" if (f.get("overlap") == "1") else "err:alloc"
            # alignment of CPU tensors is judged by the model comparison above; here only the overlap verdict
            lrs = case[2]
            cpu_misaligned = any(c and a % case[1] != 0 for (_s, _e, _z, ts) in lrs for (a, _q, c) in ts) if case[1] else False
            if not cpu_misaligned and real in ("ok", "err:alloc") and want != real:
                spec_bad.append((ci, "verify_allocation verdict %s but Lean Spec overlap=%s" % (real, f.get("overlap")), req, out))
        else:  # spec on the implementation's allocation
            f = parse_flags(out)
            opts = case[-1]
            tag = opts.get("tag", "")
            if case[0] in ("g", "h"):
                rs = case[1]
                if len(rs) >= 2 and any(max(a[0], b[0]) <= min(a[1], b[1]) for a, b in itertools.combinations(rs, 2)):
                    nontrivial.add((case[0], tuple(tuple(r[:4]) for r in rs)))
            else:
                if len(case[2]) >= 2:
                    nontrivial.add(("l", case[1], tuple(case[2]), tuple(case[3])))
            bad = []
            if f.get("overlap") != "1":
                bad.append("two buffers alive together overlap in memory")
            if f.get("aligned") != "1":
                bad.append("an address does not honour the requested alignment")
            if case[0] == "h":
                if f.get("total") != "1":
                    bad.append("reported total differs from the highest end address")
                if f.get("peak") != "1":
                    bad.append("footprint below the peak sum of simultaneously live sizes")
            else:
                if f.get("total") != "1":
                    if f.get("padded") == "1":
                        padded_hits.append((ci, req))
                    else:
                        bad.append("reported total is neither the highest end address nor max(addr+round_up(size,align))")
            if bad:
                spec_bad.append((ci, "; ".join(bad), req, out))
            ck.count("spec_" + ("ok" if not bad else "rejected"))
            ck.count("size_%s_n%s" % (alloc, min(len(case[1]) if case[0] != "l" else len(case[2]), 6) if True else 0))
    # --- verdicts ------------------------------------------------------------------------------------
    def describe(ci):
        d = describe0(ci)
        d["case"] = cases[ci]
        return d

    def describe0(ci):
        c = cases[ci]
        if c[0] in ("g", "h"):
            return {"allocator": "Greedy" if c[0] == "g" else "HillClimb", "ranges(start,end,size,align[,name])": c[1][:40],
                    "n_ranges": len(c[1]), "options": c[2]}
        if c[0] == "l":
            return {"allocator": "LinearAlloc", "granularity": c[1], "ranges(start,end,size,class)": c[2],
                    "tensors(lr,wcc,scc,lut,eqv)": c[3], "options": c[4]}
        return {"function": "verify_allocation", "alignment": c[1], "ranges(start,end,size,[(addr,eqv,cpu)])": c[2]}

    spec_bad.sort(key=lambda x: len(x[2]))
    for ci, what, req, out in spec_bad[:5]:
        ck.violation("Lean Spec rejects the implementation's allocation: " + what,
                     {"input": describe(ci), "spec_request": req[:3000], "spec_verdict": out,
                      "replay": "see harness/check_C05.py run_case(); request line can be piped to lean/.lake/build/bin/drv"})
    if padded_hits:
        ci, req = min(padded_hits, key=lambda x: len(x[1]))
        ck.count("padded_total_cases", len(padded_hits))
        ck.violation("Greedy/LinearAlloc total includes alignment padding of the size: total == max(addr + round_up(size, align)) "
                     "> highest end address", {"input": describe(ci), "spec_request": req[:2000]}, key=KEY_PADDING)
    for ci, req, site in sorted(hc_crashes, key=lambda x: len(x[1]))[:3]:
        ck.count("hillclimb_exception_in_domain")
        ck.violation("HillClimb raises an exception on a valid live-range set instead of returning an allocation: " + site,
                     {"input": describe(ci), "request": req[:3000], "outcome": site,
                      "replay": "hillclimb_allocation.allocate_live_ranges(lrs, max_iter, mem_limit) with the recorded draws"})
    if disagreements and not spec_bad and not hc_crashes:
        disagreements.sort(key=lambda d: len(d[2]))
        ci, kind, req, out, real = disagreements[0]
        ck.violation("correspondence Model/Alloc.lean vs the real allocator broken on %d requests (kind %s)" % (len(disagreements), kind),
                     {"correspondence": "alloc greedy|linear|hc / allocverify", "input": describe(ci), "request": req[:3000],
                      "model": out[:1500], "implementation": real[:1500]}, found_input=False)
    elif disagreements:
        ck.notes.append("model/code disagreements: %d (explained by the Spec rejections above)" % len(disagreements))
    # --- alignment requests reaching the allocators: LiveRangeGraph.get_or_create_range / LiveRange.set_alignment -------
    if not ck.replay_arg:
        from ethosu.vela import live_range as lr_mod

        arng = ck.rng
        areqs, afinal = [], []
        for _ in range(400 if not ck.thorough else 4000):
            n = arng.randint(1, 6)
            al_reqs = [arng.choice([16, 16, 32, 64, 128, 256]) for _ in range(n)]
            g = lr_mod.LiveRangeGraph()
            t = StubTens("al", 48, 1)
            rng_obj = None
            for a in al_reqs:
                rng_obj = g.get_or_create_range(t, a)
            areqs.append(al_reqs)
            afinal.append(int(rng_obj.get_alignment()))
        if areqs:
            mod = ck.model(["lralign " + " ".join(map(str, r)) for r in areqs], parallel=False)
            spec = ck.model(["lralignspec %d %s" % (f, " ".join(map(str, r))) for r, f in zip(areqs, afinal)], parallel=False)
            bad = [(r, f, m, sp) for r, f, m, sp in zip(areqs, afinal, mod, spec) if sp != "1"]
            dis = [(r, f, m) for r, f, m in zip(areqs, afinal, mod) if str(f) != m]
            ck.count("alignment_request_sequences", len(areqs))
            for r, f, m, sp in bad[:2]:
                ck.violation(f"live range alignment {f} does not honour the requested alignments {r} (get_or_create_range / set_alignment)",
                             {"requests": r, "implementation_alignment": f, "model_alignment": m,
                              "replay": "LiveRangeGraph().get_or_create_range(tensor, a) for a in requests; rng.get_alignment()"})
            if dis and not bad:
                r, f, m = dis[0]
                ck.violation("correspondence Model/LiveRangeAlign.lean vs LiveRange.set_alignment broken",
                             {"correspondence": "lralign", "requests": r, "implementation": f, "model": m}, found_input=False)
    for ci in sorted({0, len(cases) // 3, len(cases) // 2}):
        r = results[ci][0]
        ck.sample({"request": r[1][:300], "implementation": (r[2] or "")[:200]})
    ck.finish({
        "evaluations": len(reqs),
        "distinct_nontrivial": len(nontrivial),
        "rule": "case = (allocator, live-range set [, equivalence classes]); evaluations = correspondence + Spec + verify requests; "
                "non-trivial when the set has >= 2 ranges of which two are alive at a common time (LinearAlloc: >= 2 ranges); "
                "distinct by the full input tuple",
        "exhaustive": "quick: every single range and every unordered pair over 5 time steps x sizes {16,32,48,80} x alignments "
                      "{16,32,64,128} (ids in random order), 3000 of the 37 820 three-range multisets of the reduced lattice "
                      "(sizes {16,48}, alignments {16,64}); thorough: every ordered pair, every three-range multiset of the reduced "
                      "lattice; beyond that random samples of 3-5 ranges from the full lattice and random sets of 6-400 ranges",
        "disagreements": len(disagreements),
        "spec_rejections": len(spec_bad),
        "padded_total_cases": len(padded_hits),
        "hillclimb_exception_in_domain": len(hc_crashes),
    }, assumptions=[
        "Greedy processes live ranges in (start, -end, creation index) order (repo commit 38401a6); names may repeat (25 % of the cases)",
        "sizes >= 1, start <= end, alignments >= 1 inside the judged domain (storage_size() never returns 0); malformed inputs are compared "
        "model-vs-code only",
        "LinearAlloc: the requested alignment is its alloc_granularity argument; ranges sharing a weight-compression config / LUT "
        "equivalence have equal sizes",
        "random.randint(a, b) returns a value in [a, b] and raises ValueError when b < a",
    ])


if __name__ == "__main__":
    main_wrapper(main)
