"""Pipeline harness: compile a generated network with the real compiler in-process, with
introspection done purely from the harness side (function wrapping, no /repo hooks), and turn
the artefacts into protocol lines for the Lean Spec checkers.

    res = compile_net(tflite_bytes, ["--accelerator-config", "ethos-u55-128", ...])
    res.status in {"ok", "vela-error", "system-exit", "internal-exception"}
    res.streams : one StreamArtefact per NPU subgraph (words, NpuOperation list, commands, sg, arch)
    res.out_model : the written .tflite (bytes), res.csv, res.stdout
"""
import contextlib
import io
import os
import shutil
import sys
import tempfile
import traceback

import common
import fbwalk

_loaded = False


def load_vela():
    global _loaded
    if _loaded:
        return
    common.build_mlw_codec()
    common.setup_repo_path()
    import ethosu.vela.vela  # noqa: F401

    _loaded = True


class StreamArtefact:
    def __init__(self):
        self.words = None
        self.npu_ops = None
        self.op_to_cmd = None
        self.arch = None
        self.sg = None
        self.nng = None
        self.error = None


class CompileResult:
    def __init__(self):
        self.status = None
        self.exc = None
        self.tb = ""
        self.stdout = ""
        self.out_model = None
        self.csv = None
        self.streams = []
        self.nng = None
        self.arch = None
        self.ret = None
        self.args = None


def reset_process_state():
    """What vela itself resets between compilations in one process (convert() does the same)."""
    from ethosu.vela.debug_database import DebugDatabase
    from ethosu.vela.tensor import TensorAddressMap

    DebugDatabase.clean_db()
    TensorAddressMap.clear_address_map()


def compile_net(data, opts, name="net", keep_dir=None, reset=False, introspect=True, entry="main"):
    """Compile `data` (tflite bytes) with CLI options `opts` through vela.main in-process."""
    load_vela()
    from ethosu.vela import vela, high_level_command_to_npu_op as hl, compiler_driver
    from ethosu.vela.errors import VelaError

    res = CompileResult()
    d = keep_dir or tempfile.mkdtemp(prefix="velaverif_c_")
    path = os.path.join(d, name + ".tflite")
    with open(path, "wb") as f:
        f.write(data)
    outdir = os.path.join(d, "out")
    captured = []
    orig_gen = hl.generate_command_stream
    orig_for_sg = hl.generate_register_command_stream_for_sg
    orig_driver = compiler_driver.compiler_driver

    def wrap_gen(npu_op_list, arch, verbose, mem_limits, add_to_debug_db=None, npu_op_to_cmd=None):
        art = StreamArtefact()
        art.npu_ops, art.arch, art.op_to_cmd, art.mem_limits = list(npu_op_list), arch, npu_op_to_cmd, dict(mem_limits)
        captured.append(art)
        words = orig_gen(npu_op_list, arch, verbose, mem_limits, add_to_debug_db, npu_op_to_cmd)
        art.words = list(words)
        return words

    def wrap_for_sg(nng, sg, arch, verbose=False):
        n0 = len(captured)
        r = orig_for_sg(nng, sg, arch, verbose)
        for art in captured[n0:]:
            art.sg, art.nng = sg, nng
        return r

    def wrap_driver(nng, arch, *a, **kw):
        res.nng, res.arch = nng, arch
        return orig_driver(nng, arch, *a, **kw)

    if introspect:
        hl.generate_command_stream = wrap_gen
        hl.generate_register_command_stream_for_sg = wrap_for_sg
        compiler_driver.compiler_driver = wrap_driver
    out = io.StringIO()
    # stats_writer binds sys.stdout as a default argument at import time, so redirect at fd level too
    sys.stdout.flush()
    cap_path = os.path.join(d, "stdout.txt")
    cap_f = open(cap_path, "w+")
    saved_fd = os.dup(1)
    os.dup2(cap_f.fileno(), 1)
    args = [path, "--output-dir", outdir] + list(opts)
    res.args = args[1:]
    cwd = os.getcwd()
    try:
        with contextlib.redirect_stdout(out), contextlib.redirect_stderr(out):
            try:
                if entry == "main":
                    res.ret = vela.main(args)
                    res.status = "ok" if res.ret == 0 else "vela-error"
                elif entry == "convert":
                    os.chdir(d)
                    p = vela.convert(path)
                    res.ret = 0
                    res.status = "ok"
                    res.out_model = open(p, "rb").read() if p and os.path.exists(p) else None
                else:  # convert_bytes
                    os.chdir(d)
                    buf = vela.convert_bytes(bytearray(data))
                    res.ret = 0
                    res.status = "ok"
                    res.out_model = bytes(buf)
            except VelaError as e:
                res.status, res.exc = "vela-error", e
            except SystemExit as e:
                res.status, res.exc = "system-exit", e
                res.ret = e.code
            except BaseException as e:  # noqa: B902
                res.status, res.exc = "internal-exception", e
                res.tb = traceback.format_exc()
    finally:
        try:
            sys.stdout.flush()
        except Exception:
            pass
        os.dup2(saved_fd, 1)
        os.close(saved_fd)
        cap_f.seek(0)
        fd_text = cap_f.read()
        cap_f.close()
        os.chdir(cwd)
        hl.generate_command_stream = orig_gen
        hl.generate_register_command_stream_for_sg = orig_for_sg
        compiler_driver.compiler_driver = orig_driver
        if reset:
            try:
                reset_process_state()
            except Exception:
                pass
    res.stdout = out.getvalue() + fd_text
    res.streams = captured
    if os.path.isdir(outdir):
        for fn in sorted(os.listdir(outdir)):
            p = os.path.join(outdir, fn)
            if fn.endswith("_vela.tflite") and res.out_model is None:
                res.out_model = open(p, "rb").read()
            elif fn.endswith(".csv") and "summary" in fn:
                res.csv = open(p).read()
    if keep_dir is None:
        shutil.rmtree(d, ignore_errors=True)
    return res


# ------------------------------------------------------------------------------------------------
# Output model inspection (plain walker)


def ethosu_ops(model):
    """[(subgraph index, operator dict, [cmd, flash, scratch, scratch_fast] tensor dicts, other input tensor indices)]"""
    out = []
    for si, sg in enumerate(model["subgraphs"]):
        for op in sg["operators"]:
            code = model["operator_codes"][op["opcode_index"]]
            if code["builtin"] == 32 and code["custom"] == "ethos-u":
                ins = op["inputs"]
                out.append((si, op, [sg["tensors"][i] for i in ins[:4]], ins[4:]))
    return out


def payload_words(model, tensor):
    import struct

    data = model["buffers"][tensor["buffer"]]
    return list(struct.unpack("<%dI" % (len(data) // 4), data))


def strip_payload(words):
    """Driver payload -> command words (the Lean C17 parser is the judge of the framing; this is only
    to hand the command words to the stream checkers)."""
    i = 4
    while i < len(words) and (words[i] & 0xFF) == 5:
        i += 1
    return words[i + 1:]


# ------------------------------------------------------------------------------------------------
# Side information for the Lean stream checkers


class TidMap:
    """tensor identity = equivalence id, with identities united across NOP commands (a memory-only
    operator whose source and destination are the same bytes: Vela emits no operation for it)."""

    def __init__(self):
        self.m = {}
        self.parent = {}

    def _find(self, k):
        while self.parent.get(k, k) != k:
            k = self.parent[k]
        return k

    def union(self, a, b):
        ra, rb = self._find(a.equivalence_id), self._find(b.equivalence_id)
        if ra != rb:
            self.parent[ra] = rb

    def tid(self, tens):
        key = self._find(tens.equivalence_id)
        if key not in self.m:
            self.m[key] = len(self.m) + 1
        return self.m[key]


def region_of(mem_type, arch):
    from ethosu.vela.tensor import MemType

    if mem_type in (MemType.Permanent_NPU, MemType.Permanent_CPU):
        return 0
    if mem_type == MemType.Scratch:
        return 1
    if mem_type == MemType.Scratch_fast:
        return 2 if arch.is_spilling_enabled() else 1
    return None


def tile_padding_shifts(op, cmd, npu_op):
    """Per-tile tag shift of the IFM of a `Padding.TILE` operation, [0, 0, 0, 0] otherwise.

    The RESIZE_BILINEAR (half-pixel) lowering emits depthwise convolutions that read the IFM box padded by one
    row and/or column of *replicated edge values* (explicit_padding = (top, left, bottom, right) in {0, 1});
    Vela implements the replication by re-pointing the four IFM tiles (create_padding ->
    modify_tile_addresses_for_padding) and programming zero NPU padding.  The logical element behind the
    box-relative coordinate (y, x) is therefore (clamp(y - top, 0, H-1), clamp(x - left, 0, W-1)), and the tag the
    bytes of tile t must carry is displaced by the canonical distance between the logical and the nominal
    coordinate of the tile's first element.  Computed from the operation's padding direction, the IFM box and the
    strides only -- NOT from the emitted tile addresses, so a wrong tile address is still rejected by the Lean
    machine."""
    from ethosu.vela.operation import Padding

    if op.attrs.get("padding", None) != Padding.TILE or npu_op.ifm is None:
        return [0, 0, 0, 0]
    top, left, _bottom, _right = [int(v) for v in op.attrs["explicit_padding"]]
    sc, ec = list(cmd.ifm_box.start_coord), list(cmd.ifm_box.end_coord)
    H, W = int(ec[-3] - sc[-3]), int(ec[-2] - sc[-2])
    t = npu_op.ifm.tiles
    h0, h1, w0 = int(t.height_0), int(t.height_1), int(t.width_0)
    sy, sx = int(npu_op.ifm.strides.height), int(npu_op.ifm.strides.width)

    def clamp(v, hi):
        return max(0, min(v, hi - 1))

    out = []
    for ys, xs in ((0, 0), (0, w0), (h0, 0), (h1, w0)):      # first element of tile 0..3 (NPU tile order)
        ly, lx = clamp(ys - top, H), clamp(xs - left, W)
        out.append((ly - ys) * sy + (lx - xs) * sx)
    return out


def stream_line(art, extents, extra_init=(), tids=None, parts=False):
    """Build the `streamcheck` request for one captured stream. `extents` = {region: bytes}.
    With parts=True returns (infos, init) instead (used by inference_line, which shares one TidMap)."""
    from ethosu.vela.high_level_command_stream import DMA, NpuStripe
    from ethosu.vela.api import NpuDmaOperation
    from ethosu.vela.tensor import TensorPurpose
    from ethosu.vela.weight_compressor import WeightKey

    arch = art.arch
    tids = tids if tids is not None else TidMap()
    infos = []
    from ethosu.vela.high_level_command_stream import NOP

    # lookup tables are identified by content: two constants with equal bytes (the exponent table of two equal SOFTMAX
    # operators is not de-duplicated in the constants region) count as the same table, as they do for lut.LUTState.
    # The table's identity is the constants-region address of the first such tensor met in the stream.
    lut_canon = {}

    def lut_source(t):
        v = getattr(t, "values", None)
        key = (str(t.dtype), v.tobytes() if v is not None and hasattr(v, "tobytes") else id(t))
        return lut_canon.setdefault(key, int(t.address))

    if art.sg is not None:
        for c in art.sg.high_level_command_stream:
            if isinstance(c, NOP):
                tids.union(c.in_tensor, c.out_tensor)

    def fminfo(tens, box, offs, shape4d=None):
        if tens is None or box is None:
            return "0,0,0,0,0,0,0,0"
        sc = list(box.start_coord)
        while len(sc) < 4:
            sc.insert(0, 0)
        offs = [int(o) for o in offs]
        assert len(offs) == 4, offs
        if int(sc[0]) > 0:
            # a box that starts in a later batch (UNPACK / SPLIT along the batch axis, concatenation write): the Spec's
            # canonical offsets count from (y, x, c) only, the batch offset is a constant displacement of every tile
            try:
                strides = tens.get_strides(shape4d)
                offs = [o + int(sc[0]) * int(strides[0]) for o in offs]
            except Exception:
                pass
        # one offset per tile, in NPU tile order (create_feature_map: addresses[idx] += offset)
        return f"{tids.tid(tens)},{sc[-3]},{sc[-2]},{sc[-1]}," + ",".join(map(str, offs))

    for npu_op in art.npu_ops:
        cmd = art.op_to_cmd[npu_op]
        if isinstance(npu_op, NpuDmaOperation):
            assert isinstance(cmd, DMA)
            src_region = region_of(cmd.in_tensor.mem_type, arch)
            if cmd.in_tensor.purpose == TensorPurpose.LUT and int(cmd.in_tensor.address) == int(npu_op.src.address):
                infos.append(f"D,0,0,0,{lut_source(cmd.in_tensor) - npu_op.dest.address}")
            elif cmd.in_tensor.purpose in (TensorPurpose.Weights, TensorPurpose.LUT) or src_region == 0:
                # constant data: dst bytes are tagged (const, src - dst)
                infos.append(f"D,0,0,0,{npu_op.src.address - npu_op.dest.address}")
            else:
                st, dt = tids.tid(cmd.in_tensor), tids.tid(cmd.out_tensor)
                sc = cmd.box.start_coord
                src_delta = int(cmd.in_tensor.address_for_coordinate(sc) - cmd.in_tensor.address) - int(npu_op.src.address)
                dst_delta = int(cmd.out_tensor.address_for_coordinate(sc) - cmd.out_tensor.address) - int(npu_op.dest.address)
                # the transfer is rounded up to 16 bytes; only the bytes of the box itself are tensor data
                valid = int(cmd.in_tensor.address_for_coordinate(cmd.box.end_coord, is_top_box=True)) - int(npu_op.src.address)
                infos.append(f"D,{st},{src_delta},{dt},{dst_delta},{max(valid, 0)}")
            continue
        assert isinstance(cmd, NpuStripe)
        op = cmd.ps.primary_op
        ifm_offs = [int(a) + int(b) for a, b in zip(op.tile_base_offsets_ifm[0], tile_padding_shifts(op, cmd, npu_op))]
        shp = cmd.ps.ifm_shapes, cmd.ps.ofm_shapes
        ifm = fminfo(cmd.ifm_tensor, cmd.ifm_box, ifm_offs, shp[0][0] if shp[0] else None)
        ifm2 = fminfo(cmd.ifm2_tensor, cmd.ifm2_box, op.tile_base_offsets_ifm[1], shp[0][1] if len(shp[0]) > 1 else None) \
            if cmd.ifm2_tensor is not None else "0,0,0,0,0,0,0,0"
        ofm = fminfo(cmd.ofm_tensor, cmd.ofm_box, op.tile_base_offsets_ofm, shp[1][0] if shp[1] else None)
        wsrc, ssrc = [], []
        if cmd.weight_tensor is not None:
            wt = cmd.weight_tensor
            src = wt.src_tensor if wt.src_tensor else wt
            for core in range(arch.ncores):
                key = WeightKey(core, cmd.weight_box.start_coord[-1])
                if key in src.encoded_ranges:
                    rng = src.encoded_ranges[key]
                    base = src.address + rng.offset
                    # a core without channels in this depth slice gets a zero-length range (the decoder drops those)
                    if int(rng.weight_bytes) > 0:
                        wsrc.append(int(base + rng.weight_offset))
                    if cmd.scale_tensor is not None:
                        srng = cmd.scale_tensor.encoded_ranges[key]
                        if int(srng.scale_bytes) > 0:
                            ssrc.append(int(cmd.scale_tensor.address + srng.offset))
                    elif int(rng.scale_bytes) > 0:
                        ssrc.append(int(base))
        lutsrc, lutlen = -1, 0
        luts = [t for t in op.inputs if t.purpose == TensorPurpose.LUT]
        if op.activation_lut is not None and luts:
            flash_lut = luts[0].src_tensor if luts[0].src_tensor is not None else luts[0]
            lutsrc = lut_source(flash_lut)
            lutlen = int(luts[0].storage_size())
        infos.append("B," + ifm + "," + ifm2 + "," + ofm + f",{lutsrc},{lutlen},W," +
                     ",".join(map(str, wsrc)) + ",S," + ",".join(map(str, ssrc)))
    # initial definitions: inputs of the NPU subgraph that live in the arena
    init = list(extra_init)
    if art.sg is not None:
        for tens in art.sg.input_tensors:
            r = region_of(tens.mem_type, arch)
            if r in (1, 2) and tens.address is not None:
                init.append(f"{r}:{int(tens.address)}:{int(tens.storage_size())}:{tids.tid(tens)}:{-int(tens.address)}")
    if parts:
        return infos, init
    ext = ",".join(f"{r}:{int(s)}" for r, s in sorted(extents.items()))
    line = (f"streamcheck shram={int(arch.shram_size_bytes)} lutbase={int(arch.shram_lut_address)} ext={ext} "
            f"init={','.join(init)} infos={';'.join(infos)} words={','.join(map(str, art.words))}")
    return line


def default_extents(art):
    """Extents as Vela's own tensors publish them (used when the output file is not available)."""
    sg = art.sg
    ext = {0: int(sg.flash_tensor.shape[0]) if getattr(sg, "flash_tensor", None) is not None else 0}
    if getattr(sg, "scratch_tensor", None) is not None:
        ext[1] = int(sg.scratch_tensor.shape[0])
    if getattr(sg, "scratch_fast_tensor", None) is not None:
        ext[2] = int(sg.scratch_fast_tensor.shape[0])
    return ext


def extents_from_output(out_model_bytes):
    """Region extents published by the output file: sizes of the custom operator's flash / scratch /
    scratch_fast tensors (plain flatbuffer walker)."""
    model = fbwalk.parse(out_model_bytes)
    ops = ethosu_ops(model)
    if not ops:
        return None, model
    _si, _op, (cmd_t, flash_t, scratch_t, fast_t), _rest = ops[0]
    return {0: fbwalk.tensor_bytes(flash_t), 1: fbwalk.tensor_bytes(scratch_t), 2: fbwalk.tensor_bytes(fast_t)}, model


def stream_features(art):
    """Which mechanisms a captured stream exercises (for evidence / non-triviality counting)."""
    from ethosu.vela.high_level_command_stream import DMA, NpuStripe
    from ethosu.vela.tensor import TensorPurpose, TensorFormat

    f = set()
    sg = art.sg
    if sg is None:
        return f
    try:
        if any(ci.cascade != 0 for ci in sg.schedule.cost_map.values()):
            f.add("cascade")
    except Exception:
        pass
    stripes = {}
    for c in sg.high_level_command_stream:
        if isinstance(c, DMA):
            f.add("dma")
            if c.in_tensor.purpose == TensorPurpose.Weights:
                f.add("buffered_weights")
            elif c.out_tensor.purpose == TensorPurpose.LUT:
                f.add("lut")
            else:
                f.add("dma_fm")
        elif isinstance(c, NpuStripe):
            stripes[c.ps] = stripes.get(c.ps, 0) + 1
            if c.ofm_tensor.format == TensorFormat.NHCWB16 or c.ifm_tensor.format == TensorFormat.NHCWB16:
                f.add("nhcwb16")
            if c.ifm2_tensor is not None:
                f.add("ifm2")
    if any(v > 1 for v in stripes.values()):
        f.add("multi_stripe")
    if len(art.npu_ops) > 1:
        f.add("multi_op")
    for op in art.npu_ops:
        for fm in (getattr(op, "ifm", None), getattr(op, "ofm", None)):
            if fm is not None and fm.tiles is not None and fm.shape is not None and fm.tiles.height_0 < fm.shape.height:
                f.add("rolling_wrap")
    return f


def op_meta(art):
    """Per NPU operation: the operator-level facts the checks use to classify a Spec rejection
    (kernel, stride, original padding, cascade membership). Never used to decide pass/fail."""
    from ethosu.vela.high_level_command_stream import NpuStripe

    metas = []
    for npu_op in art.npu_ops:
        cmd = art.op_to_cmd[npu_op]
        m = {"name": getattr(npu_op, "name", "?"), "type": type(npu_op).__name__}
        if isinstance(cmd, NpuStripe):
            op = cmd.ps.primary_op
            k = op.kernel
            pad = op.attrs.get("explicit_padding", (0, 0, 0, 0))
            casc = 0
            try:
                for so, ci in art.sg.schedule.cost_map.items():
                    if so.parent_ps is cmd.ps:
                        casc = ci.cascade
            except Exception:
                pass
            # width the hardware reads (implicit extent from OFM, kernel, stride, pads) vs the width of Vela's own IFM box
            try:
                kk, pp = npu_op.kernel, npu_op.padding
                if kk is not None and pp is not None and npu_op.ifm is not None and int(npu_op.ifm_upscale.value if hasattr(npu_op.ifm_upscale, "value") else 0) in (0, 1):
                    hw_w = (int(npu_op.ofm.shape.width) - 1) * int(kk.stride_x) + (int(kk.width) - 1) * int(kk.dilation_x) + 1 - int(pp.left) - int(pp.right)
                    hw_h = (int(npu_op.ofm.shape.height) - 1) * int(kk.stride_y) + (int(kk.height) - 1) * int(kk.dilation_y) + 1 - int(pp.top) - int(pp.bottom)
                    m.update(hw_ifm_w=hw_w, box_ifm_w=int(npu_op.ifm.shape.width), ifm_width0=int(npu_op.ifm.tiles.width_0),
                             hw_ifm_h=hw_h, box_ifm_h=int(npu_op.ifm.shape.height), ifm_height0=int(npu_op.ifm.tiles.height_0))
            except Exception:
                pass
            m.update(op_type=op.type.name, orig_type=op.original_type.name if op.original_type else None,
                     k_h=int(k.height), stride_y=int(k.stride.y), dil_y=int(k.dilation.y), pad_top=int(pad[0]),
                     pad_bottom=int(pad[2]), cascade=int(casc),
                     ifm_shape=list(cmd.ps.ifm_shapes[0].as_list()) if cmd.ps.ifm_shapes else None,
                     ofm_box=[list(map(int, cmd.ofm_box.start_coord)), list(map(int, cmd.ofm_box.end_coord))])
            # facts for the exact condition of the cascade rolling-buffer defect (c10_lib.rolling_defect)
            skirt = op.attrs.get("skirt", None)
            ss = cmd.ifm_tensor.storage_shape
            m.update(skirt_top=int(skirt[0]) if skirt is not None else None, skirt_bottom=int(skirt[2]) if skirt is not None else None,
                     ifm_storage_h=int(ss[1]) if len(ss) == 4 else None, ps_id=id(cmd.ps),
                     ifm_eq=str(cmd.ifm_tensor.equivalence_id), ofm_eq=str(cmd.ofm_tensor.equivalence_id))
            # lookup-table facts (classification of the table-index finding only)
            try:
                from ethosu.vela.tensor import TensorPurpose

                luts = [t for t in op.inputs if t.purpose == TensorPurpose.LUT]
                if op.activation_lut is not None and luts:
                    m.update(lut_bytes=int(luts[0].storage_size()), lut_index=int(op.activation.lut_index),
                             lut_offset=int(luts[0].address) - int(art.arch.shram_lut_address))
            except Exception:
                pass
        metas.append(m)
    return metas


def inference_line(res, extents):
    """`inferencecheck` request: the operator sequence of the output graph (CPU operators read and define
    their arena operands, every Ethos-U operator runs its stream) over one tagged memory."""
    from ethosu.vela.high_level_command_stream import NOP
    from ethosu.vela.operation import Op

    nng, arch = res.nng, res.arch
    if nng is None or not res.streams:
        return None
    tids = TidMap()
    by_sg = {}
    for art in res.streams:
        if art.sg is not None:
            by_sg[art.sg] = art
            for c in art.sg.high_level_command_stream:
                if isinstance(c, NOP):
                    tids.union(c.in_tensor, c.out_tensor)
    root = nng.get_root_subgraph()

    def tagged(tens):
        r = region_of(tens.mem_type, arch)
        if r not in (1, 2) or tens.address is None:
            return None
        # the bytes a CPU kernel touches: the elements themselves (storage_size() is rounded up to the allocation quantum)
        n = int(tens.dtype.size_in_bytes())
        for d in tens.shape:
            n *= int(d)
        if n <= 0:
            return None
        return f"{r}:{int(tens.address)}:{n}:{tids.tid(tens)}:{-int(tens.address)}"

    init = [t for t in (tagged(x) for x in root.input_tensors) if t]
    steps = []
    for cps in root.cascaded_passes:
        for ps in cps.passes:
            for op in ps.ops:
                if op.type in (Op.Const, Op.Placeholder, Op.SubgraphInput):
                    continue
                if op.type == Op.CustomNpuOp:
                    art = by_sg.get(op.attrs.get("subgraph"))
                    if art is None:
                        return None
                    infos, _init = stream_line(art, extents, tids=tids, parts=True)
                    steps.append("step=npu~" + ";".join(infos) + "~" + ",".join(map(str, art.words)))
                    continue
                mem_ifms = set()
                rd = [t for t in (tagged(x) for x in op.inputs if x is not None and x not in mem_ifms) if t]
                wr = [t for t in (tagged(x) for x in op.outputs if x is not None) if t]
                name = (op.type.name + "_" + str(op.name)).replace(" ", "_").replace("~", "_")[:60]
                steps.append("step=cpu~" + name + "~" + ",".join(rd) + "~" + ",".join(wr))
    ext = ",".join(f"{r}:{int(s)}" for r, s in sorted(extents.items()))
    return (f"inferencecheck shram={int(arch.shram_size_bytes)} lutbase={int(arch.shram_lut_address)} ext={ext} "
            f"init={','.join(init)} " + " ".join(steps))
