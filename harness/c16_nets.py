"""C16 pipeline level: single-operator and small multi-operator TFLite networks sampled inside and just
outside each documented range (built with harness/netgen.py's IR and builder).  `cases(rng, thorough)`
returns [(label, Net)]; every network replays from (seed, index)."""
import numpy as np

import netgen
from netgen import B, Op, T


QUANT = ("int8", "uint8", "int16")


class Variants(list):
    """the same operator alone and embedded between accelerated neighbours: [(label suffix, Net)]"""


def _pre(b, x):
    """an accelerated producer that keeps the shape: 1x1 convolution for rank 4, RELU otherwise"""
    xt = b.t(x)
    if len(xt.shape) == 4 and xt.dtype in QUANT and xt.shape[3] <= 64:
        return b.conv(x, xt.shape[3], (1, 1), (1, 1), (1, 1), "SAME", per_channel=False)
    return b.unary("RELU", x)


def _post(b, y):
    """an accelerated consumer of tensor y (None when y cannot feed one: unquantised / other data types)"""
    yt = b.t(y)
    if yt.dtype not in QUANT or not yt.scales or len(yt.scales) != 1 or len(yt.shape) > 4 or len(yt.shape) == 0:
        return y
    if any(d <= 0 for d in yt.shape):
        return y
    if len(yt.shape) == 4 and yt.shape[0] == 1 and yt.shape[3] <= 64:
        return b.conv(y, yt.shape[3], (1, 1), (1, 1), (1, 1), "SAME", per_channel=False) or y
    return b.unary("RELU", y)


# ---- neighbours that later passes may merge with the operator under test ---------------------------------------
def _q1(t):
    return t.dtype in QUANT and t.scales and len(t.scales) == 1 and t.zps and 0 < len(t.shape) <= 4 and all(d > 0 for d in t.shape)


def _f_unary(kind):
    return lambda b, y: b.unary(kind, y) if _q1(b.t(y)) else None


def _f_quantize(b, y):
    return b.quantize(y) if _q1(b.t(y)) else None


def _f_reshape(b, y):
    yt = b.t(y)
    if not _q1(yt):
        return None
    n = int(np.prod(yt.shape))
    return b.reshape(y, [1, n] if list(yt.shape) != [1, n] else [n, 1])


def _f_expand(b, y):
    yt = b.t(y)
    if not _q1(yt) or len(yt.shape) > 3:
        return _f_squeeze(b, y)
    ax = b.const([1], "int32", [0])
    o = b.fm([1] + list(yt.shape), yt.dtype, scale=yt.scales[0], zp=yt.zps[0])
    b.net.ops.append(Op("EXPAND_DIMS", [y, ax], [o], ("ExpandDimsOptions", {})))
    return o


def _f_squeeze(b, y):
    yt = b.t(y)
    if not _q1(yt) or 1 not in yt.shape or len(yt.shape) < 2:
        return _f_reshape(b, y)
    o = b.fm([d for d in yt.shape if d != 1] or [1], yt.dtype, scale=yt.scales[0], zp=yt.zps[0])
    b.net.ops.append(Op("SQUEEZE", [y], [o], ("SqueezeOptions", dict(SqueezeDims=[i for i, d in enumerate(yt.shape) if d == 1]))))
    return o


def _f_const(kind):
    def f(b, y):
        yt = b.t(y)
        if not _q1(yt):
            return None
        c = yt.shape[-1]
        shape = [1] * (len(yt.shape) - 1) + [c]
        lo = 0 if yt.dtype == "uint8" else -50
        cst = b.const(shape, yt.dtype, [(lo + 7 * i) % 100 for i in range(c)], [0.05], [0 if yt.dtype != "uint8" else 3])
        return b.binary(kind, y, cst)
    return f


def _f_valid(kind):
    """a 3x3 VALID consumer: the operator a PAD in front of it is folded into (hardware padding)"""
    def f(b, y):
        yt = b.t(y)
        if not _q1(yt) or len(yt.shape) != 4 or yt.shape[1] < 3 or yt.shape[2] < 3 or yt.shape[3] > 64:
            return None
        if kind == "CONV_2D":
            return b.conv(y, 4, (3, 3), (1, 1), (1, 1), "VALID", per_channel=False)
        if kind == "DEPTHWISE_CONV_2D":
            return b.dwconv(y, (3, 3), (1, 1), (1, 1), "VALID", per_channel=False)
        return b.pool(y, "AVERAGE_POOL_2D", (3, 3), (1, 1), "VALID")
    return f


# name -> (where, builder).  LUT activations are merged into the producer only on accelerators with reserved LUT banks.
NEIGHBOURS = [
    ("TANH", "after", _f_unary("TANH")), ("LOGISTIC", "after", _f_unary("LOGISTIC")), ("LEAKY_RELU", "after", _f_unary("LEAKY_RELU")),
    ("HARD_SWISH", "after", _f_unary("HARD_SWISH")),
    ("RELU", "after", _f_unary("RELU")), ("RELU6", "after", _f_unary("RELU6")), ("RELU_N1_TO_1", "after", _f_unary("RELU_N1_TO_1")),
    ("QUANTIZE", "after", _f_quantize), ("RESHAPE", "after", _f_reshape), ("EXPAND_DIMS/SQUEEZE", "after", _f_expand),
    ("ADD const", "after", _f_const("ADD")), ("MUL const", "after", _f_const("MUL")),
    ("PAD", "before", None),
    ("CONV_2D 3x3 VALID", "after", _f_valid("CONV_2D")), ("AVERAGE_POOL_2D 3x3 VALID", "after", _f_valid("AVERAGE_POOL_2D")),
]
LUT_NEIGHBOURS = ("TANH", "LOGISTIC", "LEAKY_RELU", "HARD_SWISH")
FOLD = ("CONV_2D 3x3 VALID", "AVERAGE_POOL_2D 3x3 VALID")     # what a PAD in front is folded into
_STATE = {"per_case": 3, "ctr": 0}


def _one(rng, builder, dtype, ifm, post, embed, neighbour=None):
    b = B(rng, "c16", dtype)
    nb = NEIGHBOURS[neighbour] if neighbour is not None else None
    if nb is not None and nb[1] == "before":
        # PAD in front: the padded tensor has the shape the operator under test is sampled for
        if len(ifm) != 4 or ifm[1] < 3 or ifm[2] < 3 or dtype not in QUANT:
            return None
        x = b.input([ifm[0], ifm[1] - 2, ifm[2] - 2, ifm[3]])
        x = b.pad(x, [[0, 0], [1, 1], [1, 1], [0, 0]])
    else:
        x = b.input(list(ifm))
    if embed:
        x = _pre(b, x)
    tgt = len(b.net.ops)
    y = builder(b, x)
    if y is None:
        return None
    outs = y if isinstance(y, list) else [y]
    if embed:
        outs = [_post(b, o) for o in outs]
    if nb is not None and nb[1] == "after":
        f = nb[2](b, outs[0])
        if f is None:
            return None
        outs = [f] + outs[1:]
    net = b.finish(outs)
    net.tgt = tgt          # index of the operator under test
    if nb is not None:
        net.neighbour = nb[0]
        # only table-lookup activations are treated differently by the two accelerator classes (reserved LUT banks or not):
        # these networks are compiled for one accelerator of each class
        net.both_classes = nb[0] in LUT_NEIGHBOURS
    if post:
        post(b, net)
    return net


def single(rng, builder, dtype="int8", ifm=(1, 8, 8, 4), post=None, neighbours=None, nbk=None, also=()):
    """the operator built by `builder(b, x)` (a) alone on a fresh input, (b) between accelerated neighbours
    (1x1 CONV_2D / RELU -> X -> 1x1 CONV_2D / RELU), (c) next to operators that later passes may merge with it:
    X -> LUT activation / RELU-type activation / QUANTIZE / RESHAPE-like / ADD, MUL with a constant / 3x3 VALID convolution or
    average pool (what a PAD is folded into), PAD -> X.
    `neighbours`: indices into NEIGHBOURS; default = `_STATE["per_case"]` of them in rotation (quick: 3, or `nbk` for the
    large sweeps; thorough: every kind); `also`: names of kinds that are always included."""
    v = Variants()
    for suffix, embed in (("", False), (" [between NPU ops]", True)):
        net = _one(rng, builder, dtype, ifm, post, embed)
        if net is not None:
            v.append((suffix, net))
    if neighbours is None:
        k = _STATE["per_case"] if nbk is None or _STATE["per_case"] >= len(NEIGHBOURS) else nbk
        if k >= len(NEIGHBOURS):
            neighbours = range(len(NEIGHBOURS))
        else:
            neighbours = [(_STATE["ctr"] * k + i) % len(NEIGHBOURS) for i in range(k)]
            _STATE["ctr"] += 1
    neighbours = list(neighbours) + [i for i, nb in enumerate(NEIGHBOURS) if nb[0] in also and i not in neighbours]
    for n in neighbours:
        net = _one(rng, builder, dtype, ifm, post, False, n)
        if net is not None:
            nb = NEIGHBOURS[n]
            v.append((f" [{nb[0]} in front]" if nb[1] == "before" else f" [then {nb[0]}]", net))
    return v


def _conv_net(rng, label, **kw):
    dtype = kw.pop("dtype", "int8")
    ifm = kw.pop("ifm", [1, 8, 8, 4])
    kind = kw.pop("kind", "conv")

    def bld(b, x):
        k2 = dict(kw)
        if kind == "conv":
            return b.conv(x, k2.pop("oc", 4), k2.pop("k", (3, 3)), k2.pop("stride", (1, 1)), k2.pop("dil", (1, 1)), k2.pop("padding", "SAME"), **k2)
        if kind == "dw":
            return b.dwconv(x, k2.pop("k", (3, 3)), k2.pop("stride", (1, 1)), k2.pop("dil", (1, 1)), k2.pop("padding", "SAME"), **k2)
        return b.transpose_conv(x, k2.pop("oc", 4), k2.pop("k", (3, 3)), k2.pop("stride", (2, 2)), k2.pop("padding", "SAME"))
    return single(rng, bld, dtype=dtype, ifm=ifm)


def cases(rng, thorough=False):
    out = []
    _STATE["per_case"] = len(NEIGHBOURS) if thorough else 3
    _STATE["ctr"] = rng.randrange(len(NEIGHBOURS))

    def add(label, net):
        if isinstance(net, Variants):
            for suffix, n in net:
                add(label + suffix, n)
        elif net is not None:
            net.desc.append(label)
            out.append((label, net))

    # ---- convolution: strides, dilation, kernel, data types, batch, bias, weights --------------------------------
    for s in ((1, 1), (2, 2), (3, 3), (4, 4), (1, 4), (4, 1), (1, 6), (1, 5), (2, 3)):
        for iw in (8, 9, 12):
            add(f"conv stride={s} iw={iw}", _conv_net(rng, "", ifm=[1, 8, iw, 4], stride=s, k=(1, 1), padding="VALID"))
    add("conv stride 4x4 ofm 1x1", _conv_net(rng, "", ifm=[1, 4, 4, 4], stride=(4, 4), k=(4, 4), padding="VALID"))
    for k, d in (((3, 3), (2, 2)), ((33, 1), (2, 1)), ((32, 1), (2, 1)), ((64, 1), (1, 1)), ((65, 1), (1, 1)), ((3, 3), (3, 3)), ((22, 2), (3, 1)), ((23, 2), (3, 1))):
        add(f"conv k={k} dil={d}", _conv_net(rng, "", ifm=[1, 8, 8, 2], oc=2, k=k, dil=d))
    for k in ((64, 64), (64, 65), (16, 8)):
        add(f"conv k={k}", _conv_net(rng, "", ifm=[1, 4, 4, 1], oc=1, k=k))
    for dt in ("int8", "uint8", "int16"):
        add(f"conv dtype={dt}", _conv_net(rng, "", dtype=dt))
        add(f"conv dtype={dt} per-channel", _conv_net(rng, "", dtype=dt, per_channel=True))
        add(f"dwconv dtype={dt}", _conv_net(rng, "", kind="dw", dtype=dt))
    for bsz in (1, 2):
        add(f"conv batch={bsz}", _conv_net(rng, "", ifm=[bsz, 8, 8, 4]))
        add(f"dwconv batch={bsz}", _conv_net(rng, "", kind="dw", ifm=[bsz, 8, 8, 4]))
    add("conv no bias", _conv_net(rng, "", bias=False))
    for act in (0, 1, 2, 3, 4):
        add(f"conv faf={act}", _conv_net(rng, "", act=act))

    def conv_mod(label, fn, **kw):
        for suffix, net in _conv_net(rng, "", **kw):
            fn(net)
            add(label + suffix, net)

    def bias_vals(vals, dtype="int64"):
        def f(net):
            bt = net.tensors[net.ops[net.tgt].inputs[2]]
            bt.dtype = dtype
            d = np.zeros(bt.shape, dtype=np.int64)
            d[: len(vals)] = vals
            bt.data = d
        return f

    for v in (2 ** 39 - 1, 2 ** 39, 2 ** 40, -(2 ** 39) + 1, -(2 ** 39)):
        conv_mod(f"conv int16 bias40 v={v}", bias_vals([v]), dtype="int16")

    def bias_dtype(dt):
        def f(net):
            bt = net.tensors[net.ops[net.tgt].inputs[2]]
            bt.dtype = dt
            bt.data = np.zeros(bt.shape, dtype=netgen.NP[dt])
        return f

    for dt in ("int32", "int64", "int16", "int8"):
        conv_mod(f"conv bias dtype={dt}", bias_dtype(dt))

    def bias_2d(net):
        bt = net.tensors[net.ops[net.tgt].inputs[2]]
        bt.shape = [1] + list(bt.shape)
        bt.data = np.asarray(bt.data).reshape(bt.shape)
    conv_mod("conv bias 2-D", bias_2d)

    def dyn_weights(net):
        wt = net.tensors[net.ops[net.tgt].inputs[1]]
        wt.data = None
        net.inputs.append(net.ops[net.tgt].inputs[1])
    conv_mod("conv dynamic weights", dyn_weights)
    conv_mod("dwconv dynamic weights", dyn_weights, kind="dw")

    # --force-symmetric-int-weights rewrites the weight zero points BEFORE the supported-operator check; an operator that is then left
    # on the CPU (weights that are not constant) must be written with its own zero points (per tensor and per axis)
    def dyn_asym(per_axis):
        def f(net):
            dyn_weights(net)
            wt = net.tensors[net.ops[net.tgt].inputs[1]]
            n = len(wt.scales) if per_axis else 1
            wt.scales = list(wt.scales[:n]) if len(wt.scales) >= n else [wt.scales[0]] * n
            wt.zps = [((7 * i) % 23) - 11 or 5 for i in range(n)]
            net.extra_opts = ["--force-symmetric-int-weights"]
        return f
    for kind in ("conv", "dw"):
        for per_axis in (False, True):
            for dt in ("int8", "int16"):
                conv_mod(f"{kind} dynamic asymmetric weights per_axis={per_axis} {dt} --force-symmetric-int-weights", dyn_asym(per_axis), kind=kind, dtype=dt,
                         per_channel=per_axis)

    def w_dtype16(net):
        wt = net.tensors[net.ops[net.tgt].inputs[1]]
        wt.dtype = "int16"
        wt.data = np.asarray(wt.data).astype(np.int16)
    conv_mod("conv int16 weights", w_dtype16, dtype="int16")

    def no_quant(idx):
        def f(net):
            t = net.tensors[net.ops[net.tgt].inputs[idx]] if idx >= 0 else net.tensors[net.ops[net.tgt].outputs[0]]
            t.scales, t.zps = None, None
        return f
    for idx, nm in ((0, "ifm"), (1, "weights"), (-1, "ofm")):
        conv_mod(f"conv no quantisation on {nm}", no_quant(idx))

    def big_weights(v, zp=0):
        def f(net):
            wt = net.tensors[net.ops[net.tgt].inputs[1]]
            wt.data = np.full(wt.shape, v, dtype=np.int8)
            wt.zps = [zp] * len(wt.scales)
        return f
    for v, zp in ((127, 0), (-128, 0), (127, -1)):
        conv_mod(f"conv weights sum v={v} zp={zp}", big_weights(v, zp), ifm=[1, 4, 4, 16], oc=2, k=(64, 64), per_channel=False)

    def asym_weights(net):
        wt = net.tensors[net.ops[net.tgt].inputs[1]]
        wt.zps = [3] * len(wt.scales)
    conv_mod("conv int8 asymmetric weights", asym_weights, per_channel=False)
    conv_mod("conv groups 2", lambda net: None, ifm=[1, 8, 8, 4])

    def groups(kic, oc):
        def f(net):
            wt = net.tensors[net.ops[net.tgt].inputs[1]]
            o, kh, kw, _ = wt.shape
            wt.shape = [oc, kh, kw, kic]
            wt.data = np.zeros(wt.shape, dtype=np.int8)
            wt.scales, wt.zps = [wt.scales[0]], [0]
            bt = net.tensors[net.ops[net.tgt].inputs[2]]
            bt.shape, bt.data, bt.scales, bt.zps = [oc], np.zeros([oc], dtype=np.int32), [bt.scales[0]], [0]
            net.tensors[net.ops[net.tgt].outputs[0]].shape[3] = oc
        return f
    for kic, oc in ((2, 4), (3, 4), (2, 3), (1, 4)):
        conv_mod(f"conv groups kernel_ic={kic} oc={oc}", groups(kic, oc), per_channel=False)
    # grouped convolutions outside a documented range: they stay on the CPU as ONE operator (convert_conv_groups must not touch them)
    for lab, kw in (("stride 4x4", dict(stride=(4, 4), k=(1, 1), padding="VALID", ifm=[1, 9, 9, 4])), ("stride 1x5", dict(stride=(1, 5), k=(1, 1), padding="VALID", ifm=[1, 8, 9, 4])),
                    ("dilated height 65", dict(k=(33, 1), dil=(2, 1))), ("batch 2", dict(ifm=[2, 8, 8, 4])), ("in range", dict(stride=(2, 2)))):
        for kic, oc in ((2, 4), (1, 4), (2, 6)):
            conv_mod(f"conv groups kernel_ic={kic} oc={oc} {lab}", groups(kic, oc), per_channel=False, **kw)

    def groups_int16_weights(net):
        groups(2, 4)(net)
        wt = net.tensors[net.ops[net.tgt].inputs[1]]
        wt.dtype, wt.data = "int16", np.zeros(wt.shape, dtype=np.int16)
    conv_mod("conv groups 2 int16 weights", groups_int16_weights, per_channel=False, dtype="int16")
    # depthwise
    for s in ((1, 1), (2, 2), (3, 3), (4, 4), (1, 4)):
        add(f"dwconv stride={s}", _conv_net(rng, "", kind="dw", stride=s, k=(2, 2), padding="VALID", ifm=[1, 8, 8, 4]))
    add("dwconv mult=2 c=1", _conv_net(rng, "", kind="dw", ifm=[1, 8, 8, 1], mult=2))
    add("dwconv mult=2 c=2", _conv_net(rng, "", kind="dw", ifm=[1, 8, 8, 2], mult=2))
    # transpose conv
    for s in ((1, 1), (2, 2), (2, 1), (1, 2), (3, 3)):
        for p in ("SAME", "VALID"):
            add(f"tconv stride={s} {p}", _conv_net(rng, "", kind="tconv", ifm=[1, 4, 4, 4], stride=s, padding=p))
    add("tconv 2x1 ih=1 kh=1", _conv_net(rng, "", kind="tconv", ifm=[1, 1, 4, 4], k=(1, 3), stride=(1, 2), padding="SAME"))

    def tconv_bad_ofm(net):
        o = net.tensors[net.ops[net.tgt].outputs[0]]
        o.shape[1] += 1
        st = net.tensors[net.ops[net.tgt].inputs[0]]
        st.data = np.asarray(o.shape, dtype=np.int32)
    conv_mod("tconv ofm height off by one", tconv_bad_ofm, kind="tconv", ifm=[1, 4, 4, 4])

    # ---- pooling -----------------------------------------------------------------------------------------------
    for kind in ("MAX_POOL_2D", "AVERAGE_POOL_2D"):
        for s in ((1, 1), (2, 2), (3, 3), (4, 4), (1, 4), (4, 1), (1, 6)):
            for p in ("SAME", "VALID"):
                add(f"{kind} stride={s} {p}", single(rng, lambda b, x: b.pool(x, kind, (2, 2), s, p), ifm=(1, 8, 12, 4)))
        for k in ((8, 8), (9, 8), (8, 9), (1, 9)):
            for p in ("SAME", "VALID"):
                add(f"{kind} k={k} {p}", single(rng, lambda b, x: b.pool(x, kind, k, (1, 1), p), ifm=(1, 12, 12, 4)))
        for kh in (256, 257):
            add(f"{kind} kh={kh} VALID", single(rng, lambda b, x: b.pool(x, kind, (kh, 1), (1, 1), "VALID"), ifm=(1, 257, 2, 2)))
        add(f"{kind} k=256x257 VALID", single(rng, lambda b, x: b.pool(x, kind, (256, 257), (1, 1), "VALID"), ifm=(1, 256, 257, 1)))
        add(f"{kind} k=256x256 VALID", single(rng, lambda b, x: b.pool(x, kind, (256, 256), (1, 1), "VALID"), ifm=(1, 256, 256, 1)))
        for dt in ("uint8", "int16"):
            add(f"{kind} {dt}", single(rng, lambda b, x: b.pool(x, kind), dtype=dt))
        add(f"{kind} batch 2", single(rng, lambda b, x: b.pool(x, kind), ifm=(2, 8, 8, 4)))
        for pad in ("SAME", "VALID"):
            # filter == stride == IFM HxW (fixup_pool_strides rewrites these before the check) left on the CPU for another reason
            add(f"{kind} whole extent {pad} batch 2", single(rng, lambda b, x, pad=pad: b.pool(x, kind, (6, 5), (6, 5), pad), ifm=(2, 6, 5, 4)))
            add(f"{kind} whole extent {pad} batch 1", single(rng, lambda b, x, pad=pad: b.pool(x, kind, (6, 5), (6, 5), pad), ifm=(1, 6, 5, 4)))

            def pool_i32(b, x, pad=pad):
                o = b.pool(x, kind, (4, 4), (4, 4), pad)
                b.t(o).dtype = "int16"
                b.t(o).zps = [0]
                return o
            add(f"{kind} whole extent {pad} type mismatch", single(rng, pool_i32, ifm=(1, 4, 4, 4)))
        add(f"{kind} stride 4x4 ofm 1x1", single(rng, lambda b, x: b.pool(x, kind, (4, 4), (4, 4), "VALID"), ifm=(1, 4, 4, 4)))
        # kernel == stride > 3 coinciding with ONE extent of the IFM only (or with the transposed extents): not the whole-extent
        # pooling that fixup_pool_strides rewrites, so the documented stride range keeps it on the CPU (seeded change C16-r6m1)
        for ih, iw in ((8, 4), (4, 8), (12, 4), (4, 12)):
            add(f"{kind} k=s=4x4 on {ih}x{iw}", single(rng, lambda b, x: b.pool(x, kind, (4, 4), (4, 4), "VALID"), ifm=(1, ih, iw, 4)))
        add(f"{kind} k=s=4x6 on 6x4 (transposed extents)", single(rng, lambda b, x: b.pool(x, kind, (4, 6), (4, 6), "SAME"), ifm=(1, 6, 4, 4)))
        add(f"{kind} k=s=5x5 on 5x10", single(rng, lambda b, x: b.pool(x, kind, (5, 5), (5, 5), "VALID"), ifm=(1, 5, 10, 4)))
    # ---- fully connected ----------------------------------------------------------------------------------------
    for ifm in ((1, 16), (4, 16), (2, 2, 16), (2, 1, 1, 16), (1, 2, 2, 16)):
        add(f"fc ifm={ifm}", single(rng, lambda b, x: b.fc(x, 8), ifm=ifm))
    for dt in ("uint8", "int16"):
        add(f"fc {dt}", single(rng, lambda b, x: b.fc(x, 8), ifm=(1, 16), dtype=dt))

    def fc_dyn(b, net):
        wt = net.tensors[net.ops[net.tgt].inputs[1]]
        wt.data = None
        net.inputs.append(net.ops[net.tgt].inputs[1])
    add("fc dynamic weights", single(rng, lambda b, x: b.fc(x, 8), ifm=(1, 16), post=fc_dyn))
    # ---- binary elementwise ---------------------------------------------------------------------------------------
    bshapes = [((1, 4, 4, 8), (1, 4, 4, 8)), ((1, 4, 4, 8), (1, 1, 1, 8)), ((1, 4, 4, 8), (1, 1, 1, 1)), ((1, 4, 4, 8), (8,)), ((1, 4, 4, 8), (1, 4, 1, 8)),
               ((1, 1, 4, 8), (1, 4, 1, 8)), ((2, 4, 4, 8), (2, 4, 4, 8)), ((4, 8), (4, 8)), ((1, 4, 4, 8), (1, 4, 4, 2))]
    for kind in ("ADD", "SUB", "MUL", "MINIMUM", "MAXIMUM"):
        for a, s2 in bshapes:
            def bld(b, x, s2=s2, kind=kind, a=a):
                y = b.input(list(s2)) if kind in ("MINIMUM", "MAXIMUM") else b.input(list(s2))
                if kind in ("MINIMUM", "MAXIMUM"):
                    b.t(y).scales, b.t(y).zps = b.t(x).scales, b.t(x).zps
                o = b.binary(kind, x, y)
                if len(s2) == len(a) and any(p != q and p != 1 and q != 1 for p, q in zip(a, s2)):
                    b.t(o).shape = list(a)
                return o
            add(f"{kind} a={a} b={s2}", single(rng, bld, ifm=a))
        for dt in ("uint8", "int16"):
            add(f"{kind} {dt}", single(rng, lambda b, x, kind=kind: b.binary(kind, x, x), dtype=dt))

        def int32_bin(b, x, kind=kind):
            y = b.net.add(T(b.fresh("input"), [1, 4, 4, 8], "int32"))
            b.net.inputs.append(y)
            b.t(x).dtype, b.t(x).scales, b.t(x).zps = "int32", None, None
            o = b.net.add(T(b.fresh("t"), [1, 4, 4, 8], "int32"))
            on = {"ADD": "AddOptions", "SUB": "SubOptions", "MUL": "MulOptions"}.get(kind)
            b.net.ops.append(Op(kind, [x, y], [o], (on, dict(FusedActivationFunction=0)) if on else ("MaximumMinimumOptions", {})))
            return o
        add(f"{kind} int32 unquantised", single(rng, int32_bin, ifm=(1, 4, 4, 8)))

        def const_scalar(b, x, kind=kind):
            c = b.const([], "int8", [3], [0.05], [0])
            return b.binary(kind, x, c)
        add(f"{kind} scalar constant", single(rng, const_scalar))
    for kind in ("MINIMUM", "MAXIMUM"):
        def mm(b, x, kind=kind):
            y = b.input([1, 4, 4, 8])       # its own random quantisation: differs from the OFM's
            return b.binary(kind, x, y)
        add(f"{kind} quantisation mismatch", single(rng, mm, ifm=(1, 4, 4, 8)))

        # scales that differ by one or a few float32 steps (and equal zero points): "must match" is exact equality of the
        # stored values, so these stay on the CPU (seeded change C16-r6m2: a tolerant is_scaling_equal)
        for steps in (1, 3, 40):
            def mm_ulp(b, x, kind=kind, steps=steps, on_output=True):
                xt = b.t(x)
                y = b.input(list(xt.shape))
                yt = b.t(y)
                yt.scales, yt.zps = list(xt.scales), list(xt.zps)
                o = b.binary(kind, x, y)
                sc = np.float32(xt.scales[0])
                for _ in range(steps):
                    sc = np.nextafter(sc, np.float32(np.inf), dtype=np.float32)
                b.t(o if on_output else y).scales = [float(sc)]
                return o
            add(f"{kind} OFM scale {steps} float32 step(s) above the inputs'", single(rng, mm_ulp, ifm=(1, 4, 4, 8)))
            add(f"{kind} second input scale {steps} float32 step(s) above", single(rng, lambda b, x, f=mm_ulp: f(b, x, on_output=False), ifm=(1, 4, 4, 8)))

    def mixed_types(b, x):
        y = b.input([1, 4, 4, 8], "uint8")
        return b.binary("ADD", x, y)
    add("ADD int8+uint8", single(rng, mixed_types, ifm=(1, 4, 4, 8)))

    def out_type(b, x):
        o = b.binary("ADD", x, x)
        b.t(o).dtype = "uint8"
        b.t(o).zps = [b.t(o).zps[0] + 128]      # a zero point inside the range of the new type
        return o
    add("ADD int8 -> uint8", single(rng, out_type, ifm=(1, 4, 4, 8)))
    # ---- unary ------------------------------------------------------------------------------------------------------
    for kind in ("GELU", "LOG", "SQRT", "EXP", "RSQRT"):
        for dt in ("int8", "int16", "uint8"):
            def lut_op(b, x, kind=kind):
                o = b.unary(kind, x)
                if kind == "GELU":
                    b.net.ops[-1].opts = ("GeluOptions", dict(Approximate=False))
                return o
            add(f"{kind} {dt}", single(rng, lut_op, dtype=dt, ifm=(1, 4, 4, 8)))
    for kind in ("RELU", "RELU6", "RELU_N1_TO_1", "LOGISTIC", "TANH", "LEAKY_RELU", "HARD_SWISH", "SOFTMAX", "ABS", "QUANTIZE"):
        for dt in ("int8", "uint8", "int16"):
            for shape in ((1, 4, 4, 8), (2, 4, 4, 8), (4, 8), (1, 1, 4, 4, 8)):
                if kind == "QUANTIZE":
                    add(f"{kind} {dt} {shape}", single(rng, lambda b, x: b.quantize(x), dtype=dt, ifm=shape))
                else:
                    add(f"{kind} {dt} {shape}", single(rng, lambda b, x, kind=kind: b.unary(kind, x), dtype=dt, ifm=shape))

        def out_dt(b, x, kind=kind):
            o = b.unary(kind, x) if kind != "QUANTIZE" else b.quantize(x)
            b.t(o).dtype = "int16"
            b.t(o).zps = [0]
            return o
        add(f"{kind} int8 -> int16", single(rng, out_dt))
    for q_in, q_out in (("int8", "uint8"), ("uint8", "int8"), ("int16", "int8"), ("int8", "int16")):
        add(f"QUANTIZE {q_in}->{q_out}", single(rng, lambda b, x: b.quantize(x, q_out), dtype=q_in))

    def softmax_beta(beta):
        def f(b, x):
            o = b.unary("SOFTMAX", x)
            b.net.ops[-1].opts = ("SoftmaxOptions", dict(Beta=beta))
            return o
        return f
    for beta in (1.0, 0.5, 0.0, -1.0):
        add(f"SOFTMAX beta={beta}", single(rng, softmax_beta(beta), ifm=(1, 10)))
    # ---- mean ------------------------------------------------------------------------------------------------------------
    def mean(axes, keep=True):
        def f(b, x):
            xt = b.t(x)
            ax = b.const([len(axes)], "int32", list(axes))
            pos = [a % len(xt.shape) for a in axes]
            oshape = [1 if i in pos else d for i, d in enumerate(xt.shape)] if keep else [d for i, d in enumerate(xt.shape) if i not in pos]
            o = b.fm(oshape or [1], xt.dtype)
            b.net.ops.append(Op("MEAN", [x, ax], [o], ("ReducerOptions", dict(KeepDims=keep))))
            return o
        return f
    for shape, axes in (((1, 8, 8, 4), (1, 2)), ((1, 8, 8, 4), (1,)), ((1, 8, 8, 4), (2,)), ((1, 8, 8, 4), (3,)), ((1, 1, 8, 4), (3,)), ((1, 8, 8, 4), (0,)),
                        ((2, 8, 8, 4), (1, 2)), ((8, 8, 4), (0, 1)), ((8, 8, 4), (2,)), ((8, 4), (0, 1)), ((8, 4), (1,)), ((1, 1, 4097, 2), (2,)),
                        ((1, 1, 4096, 2), (2,)), ((1, 1, 1, 4097), (3,)), ((1, 1, 1, 4096), (3,)), ((1, 8, 8, 4), (1, 2, 3))):
        for dt in ("int8", "uint8", "int16"):
            add(f"MEAN {shape} axes={axes} {dt}", single(rng, mean(axes), dtype=dt, ifm=shape))
    import itertools
    for shape in ((8, 4), (1, 4), (8, 1), (1, 8, 16), (8, 1, 16), (8, 16, 1), (8, 4, 16), (1, 1, 16),
                  (1, 8, 8, 4), (1, 1, 8, 4), (1, 8, 1, 4), (1, 8, 8, 1), (2, 8, 8, 4), (2, 1, 8, 4)):
        for r in range(1, len(shape) + 1):
            for axes in itertools.combinations(range(len(shape)), r):
                add(f"MEAN rank{len(shape)} {shape} axes={axes}", single(rng, mean(axes, r % 2 == 1), dtype="int8", ifm=shape, nbk=1))
    add("MEAN int16 256x257", single(rng, mean((1, 2)), dtype="int16", ifm=(1, 256, 257, 1)))
    add("MEAN int16 256x256", single(rng, mean((1, 2)), dtype="int16", ifm=(1, 256, 256, 1)))
    add("MEAN keep_dims false", single(rng, mean((1, 2), False)))
    # ---- resize -----------------------------------------------------------------------------------------------------------
    def resize(kind, ofm_hw, align, half, size=None):
        def f(b, x):
            xt = b.t(x)
            n, h, w, c = xt.shape
            st = b.const([2], "int32", list(size or ofm_hw))
            o = b.fm([n, ofm_hw[0], ofm_hw[1], c], xt.dtype, scale=xt.scales[0], zp=xt.zps[0])
            on = "ResizeBilinearOptions" if kind == "RESIZE_BILINEAR" else "ResizeNearestNeighborOptions"
            b.net.ops.append(Op(kind, [x, st], [o], (on, dict(AlignCorners=align, HalfPixelCenters=half))))
            return o
        return f
    for kind in ("RESIZE_BILINEAR", "RESIZE_NEAREST_NEIGHBOR"):
        for ifm, ofm in (((4, 4), (8, 8)), ((4, 4), (16, 16)), ((4, 4), (32, 32)), ((4, 4), (12, 12)), ((4, 4), (64, 64)), ((4, 4), (8, 16)), ((4, 4), (4, 4)),
                         ((1, 1), (5, 7)), ((4, 4), (7, 7)), ((4, 4), (13, 13)), ((3, 5), (5, 9)), ((2, 2), (3, 3))):
            for align, half in ((False, False), (True, False), (False, True), (True, True)):
                add(f"{kind} {ifm}->{ofm} align={align} half={half}", single(rng, resize(kind, ofm, align, half), ifm=(1, ifm[0], ifm[1], 4), nbk=1))
        add(f"{kind} size tensor mismatch", single(rng, resize(kind, (8, 8), False, False, size=(8, 9)), ifm=(1, 4, 4, 4)))
    # ---- pad ------------------------------------------------------------------------------------------------------------------
    for pads, lab in (([[0, 0], [1, 1], [1, 1], [0, 0]], "hw"), ([[0, 0], [0, 0], [0, 0], [1, 1]], "c"), ([[1, 0], [0, 0], [0, 0], [0, 0]], "n"),
                      ([[0, 0], [2, 0], [0, 3], [0, 0]], "hw asym"), ([[0, 0], [1, 1], [1, 1], [2, 2]], "hwc"), ([[0, 0], [0, 0], [0, 0], [0, 0]], "zero")):
        for dt in ("int8", "uint8", "int16"):
            add(f"PAD {lab} {dt}", single(rng, lambda b, x, pads=pads: b.pad(x, pads), dtype=dt, also=FOLD))

        def pad64(b, x, pads=pads):
            o = b.pad(x, pads)
            pt = b.t(b.net.ops[-1].inputs[1])
            pt.dtype, pt.data = "int64", np.asarray(pt.data).astype(np.int64)
            return o
        add(f"PAD {lab} int64 paddings", single(rng, pad64, also=FOLD))

    def pad3(b, x):
        xt = b.t(x)
        pt = b.const([3, 2], "int32", [[1, 1], [1, 1], [0, 0]])
        o = b.fm([xt.shape[0] + 2, xt.shape[1] + 2, xt.shape[2]], xt.dtype, scale=xt.scales[0], zp=xt.zps[0])
        b.net.ops.append(Op("PAD", [x, pt], [o], ("PadOptions", {})))
        return o
    add("PAD rank 3", single(rng, pad3, ifm=(4, 4, 8)))

    def pad_wrong(b, x):
        o = b.pad(x, [[0, 0], [1, 1], [1, 1], [0, 0]])
        b.t(o).shape[1] += 1
        return o
    add("PAD wrong output shape", single(rng, pad_wrong, also=FOLD))

    # PADs that stay on the CPU for a reason that leaves the padding itself foldable (1 row / column): the VALID consumer is accelerated
    def pad_cpu(how):
        def f(b, x):
            o = b.pad(x, [[0, 0], [1, 1], [1, 1], [0, 0]])
            op = b.net.ops[-1]
            if how == "dynamic paddings":
                pt = b.t(op.inputs[1])
                pt.data = None
                b.net.inputs.append(op.inputs[1])
            elif how == "output one row more":
                b.t(o).shape[1] += 1
            elif how == "output type int16":
                b.t(o).dtype = "int16"
            elif how == "no quantisation on input":
                b.t(op.inputs[0]).scales, b.t(op.inputs[0]).zps = None, None
            return o
        return f
    for how in ("dynamic paddings", "output one row more", "output type int16", "no quantisation on input", "batch 2"):
        add(f"PAD left on the CPU ({how})", single(rng, pad_cpu(how), ifm=(2, 8, 8, 4) if how == "batch 2" else (1, 8, 8, 4), also=FOLD))
    # ---- reshape / concat / split / strided slice ---------------------------------------------------------------------------------
    for ifm, ofm in (((1, 4, 4, 8), (1, 128)), ((1, 4, 4, 8), (1, 1, 16, 8)), ((4, 4, 4, 8), (4, 128)), ((1, 4, 4, 8), (2, 2, 4, 8))):
        add(f"RESHAPE {ifm}->{ofm}", single(rng, lambda b, x, ofm=ofm: b.reshape(x, list(ofm)), ifm=ifm))

    def reshape_qmismatch(b, x):
        o = b.reshape(x, [1, 128])
        b.t(o).scales = [b.t(o).scales[0] * 2]
        return o
    add("RESHAPE quantisation mismatch", single(rng, reshape_qmismatch))
    # memory-only operators that violate a listed constraint: they must remain in the output file as themselves
    def reshape_like(kind, how):
        def f(b, x):
            xt = b.t(x)
            n = int(np.prod(xt.shape))
            if kind == "RESHAPE":
                oshape = [1, n]
                o = b.reshape(x, oshape)
            elif kind == "SQUEEZE":
                oshape = [d for d in xt.shape if d != 1] or [1]
                o = b.fm(oshape, xt.dtype, scale=xt.scales[0] if xt.scales else None, zp=xt.zps[0] if xt.zps else None)
                b.net.ops.append(Op("SQUEEZE", [x], [o], ("SqueezeOptions", dict(SqueezeDims=[i for i, d in enumerate(xt.shape) if d == 1]))))
            else:
                oshape = list(xt.shape[1:]) if len(xt.shape) == 4 and xt.shape[0] == 1 else list(xt.shape)
                ax = b.const([1], "int32", [0])
                # EXPAND_DIMS of a rank-3 view: feed it a squeezed tensor first so the result is rank 4 again
                if len(xt.shape) == 4:
                    sq = b.fm(oshape, xt.dtype, scale=xt.scales[0] if xt.scales else None, zp=xt.zps[0] if xt.zps else None)
                    b.net.ops.append(Op("RESHAPE", [x, b.const([len(oshape)], "int32", oshape)], [sq], ("ReshapeOptions", dict(NewShape=oshape))))
                    x = sq
                o = b.fm([1] + oshape, xt.dtype, scale=xt.scales[0] if xt.scales else None, zp=xt.zps[0] if xt.zps else None)
                b.net.ops.append(Op("EXPAND_DIMS", [x, ax], [o], ("ExpandDimsOptions", {})))
            op = b.net.ops[-1]
            ot, it = b.t(o), b.t(op.inputs[0])
            if how == "quant scale":
                ot.scales = [ot.scales[0] * 2]
            elif how == "quant zero point":
                ot.zps = [ot.zps[0] + 1 if ot.zps[0] < 100 else ot.zps[0] - 1]
            elif how == "no quant":
                ot.scales, ot.zps = None, None
            elif how == "dynamic shape" and kind == "RESHAPE":
                st = b.net.add(T(b.fresh("input"), [len(oshape)], "int32"))
                b.net.inputs.append(st)
                op.inputs[1] = st
            elif how == "elements":
                ot.shape = list(ot.shape[:-1]) + [ot.shape[-1] + 1]
            elif how == "int32":
                for t in (it, ot):
                    t.dtype, t.scales, t.zps = "int32", [0.5], [0]
            return o
        return f
    for kind in ("RESHAPE", "SQUEEZE", "EXPAND_DIMS"):
        for how in ("ok", "quant scale", "quant zero point", "no quant", "dynamic shape", "elements", "int32"):
            if how == "dynamic shape" and kind != "RESHAPE":
                continue
            for ifm in ((1, 4, 4, 8), (1, 1, 16, 8)):
                add(f"{kind} {how} {ifm}", single(rng, reshape_like(kind, how), ifm=ifm))
    for axis in (3, 2, 1, 0, -1):
        def cc(b, x, axis=axis):
            y = b.input(list(b.t(x).shape))
            return b.concat([x, y], axis % 4 if axis >= 0 else axis)
        add(f"CONCATENATION axis={axis}", single(rng, cc))

    def cc_bad(b, x):
        y = b.input([1, 4, 5, 8])
        o = b.concat([x, y], 3)
        return o
    add("CONCATENATION mismatching dims", single(rng, cc_bad, ifm=(1, 4, 4, 8)))
    for axis, num in ((3, 2), (3, 4), (2, 2), (1, 2), (3, 3)):
        add(f"SPLIT axis={axis} num={num}", single(rng, lambda b, x, axis=axis, num=num: b.split(x, num, axis), ifm=(1, 4, 4, 8)))

    def ss(begin, end, strides=(1, 1, 1, 1), masks=None):
        def f(b, x):
            o = b.strided_slice(x, list(begin), list(end))
            op = b.net.ops[-1]
            b.t(op.inputs[3]).data = np.asarray(strides, dtype=np.int32)
            if masks:
                op.opts[1].update(masks)
            return o
        return f
    for begin, end, lab in (((0, 1, 1, 0), (1, 5, 5, 4), "ok"), ((0, 0, 0, 0), (1, 8, 8, 4), "full"), ((0, 2, 0, 0), (1, 6, 8, 2), "hc")):
        add(f"STRIDED_SLICE {lab}", single(rng, ss(begin, end), ifm=(1, 8, 8, 4)))
    add("STRIDED_SLICE stride 2", single(rng, ss((0, 0, 0, 0), (1, 8, 8, 4), (1, 2, 1, 1)), ifm=(1, 8, 8, 4)))
    add("STRIDED_SLICE ellipsis", single(rng, ss((0, 1, 1, 0), (1, 5, 5, 4), masks={"EllipsisMask": 1}), ifm=(1, 8, 8, 4)))
    add("STRIDED_SLICE begin_mask", single(rng, ss((0, 1, 1, 0), (1, 5, 5, 4), masks={"BeginMask": 2}), ifm=(1, 8, 8, 4)))
    add("STRIDED_SLICE end<begin", single(rng, ss((0, 5, 1, 0), (1, 5, 5, 4)), ifm=(1, 8, 8, 4)))
    add("SPLIT batch 2", single(rng, lambda b, x: b.split(x, 2, 3), ifm=(2, 4, 4, 8)))
    add("STRIDED_SLICE batch 2", single(rng, ss((0, 1, 1, 0), (2, 5, 5, 4)), ifm=(2, 8, 8, 4)))
    # ---- operators that are never accelerated ----------------------------------------------------------------------------------------
    for which in ("custom", "floor_div", "sin_like"):
        add(f"cpu op {which}", single(rng, lambda b, x, which=which: b.cpu_op(x, which)))
    # ---- neighbour effects: memory-only operators, constant inputs, fusing ------------------------------------------------------------
    def chain(*steps):
        def f(b, x):
            cur = x
            for st in steps:
                cur = st(b, cur)
                if cur is None:
                    return None
                if isinstance(cur, list):
                    cur = cur[0]
            return cur
        return f
    cpu = lambda b, x: b.cpu_op(x, "custom")  # noqa: E731
    relu = lambda b, x: b.unary("RELU", x)  # noqa: E731
    conv = lambda b, x: b.conv(x, 4, (3, 3), (1, 1), (1, 1), "SAME")  # noqa: E731
    resh = lambda shape: (lambda b, x: b.reshape(x, list(shape)))  # noqa: E731
    pats = {
        "cpu-RESHAPE-cpu": chain(cpu, resh((1, 8, 4, 8)), cpu),
        "cpu-RELU-cpu": chain(cpu, relu, cpu),
        "conv-RESHAPE-cpu": chain(conv, resh((1, 8, 4, 8)), cpu),
        "cpu-RESHAPE-conv": chain(cpu, resh((1, 4, 16, 4)), conv),
        "RESHAPE-RESHAPE": chain(resh((1, 8, 4, 8)), resh((1, 256))),
        "RESHAPE only to output": chain(resh((1, 256))),
        "conv-RESHAPE": chain(conv, resh((1, 256))),
        "PAD-conv": chain(lambda b, x: b.pad(x, [[0, 0], [1, 1], [1, 1], [0, 0]]), lambda b, x: b.conv(x, 4, (3, 3), (1, 1), (1, 1), "VALID")),
        "PAD(c)-conv": chain(lambda b, x: b.pad(x, [[0, 0], [0, 0], [0, 0], [2, 2]]), conv),
        "conv-RELU-TANH": chain(conv, relu, lambda b, x: b.unary("TANH", x)),
        "SPLIT-cpu": chain(lambda b, x: b.split(x, 2, 3), cpu),
        "SLICE-cpu": chain(lambda b, x: b.strided_slice(x, [0, 1, 1, 0], [1, 5, 5, 4]), cpu),
        "cpu-SLICE-conv": chain(cpu, lambda b, x: b.strided_slice(x, [0, 1, 1, 0], [1, 5, 5, 4]), conv),
        "conv(stride 4)-RELU": chain(lambda b, x: b.conv(x, 4, (1, 1), (4, 4), (1, 1), "VALID"), relu),
        "MEAN-RESHAPE-fc": chain(lambda b, x: b.mean_hw(x, True), resh((1, 4)), lambda b, x: b.fc(x, 8)),
        "QUANTIZE-QUANTIZE": chain(lambda b, x: b.quantize(x), lambda b, x: b.quantize(x, "uint8")),
        "avgpool-LOGISTIC(int16 out)": chain(lambda b, x: b.pool(x, "AVERAGE_POOL_2D"), lambda b, x: b.unary("LOGISTIC", x)),
    }

    def concat_cpu(b, x):
        y = b.cpu_op(x, "custom")
        return b.concat([x, y], 3)
    pats["CONCAT(input, cpu)"] = concat_cpu

    def const_quantize(b, x):
        c = b.const([1, 8, 8, 4], "int8", np.arange(256) % 100, [0.05], [0])
        q = b.quantize(c)
        return b.binary("ADD", x, q)
    pats["QUANTIZE(const)+ADD"] = const_quantize

    def const_add(b, x):
        c1 = b.const([1, 8, 8, 4], "int8", np.arange(256) % 50, [0.05], [0])
        c2 = b.const([1, 8, 8, 4], "int8", np.arange(256) % 30, [0.05], [0])
        a = b.binary("ADD", c1, c2)
        return b.binary("MUL", x, a)
    pats["ADD(const,const)*x"] = const_add

    def two_outputs(b, x):
        y = b.conv(x, 4, (3, 3), (1, 1), (1, 1), "SAME")
        z = b.cpu_op(y, "custom")
        w = b.unary("RELU", y)
        return [z, w]
    pats["conv -> (cpu, RELU) two outputs"] = two_outputs
    for name, pat in pats.items():
        for dt in ("int8", "uint8"):
            add(f"pattern {name} {dt}", single(rng, pat, dtype=dt))
    # ---- core matrix: representative instances inside / just outside a documented range x EVERY neighbour kind, each compiled for an
    # accelerator without and one with reserved LUT banks (Net.both_classes) ------------------------------------------------------------------
    def cv(**kw):
        return lambda b, x: b.conv(x, kw.get("oc", 4), kw.get("k", (1, 1)), kw.get("stride", (1, 1)), kw.get("dil", (1, 1)), kw.get("padding", "VALID"),
                                   **{k: v for k, v in kw.items() if k in ("act", "per_channel", "bias")})

    def add_mixed(b, x):
        return b.binary("ADD", x, b.input(list(b.t(x).shape), "uint8"))

    def add_two(kind):
        return lambda b, x: b.binary(kind, x, b.input(list(b.t(x).shape)))

    def fc_dynamic(b, x):
        o = b.fc(x, 8)
        w = b.net.ops[-1].inputs[1]
        b.t(w).data = None
        b.net.inputs.append(w)
        return o

    core = [
        ("conv 1x1 stride 1", cv(), {}), ("conv 1x1 stride 3x3", cv(stride=(3, 3)), dict(ifm=(1, 9, 9, 4))), ("conv 1x1 stride 4x4", cv(stride=(4, 4)), dict(ifm=(1, 9, 9, 4))),
        ("conv 1x1 stride 4x1", cv(stride=(4, 1)), dict(ifm=(1, 16, 16, 4))), ("conv 3x3 SAME", cv(k=(3, 3), padding="SAME"), {}),
        ("conv dilated height 65", cv(k=(33, 1), dil=(2, 1), padding="SAME", oc=2), dict(ifm=(1, 8, 8, 2))), ("conv batch 2", cv(), dict(ifm=(2, 8, 8, 4))),
        ("conv int16", cv(), dict(dtype="int16")), ("conv uint8 stride 4x4", cv(stride=(4, 4)), dict(ifm=(1, 9, 9, 4), dtype="uint8")),
        ("dwconv stride 1", lambda b, x: b.dwconv(x, (2, 2), (1, 1), (1, 1), "VALID"), {}), ("dwconv stride 4x4", lambda b, x: b.dwconv(x, (2, 2), (4, 4), (1, 1), "VALID"), dict(ifm=(1, 10, 10, 4))),
        ("tconv stride 2", lambda b, x: b.transpose_conv(x, 4, (3, 3), (2, 2), "SAME"), dict(ifm=(1, 4, 4, 4))),
        ("tconv stride 3", lambda b, x: b.transpose_conv(x, 4, (3, 3), (3, 3), "SAME"), dict(ifm=(1, 4, 4, 4))),
        ("MAX_POOL_2D stride 2", lambda b, x: b.pool(x, "MAX_POOL_2D", (2, 2), (2, 2), "VALID"), dict(ifm=(1, 8, 12, 4))),
        ("MAX_POOL_2D stride 4x4", lambda b, x: b.pool(x, "MAX_POOL_2D", (2, 2), (4, 4), "VALID"), dict(ifm=(1, 10, 14, 4))),
        ("MAX_POOL_2D 1x1 stride 4x1", lambda b, x: b.pool(x, "MAX_POOL_2D", (1, 1), (4, 1), "VALID"), dict(ifm=(1, 16, 16, 4))),
        ("AVERAGE_POOL_2D stride 2", lambda b, x: b.pool(x, "AVERAGE_POOL_2D", (2, 2), (2, 2), "VALID"), dict(ifm=(1, 8, 12, 4))),
        ("AVERAGE_POOL_2D stride 1x4", lambda b, x: b.pool(x, "AVERAGE_POOL_2D", (2, 2), (1, 4), "VALID"), dict(ifm=(1, 8, 14, 4))),
        ("AVERAGE_POOL_2D k 9x8 SAME", lambda b, x: b.pool(x, "AVERAGE_POOL_2D", (9, 8), (1, 1), "SAME"), dict(ifm=(1, 12, 12, 4))),
        ("MAX_POOL_2D batch 2", lambda b, x: b.pool(x, "MAX_POOL_2D"), dict(ifm=(2, 8, 8, 4))),
        ("fc", lambda b, x: b.fc(x, 8), dict(ifm=(1, 16))), ("fc dynamic weights", fc_dynamic, dict(ifm=(1, 16))),
        ("ADD", add_two("ADD"), dict(ifm=(1, 4, 4, 8))), ("MUL", add_two("MUL"), dict(ifm=(1, 4, 4, 8))), ("SUB batch 2", add_two("SUB"), dict(ifm=(2, 4, 4, 8))),
        ("ADD int8+uint8", add_mixed, dict(ifm=(1, 4, 4, 8))), ("MAXIMUM quantisation mismatch", add_two("MAXIMUM"), dict(ifm=(1, 4, 4, 8))),
        ("MEAN hw", mean((1, 2)), {}), ("MEAN batch axis", mean((0,)), {}), ("MEAN hw batch 2", mean((1, 2)), dict(ifm=(2, 8, 8, 4))),
        ("RESIZE_BILINEAR x2", resize("RESIZE_BILINEAR", (8, 8), False, False), dict(ifm=(1, 4, 4, 4))),
        ("RESIZE_BILINEAR 4->7", resize("RESIZE_BILINEAR", (7, 7), False, False), dict(ifm=(1, 4, 4, 4))),
        ("RESIZE_NEAREST_NEIGHBOR x2", resize("RESIZE_NEAREST_NEIGHBOR", (8, 8), False, False), dict(ifm=(1, 4, 4, 4))),
        ("SOFTMAX", softmax_beta(1.0), dict(ifm=(1, 10))), ("SOFTMAX beta -1", softmax_beta(-1.0), dict(ifm=(1, 10))),
        ("LEAKY_RELU", lambda b, x: b.unary("LEAKY_RELU", x), {}), ("TANH", lambda b, x: b.unary("TANH", x), {}), ("TANH batch 2", lambda b, x: b.unary("TANH", x), dict(ifm=(2, 4, 4, 8))),
        ("RELU6 batch 2", lambda b, x: b.unary("RELU6", x), dict(ifm=(2, 4, 4, 8))), ("QUANTIZE", lambda b, x: b.quantize(x), {}), ("QUANTIZE batch 2", lambda b, x: b.quantize(x), dict(ifm=(2, 4, 4, 8))),
        ("RESHAPE", lambda b, x: b.reshape(x, [1, 16, 4, 4]), {}), ("RESHAPE quantisation mismatch", reshape_like("RESHAPE", "quant scale"), {}),
        ("PAD hw", lambda b, x: b.pad(x, [[0, 0], [1, 1], [1, 1], [0, 0]]), {}), ("PAD batch", lambda b, x: b.pad(x, [[1, 0], [0, 0], [0, 0], [0, 0]]), {}),
        ("CONCATENATION", lambda b, x: b.concat([x, b.input(list(b.t(x).shape))], 3), {}), ("SPLIT", lambda b, x: b.split(x, 2, 3), dict(ifm=(1, 4, 4, 8))),
        ("STRIDED_SLICE", ss((0, 1, 1, 0), (1, 5, 5, 4)), {}), ("STRIDED_SLICE stride 2", ss((0, 0, 0, 0), (1, 8, 8, 4), (1, 2, 1, 1)), {}),
        ("cpu op custom", lambda b, x: b.cpu_op(x, "custom"), {}), ("cpu op floor_div", lambda b, x: b.cpu_op(x, "floor_div"), {}),
    ]
    for name, bld, kw in core:
        for n in range(len(NEIGHBOURS)):
            net = _one(rng, bld, kw.get("dtype", "int8"), kw.get("ifm", (1, 8, 8, 4)), None, False, n)
            if net is not None:
                nb = NEIGHBOURS[n]
                add(f"core {name}" + (f" [{nb[0]} in front]" if nb[1] == "before" else f" [then {nb[0]}]"), net)
    # ---- small multi-operator networks --------------------------------------------------------------------------------------------------
    nmulti = 1200 if thorough else 80
    for i in range(nmulti):
        prof = rng.choice(["mixed", "cpu", "elementwise", "mixed"])
        net = netgen.random_net(rng, i, prof, max_ops=4)
        add(f"random {prof} #{i}", net)
    return out
