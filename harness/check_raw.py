#!/venv/bin/python
"""Raw-output stream of C12 / C17 on its own (development aid; `./check C12` and `./check C17` run the same stream).
Evidence and replays are written under the id C12-raw so that evidence/C12.json is left alone."""
import common
import pipe_common
import pipeline
import raw_stream
from common import Check, main_wrapper


def main():
    ck = Check("C12", "translation_validation")
    ck.pid = "C12-raw"
    ck.lean_stage(["VelaVerif.Props.C12Raw"])
    pipeline.load_vela()
    raw_stream.install()
    profiles = ["cpu", "mixed", "pattern", "cascade", "weights", "pattern", "lut", "elementwise"]
    outs = pipe_common.run_corpus(ck, 1600 if ck.thorough else 160, profiles=profiles,
                                  want={"out_model": True, "extra": raw_stream.extra_c17}, corpus_first=False)
    for o in outs:
        if "harness_exception" in o:
            raise common.InfraError("pipeline worker failed:\n" + o["harness_exception"])
    st = raw_stream.stage(ck, outs, raw_stream.FIELDS_C17 + raw_stream.FIELDS_C12)
    ck.finish(dict(st, evaluations=st["raw_model_requests"] + st["raw_compared_with_tflite"], distinct_nontrivial=st["raw_distinct_nontrivial"],
                   programs=len(outs),
                   rule="request = one compilation written in both output formats; non-trivial = the .npz lists >= 2 inputs / outputs "
                        "and a non-empty constants blob; distinct by (profile, index, options)"))


main_wrapper(main)
