"""Live-range correspondence (stage of ./check C12; see design.d/LiveRange.md).

install()            wrap live_range.extract_live_ranges_from_schedule / _from_cascaded_passes (harness side only, before
                     the pipeline workers are forked) so that every call made by the scheduler and by tensor allocation on
                     a *fresh* LiveRangeGraph is recorded as (abstract schedule, the real ranges/time indices it produced)
extra(res)           worker side, after one compilation: the recorded instances as protocol lines + the `lrspec` request for
                     the whole network (real arena ranges vs. every access of the high-level command streams / CPU passes)
stage(ck, outs)      check side: run the Lean model (lrnpu / lrcpu) and the Lean Spec (lrspec), compare, report
"""
import traceback

_installed = False
_records = []          # per process: dicts built at call time
_arena_graphs = {}     # (mem_area, frozenset(mem_type_set)) -> last LiveRangeGraph of a top-level cascaded-pass call
_depth = [0]
_errors = []


class _Table:
    """Tensor table of one request: identity = position."""

    def __init__(self, mem_area, mem_type_set):
        self.idx = {}
        self.rows = []
        self.eq = {}
        self.dtypes = {}
        self.mem_area, self.mem_type_set = mem_area, mem_type_set

    def eqid(self, tens):
        return self.eq.setdefault(tens.equivalence_id, len(self.eq))

    def ref(self, tens):
        from ethosu.vela.tensor import TensorPurpose

        k = id(tens)
        if k in self.idx:
            return self.idx[k]
        pu = {TensorPurpose.Weights: "W", TensorPurpose.FSBias: "F", TensorPurpose.Virtual: "V"}.get(tens.purpose, "O")
        in_target = tens.mem_area == self.mem_area and tens.mem_type in self.mem_type_set
        size = tens.storage_size()
        if int(size) != size:
            raise ValueError(f"non-integral storage size {size!r} of {tens.name}")
        dt = self.dtypes.setdefault((tens.dtype.type, tens.dtype.bits), len(self.dtypes))
        row = (f"{self.eqid(tens)}:{pu}:{int(in_target)}:{int(size)}:{int(tens.shape == [])}:{int(bool(tens.ifm_write_protected))}:"
               f"{int(tens.format.value)}:{dt}:{len(tens.consumer_list)}:{len(tens.ops)}:{int(bool(tens.is_variable))}:"
               f"{int(bool(tens.pre_buffer))}")
        self.idx[k] = len(self.rows)
        self.rows.append(row)
        return self.idx[k]

    def refs(self, tensors):
        return "/".join(str(self.ref(t)) for t in tensors)

    def text(self):
        return ",".join(self.rows)


def _shape(s):
    if s is None:
        return ""
    return ".".join(str(int(v)) for v in (s.as_list() if hasattr(s, "as_list") else list(s)))


def _schedule_text(sg, tab):
    """<sram>|<outs>|<op>;<op>... for extract_live_ranges_from_schedule(sg, tab.mem_area, tab.mem_type_set, .)"""
    from ethosu.vela.operation import Op
    from ethosu.vela.tensor import MemArea

    ops = []
    for sched_op in sg.sched_ops:
        op_info = sg.schedule.cost_map[sched_op]
        cascade = int(op_info.cascade)
        cascade_info = sg.schedule.cascades.get(op_info.cascade, None)
        ps = sched_op.parent_ps
        pop = sched_op.parent_op
        ew = bool(sched_op.op_type.is_elementwise_op())
        memcpy = sched_op.op_type == Op.Memcpy
        ofm = pop.ofm
        ifm = pop.ifm
        ifm2 = pop.ifm2
        ofs = ifs = if2s = ""
        if ew:
            ofs = _shape(pop.ofm_shapes[0])
            if ifm is not None:
                ifs = _shape(pop.ifm_shapes[0])
            if ifm2 is not None:
                if2s = _shape(pop.ifm_shapes[1])
        rolling = "-"
        if cascade_info is not None and sched_op in cascade_info.buffers:
            rolling = str(int(cascade_info.buffers[sched_op].elements() * sched_op.ifm.dtype.size_in_bytes()))
        ops.append(":".join([
            str(cascade), str(int(cascade_info is not None)), str(int(ew)),
            str(int(pop.memory_function is Op.VariableTensorWrite)), str(int(memcpy)),
            str(tab.ref(ofm)), ofs, "-" if ifm is None else str(tab.ref(ifm)), ifs,
            "-" if ifm2 is None else str(tab.ref(ifm2)), if2s,
            tab.refs(ps.inputs), tab.refs(ps.outputs), tab.refs(ps.intermediates),
            "-" if ps.ifm_tensor is None else str(tab.ref(ps.ifm_tensor)), rolling,
            tab.refs(op_info.buffered_weight_tensors), str(len(op_info.ofm_depth_slices))]))
    return f"{int(tab.mem_area == MemArea.Sram)}|{tab.refs(sg.output_tensors)}|{';'.join(ops)}"


def _real_ranges(lr_graph, tab):
    pos = {id(lr): i for i, lr in enumerate(lr_graph.lrs)}
    out = []
    for tens, rng in lr_graph.ranges.items():
        size = rng.size
        if int(size) != size:
            raise ValueError(f"non-integral live range size {size!r}")
        out.append(f"{tab.ref(tens)}:{pos[id(rng)]}:{int(rng.start_time)}:{int(rng.end_time)}:{int(size)}")
    return out


def _npu_call(sg):
    """the NPU subgraph a CPU cascaded pass calls, None for a plain pass, 'unsupported' for subgraph lists"""
    from ethosu.vela.operation import Op

    def f(cps):
        op = cps.passes[0].ops[0] if cps.passes[0].ops else None
        sub = op.attrs.get("subgraph", None) if op else None
        if sub is None:
            return None
        return sub if op.type == Op.CustomNpuOp else "unsupported"

    return f


def install():
    global _installed
    if _installed:
        return
    _installed = True
    from ethosu.vela import live_range
    from ethosu.vela.tensor import MemType

    orig_s = live_range.extract_live_ranges_from_schedule
    orig_c = live_range.extract_live_ranges_from_cascaded_passes

    def wrap_s(sg, target_mem_area, target_mem_type_set, lr_graph, *a, **kw):
        fresh = lr_graph is not None and not lr_graph.lrs and not lr_graph.ranges
        ct0 = lr_graph.current_time if lr_graph is not None else 0
        r = orig_s(sg, target_mem_area, target_mem_type_set, lr_graph, *a, **kw)
        if fresh:
            try:
                tab = _Table(target_mem_area, target_mem_type_set)
                sched = _schedule_text(sg, tab)
                real = _real_ranges(r, tab)
                times = [int(sg.schedule.cost_map[so].time_index) for so in sg.sched_ops]
                _records.append({"kind": "npu", "sg": sg.name, "line": f"lrnpu ct={int(ct0)} T={tab.text()} S={sched}",
                                 "real": {"ct": int(r.current_time), "times": times, "ranges": real},
                                 "ncasc": len({int(sg.schedule.cost_map[so].cascade) for so in sg.sched_ops} - {0}),
                                 "nbuf": sum(len(sg.schedule.cost_map[so].buffered_weight_tensors) for so in sg.sched_ops),
                                 "nfused": sum(1 for lr in r.lrs if len(lr.tensors) > 1)})
            except Exception:
                _errors.append(traceback.format_exc()[-1200:])
        return r

    def wrap_c(sg, target_mem_area, target_mem_type_set, lr_graph=None, *a, **kw):
        fresh = lr_graph is None or (not lr_graph.lrs and not lr_graph.ranges and sg not in lr_graph.processed_subgraphs)
        ct0 = lr_graph.current_time if lr_graph is not None else 0
        _depth[0] += 1
        try:
            r = orig_c(sg, target_mem_area, target_mem_type_set, lr_graph, *a, **kw)
        finally:
            _depth[0] -= 1
        if _depth[0] == 0 and fresh and target_mem_type_set is not None:
            try:
                call = _npu_call(sg)
                tab = _Table(target_mem_area, target_mem_type_set)
                passes, times, ok = [], [], True
                descend = MemType.Permanent_CPU not in target_mem_type_set
                for cps in sg.cascaded_passes:
                    sub = call(cps)
                    if isinstance(sub, str):
                        ok = False
                        break
                    sch = "-"
                    nt = []
                    if sub is not None:
                        sch = _schedule_text(sub, tab)
                        if descend:
                            nt = [int(sub.schedule.cost_map[so].time_index) for so in sub.sched_ops]
                    passes.append("^".join([tab.refs(cps.inputs), tab.refs(cps.intermediates), tab.refs(cps.outputs), sch]))
                    times.append((int(cps.time), nt))
                if ok:
                    real = _real_ranges(r, tab)
                    outs = tab.refs(sg.output_tensors)
                    _records.append({"kind": "cpu", "sg": sg.name,
                                     "line": f"lrcpu ct={int(ct0)} T={tab.text()} descend={int(descend)} "
                                             f"outs={outs} P={'~'.join(passes)}",
                                     "real": {"ct": int(r.current_time), "passes": times, "ranges": real},
                                     "nfused": sum(1 for lr in r.lrs if len(lr.tensors) > 1)})
                if ok and target_mem_type_set & {MemType.Scratch, MemType.Scratch_fast}:
                    # cps.time / op_info.time_index are overwritten by later calls (the Permanent_CPU allocation does
                    # not descend into the NPU subgraphs): keep the values that belong to these ranges
                    tm = {id(cps): int(cps.time) for cps in sg.cascaded_passes}
                    for cps in sg.cascaded_passes:
                        sub = call(cps)
                        if sub is not None:
                            for so in sub.sched_ops:
                                tm[id(so)] = int(sub.schedule.cost_map[so].time_index)
                    _arena_graphs[(target_mem_area, frozenset(target_mem_type_set))] = (r, tm)
            except Exception:
                _errors.append(traceback.format_exc()[-1200:])
        return r

    live_range.extract_live_ranges_from_schedule = wrap_s
    live_range.extract_live_ranges_from_cascaded_passes = wrap_c

    # a compilation that fails never reaches extra(): start every compilation with empty records
    from ethosu.vela import compiler_driver

    orig_driver = compiler_driver.compiler_driver

    def wrap_driver(*a, **kw):
        del _records[:]
        del _errors[:]
        _arena_graphs.clear()
        return orig_driver(*a, **kw)

    compiler_driver.compiler_driver = wrap_driver


def _spec_line(res):
    """`lrspec` request for the compiled network: the real arena ranges and every access, in execution order."""
    from ethosu.vela.high_level_command_stream import DMA, NOP, NpuStripe
    from ethosu.vela.tensor import TensorPurpose

    nng = res.nng
    if nng is None or not _arena_graphs:
        return None, {}
    root = nng.get_root_subgraph()
    targets = list(_arena_graphs)
    eq = {}

    def eqid(t):
        return eq.setdefault(t.equivalence_id, len(eq))

    def arena(t):
        return t is not None and any(t.mem_area == a and t.mem_type in s for a, s in targets)

    def ar(tensors):
        out = []
        for t in tensors:
            if arena(t) and eqid(t) not in out:
                out.append(eqid(t))
        return "/".join(map(str, out))

    ranges, seen = [], set()
    times = {}
    for key in targets:
        for k, v in _arena_graphs[key][1].items():
            if times.setdefault(k, v) != v:
                raise ValueError("the arena targets disagree on a time index")
    for gi, key in enumerate(targets):
        g = _arena_graphs[key][0]
        pos = {id(lr): i for i, lr in enumerate(g.lrs)}
        for tens, rng in g.ranges.items():
            e = eqid(tens)
            if e in seen:
                continue
            seen.add(e)
            ranges.append(f"{e}:{gi * 100000 + pos[id(rng)]}:{int(rng.start_time)}:{int(rng.end_time)}")
    cmds = []
    opid = [0]
    call = _npu_call(root)
    stats = {"stripes": 0, "wdma": 0, "prebuffered": 0, "cpu_passes": 0, "copies": 0}
    for cps in root.cascaded_passes:
        sub = call(cps)
        if isinstance(sub, str):
            return None, {}
        if sub is None:
            opid[0] += 1
            cmds.append(f"C:{opid[0]}:{times[id(cps)]}:{ar(cps.inputs)}:{ar(cps.outputs)}:-:0")
            stats["cpu_passes"] += 1
            continue
        ids = {}
        by_ps = {so.parent_ps: so for so in sub.sched_ops}
        for cmd in sub.high_level_command_stream:
            so = by_ps[cmd.ps]
            if so not in ids:
                opid[0] += 1
                ids[so] = opid[0]
            t = times[id(so)]
            if isinstance(cmd, NpuStripe):
                rd = [cmd.ifm_tensor, cmd.ifm2_tensor, cmd.scale_tensor]
                wb = cmd.weight_tensor
                wbs = str(eqid(wb)) if arena(wb) else "-"
                cmds.append(f"S:{ids[so]}:{t}:{ar(rd)}:{ar([cmd.ofm_tensor])}:{wbs}:0")
                stats["stripes"] += 1
            elif isinstance(cmd, DMA):
                if cmd.out_tensor.purpose == TensorPurpose.Weights:
                    cmds.append(f"D:{ids[so]}:{t}::{ar([cmd.out_tensor])}:-:{int(bool(cmd.out_tensor.pre_buffer))}")
                    stats["wdma"] += 1
                    stats["prebuffered"] += int(bool(cmd.out_tensor.pre_buffer))
                elif cmd.out_tensor.purpose == TensorPurpose.LUT:
                    continue
                else:
                    cmds.append(f"M:{ids[so]}:{t}:{ar([cmd.in_tensor])}:{ar([cmd.out_tensor])}:-:0")
                    stats["copies"] += 1
            elif isinstance(cmd, NOP):
                cmds.append(f"M:{ids[so]}:{t}:{ar([cmd.in_tensor])}:{ar([cmd.out_tensor])}:-:0")
                stats["copies"] += 1
    line = (f"lrspec R={','.join(ranges)} in={ar(root.input_tensors)} out={ar(root.output_tensors)} C={';'.join(cmds)}")
    stats["shared_ranges"] = sum(1 for k in targets for lr in _arena_graphs[k][0].lrs
                                 if len({t.equivalence_id for t in lr.tensors}) > 1)
    return line, stats


def extra(res):
    """Called in the worker after each compilation (pipe_common: want['extra'])."""
    out = {"records": [], "spec": None, "spec_stats": {}, "errors": []}
    try:
        seen = set()
        for r in _records:
            if r["line"] in seen:
                continue
            seen.add(r["line"])
            out["records"].append(r)
        if res.status == "ok":
            out["spec"], out["spec_stats"] = _spec_line(res)
    except Exception:
        _errors.append(traceback.format_exc()[-1200:])
    out["errors"] = list(_errors)
    del _records[:]
    del _errors[:]
    _arena_graphs.clear()
    return out


def _canon_model(ans):
    """model answer -> comparable dict"""
    if not ans.startswith("ok "):
        return {"error": ans}
    kv = dict(tok.split("=", 1) for tok in ans.split(" ")[1:])
    d = {"ct": int(kv["ct"]), "ranges": [x for x in kv.get("R", "").split(",") if x], "wf": kv.get("wf")}
    if "t" in kv:
        d["times"] = [int(x) for x in kv["t"].split("/") if x]
    if "P" in kv:
        d["passes"] = []
        for p in [x for x in kv["P"].split(",") if x]:
            _entry, t, nt = p.split(":")
            d["passes"].append((int(t), [int(x) for x in nt.split("/") if x]))
    return d


def stage(ck, outs, prefix="liverange_"):
    """Model = real on every recorded instance; Lean Spec on the real ranges of every compiled network."""
    import common
    import re

    inst, owners = [], []
    spec_lines, spec_owner = [], []
    for o in outs:
        ex = o.get("extra")
        if not ex:
            continue
        for e in ex["errors"]:
            raise common.InfraError("live-range harness failed inside a worker:\n" + e)
        for r in ex["records"]:
            inst.append(r)
            owners.append(o)
        if ex["spec"]:
            spec_lines.append(ex["spec"])
            spec_owner.append((o, ex["spec_stats"]))
    answers = ck.model([r["line"] for r in inst]) if inst else []
    disagreements = []
    nontrivial = set()
    for r, o, ans in zip(inst, owners, answers):
        m = _canon_model(ans)
        real = r["real"]
        ck.count(prefix + "instances_" + r["kind"])
        if r.get("ncasc"):
            ck.count(prefix + "instances_with_cascade")
        if r.get("nbuf"):
            ck.count(prefix + "instances_with_buffered_weights")
        if r.get("nfused"):
            ck.count(prefix + "instances_with_fused_ranges")
        if len(real["ranges"]) >= 3:
            nontrivial.add(r["line"])
        bad = None
        if "error" in m:
            bad = f"model rejects ({m['error']}) what the code accepted"
        elif m["ct"] != real["ct"]:
            bad = f"current_time: model {m['ct']} real {real['ct']}"
        elif r["kind"] == "npu" and m["times"] != real["times"]:
            bad = f"time indices: model {m['times']} real {real['times']}"
        elif r["kind"] == "cpu" and m["passes"] != [tuple(p) for p in real["passes"]] and m["passes"] != real["passes"]:
            bad = f"pass times: model {m['passes']} real {real['passes']}"
        elif m["ranges"] != real["ranges"]:
            diff = [(a, b) for a, b in zip(m["ranges"], real["ranges"]) if a != b][:4]
            bad = f"ranges (tensor:lr:start:end:size): model/real differ at {diff} (lengths {len(m['ranges'])}/{len(real['ranges'])})"
        if bad:
            disagreements.append((r, o, bad))
        elif m.get("wf") != "1":
            ck.violation("abstract schedule violates consumersTruthful (consumer_list shorter than the readers in the schedule): "
                         f"hypothesis of fused_ranges_safe does not hold for network {o['idx']} {o['profile']} {o['opts']}",
                         {"profile": o["profile"], "seed": o["seed"], "index": o["idx"], "opts": o["opts"], "network": o["desc"],
                          "request": r["line"][:4000]}, found_input=True)
    spec_ans = ck.model(spec_lines, parallel=False) if spec_lines else []
    rejected = {}
    for (o, st), line, ans in zip(spec_owner, spec_lines, spec_ans):
        m = re.match(r"uncovered=(\d+) (.*?) \| io=(\d+) (.*?) \| clobbers=(\d+) (.*?) \| regressions=(\d+) (.*)", ans)
        if not m:
            raise common.InfraError("unexpected lrspec answer: " + ans[:200])
        ck.count(prefix + "spec_networks")
        for k, v in st.items():
            ck.count(prefix + "spec_" + k, v)
        nu, nio, ncl, nrg = int(m.group(1)), int(m.group(3)), int(m.group(5)), int(m.group(7))
        if nu or nio or ncl or nrg:
            rejected[(o["profile"], o["idx"])] = (o, line, ans, nu, nio, ncl, nrg)
    # failing-input search: a disagreement is the code's fault only if the Lean Spec rejects the real ranges
    for (o, line, ans, nu, nio, ncl, nrg) in rejected.values():
        what = []
        if nu:
            what.append("tensor accessed outside its live range (tensor@lo..hi): " + ans.split(" | ")[0])
        if nio:
            what.append("network input/output not live at the start/end of the inference: " + ans.split(" | ")[1])
        if ncl:
            what.append("two tensors share one live range and a value is overwritten before it is read "
                        "(reader op:tensor:writer op): " + ans.split(" | ")[2])
        if nrg:
            what.append("time indices decrease along the execution order (interleaved operations do not share one index; "
                        "op@time<previous): " + ans.split(" | ")[3])
        ck.violation("; ".join(what) + f" (network {o['idx']} {o['profile']} {o['opts']})",
                     {"profile": o["profile"], "seed": o["seed"], "index": o["idx"], "opts": o["opts"], "network": o["desc"],
                      "lrspec_request": line[:6000], "verdict": ans}, found_input=True)
    for r, o, bad in disagreements[:6]:
        key = (o["profile"], o["idx"])
        ck.violation(f"live-range model and live_range.py disagree on {r['kind']} subgraph {r['sg']}: {bad} "
                     f"(network {o['idx']} {o['profile']} {o['opts']})",
                     {"profile": o["profile"], "seed": o["seed"], "index": o["idx"], "opts": o["opts"], "network": o["desc"],
                      "correspondence": "Model/LiveRange.lean extractNpu/extractCpu = live_range.extract_live_ranges_from_*",
                      "request": r["line"][:6000], "real": r["real"], "model": answers[inst.index(r)][:3000],
                      "spec_rejects_same_network": key in rejected},
                     found_input=key in rejected)
    return {"liverange_instances": len(inst), "liverange_distinct_nontrivial": len(nontrivial),
            "liverange_spec_networks": len(spec_lines), "liverange_disagreements": len(disagreements),
            "liverange_spec_rejections": len(rejected)}
