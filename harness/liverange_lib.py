"""Live-range correspondence (stage of ./check C12; see design.d/LiveRange.md).

install()            wrap live_range.extract_live_ranges_from_schedule / _from_cascaded_passes (harness side only, before
                     the pipeline workers are forked) so that every call made by the scheduler and by tensor allocation on
                     a *fresh* LiveRangeGraph is recorded as (abstract schedule, the real ranges/time indices it produced)
extra(res)           worker side, after one compilation: the recorded instances as protocol lines + the `lrspec` request for
                     the whole network (real arena ranges vs. every access of the high-level command streams / CPU passes)
stage(ck, outs)      check side: run the Lean model (lrnpu / lrcpu) and the Lean Spec (lrspec), compare, report
"""
import traceback

_installed = False
_records = []          # per process: dicts built at call time
_arena_graphs = {}     # (mem_area, frozenset(mem_type_set)) -> last LiveRangeGraph of a top-level cascaded-pass call
_depth = [0]
_errors = []


class _Table:
    """Tensor table of one request: identity = position."""

    def __init__(self, mem_area, mem_type_set):
        self.idx = {}
        self.rows = []
        self.eq = {}
        self.dtypes = {}
        self.mem_area, self.mem_type_set = mem_area, mem_type_set

    def eqid(self, tens):
        return self.eq.setdefault(tens.equivalence_id, len(self.eq))

    def ref(self, tens):
        from ethosu.vela.tensor import TensorPurpose

        k = id(tens)
        if k in self.idx:
            return self.idx[k]
        pu = {TensorPurpose.Weights: "W", TensorPurpose.FSBias: "F", TensorPurpose.Virtual: "V"}.get(tens.purpose, "O")
        in_target = tens.mem_area == self.mem_area and tens.mem_type in self.mem_type_set
        size = tens.storage_size()
        if int(size) != size:
            raise ValueError(f"non-integral storage size {size!r} of {tens.name}")
        dt = self.dtypes.setdefault((tens.dtype.type, tens.dtype.bits), len(self.dtypes))
        row = (f"{self.eqid(tens)}:{pu}:{int(in_target)}:{int(size)}:{int(tens.shape == [])}:{int(bool(tens.ifm_write_protected))}:"
               f"{int(tens.format.value)}:{dt}:{len(tens.consumer_list)}:{len(tens.ops)}:{int(bool(tens.is_variable))}:"
               f"{int(bool(tens.pre_buffer))}")
        self.idx[k] = len(self.rows)
        self.rows.append(row)
        return self.idx[k]

    def refs(self, tensors):
        return "/".join(str(self.ref(t)) for t in tensors)

    def text(self):
        return ",".join(self.rows)


def _shape(s):
    if s is None:
        return ""
    return ".".join(str(int(v)) for v in (s.as_list() if hasattr(s, "as_list") else list(s)))


def _schedule_text(sg, tab):
    """<sram>|<outs>|<op>;<op>... for extract_live_ranges_from_schedule(sg, tab.mem_area, tab.mem_type_set, .)"""
    from ethosu.vela.operation import Op
    from ethosu.vela.tensor import MemArea

    ops = []
    for sched_op in sg.sched_ops:
        op_info = sg.schedule.cost_map[sched_op]
        cascade = int(op_info.cascade)
        cascade_info = sg.schedule.cascades.get(op_info.cascade, None)
        ps = sched_op.parent_ps
        pop = sched_op.parent_op
        ew = bool(sched_op.op_type.is_elementwise_op())
        memcpy = sched_op.op_type == Op.Memcpy
        ofm = pop.ofm
        ifm = pop.ifm
        ifm2 = pop.ifm2
        ofs = ifs = if2s = ""
        if ew:
            ofs = _shape(pop.ofm_shapes[0])
            if ifm is not None:
                ifs = _shape(pop.ifm_shapes[0])
            if ifm2 is not None:
                if2s = _shape(pop.ifm_shapes[1])
        rolling = "-"
        if cascade_info is not None and sched_op in cascade_info.buffers:
            rolling = str(int(cascade_info.buffers[sched_op].elements() * sched_op.ifm.dtype.size_in_bytes()))
        ops.append(":".join([
            str(cascade), str(int(cascade_info is not None)), str(int(ew)),
            str(int(pop.memory_function is Op.VariableTensorWrite)), str(int(memcpy)),
            str(tab.ref(ofm)), ofs, "-" if ifm is None else str(tab.ref(ifm)), ifs,
            "-" if ifm2 is None else str(tab.ref(ifm2)), if2s,
            tab.refs(ps.inputs), tab.refs(ps.outputs), tab.refs(ps.intermediates),
            "-" if ps.ifm_tensor is None else str(tab.ref(ps.ifm_tensor)), rolling,
            tab.refs(op_info.buffered_weight_tensors), str(len(op_info.ofm_depth_slices))]))
    return f"{int(tab.mem_area == MemArea.Sram)}|{tab.refs(sg.output_tensors)}|{';'.join(ops)}"


def _branches(sg, mem_area):
    """which branches of the model one extract_live_ranges_from_schedule call exercises (evidence only)"""
    from ethosu.vela.operation import Op
    from ethosu.vela.tensor import MemArea

    out = set()
    for so in sg.sched_ops:
        ci = sg.schedule.cost_map[so]
        casc = sg.schedule.cascades.get(ci.cascade, None)
        if casc is not None:
            out.add("cascade_member")
            if mem_area == MemArea.Sram and so in casc.buffers:
                out.add("rolling_buffer")
        if ci.cascade != 0 and casc is None:
            out.add("cascade_number_without_info")
        n = len(ci.buffered_weight_tensors)
        if n == 1:
            out.add("single_buffer")
        if n > 1:
            out.add("double_buffer")
        if any(t.pre_buffer for t in ci.buffered_weight_tensors):
            out.add("pre_buffer")
        if so.op_type == Op.Memcpy:
            out.add("memcpy")
        if so.op_type.is_elementwise_op():
            out.add("elementwise")
    return sorted(out)


def _real_ranges(lr_graph, tab):
    pos = {id(lr): i for i, lr in enumerate(lr_graph.lrs)}
    out = []
    for tens, rng in lr_graph.ranges.items():
        size = rng.size
        if int(size) != size:
            raise ValueError(f"non-integral live range size {size!r}")
        out.append(f"{tab.ref(tens)}:{pos[id(rng)]}:{int(rng.start_time)}:{int(rng.end_time)}:{int(size)}")
    return out


def _npu_call(sg):
    """the NPU subgraph a CPU cascaded pass calls, None for a plain pass, 'unsupported' for subgraph lists"""
    from ethosu.vela.operation import Op

    def f(cps):
        op = cps.passes[0].ops[0] if cps.passes[0].ops else None
        sub = op.attrs.get("subgraph", None) if op else None
        if sub is None:
            return None
        return sub if op.type == Op.CustomNpuOp else "unsupported"

    return f


def install():
    global _installed
    if _installed:
        return
    _installed = True
    from ethosu.vela import live_range
    from ethosu.vela.tensor import MemType

    orig_s = live_range.extract_live_ranges_from_schedule
    orig_c = live_range.extract_live_ranges_from_cascaded_passes

    def wrap_s(sg, target_mem_area, target_mem_type_set, lr_graph, *a, **kw):
        fresh = lr_graph is not None and not lr_graph.lrs and not lr_graph.ranges
        ct0 = lr_graph.current_time if lr_graph is not None else 0
        r = orig_s(sg, target_mem_area, target_mem_type_set, lr_graph, *a, **kw)
        if fresh:
            try:
                tab = _Table(target_mem_area, target_mem_type_set)
                sched = _schedule_text(sg, tab)
                real = _real_ranges(r, tab)
                times = [int(sg.schedule.cost_map[so].time_index) for so in sg.sched_ops]
                _records.append({"kind": "npu", "sg": sg.name, "line": f"lrnpu ct={int(ct0)} T={tab.text()} S={sched}",
                                 "real": {"ct": int(r.current_time), "times": times, "ranges": real},
                                 "ncasc": len({int(sg.schedule.cost_map[so].cascade) for so in sg.sched_ops} - {0}),
                                 "nbuf": sum(len(sg.schedule.cost_map[so].buffered_weight_tensors) for so in sg.sched_ops),
                                 "nfused": sum(1 for lr in r.lrs if len(lr.tensors) > 1),
                                 "branches": _branches(sg, target_mem_area)})
            except Exception:
                _errors.append(traceback.format_exc()[-1200:])
        return r

    def wrap_c(sg, target_mem_area, target_mem_type_set, lr_graph=None, *a, **kw):
        fresh = lr_graph is None or (not lr_graph.lrs and not lr_graph.ranges and sg not in lr_graph.processed_subgraphs)
        ct0 = lr_graph.current_time if lr_graph is not None else 0
        _depth[0] += 1
        try:
            r = orig_c(sg, target_mem_area, target_mem_type_set, lr_graph, *a, **kw)
        finally:
            _depth[0] -= 1
        if _depth[0] == 0 and fresh and target_mem_type_set is not None:
            try:
                call = _npu_call(sg)
                tab = _Table(target_mem_area, target_mem_type_set)
                passes, times, ok = [], [], True
                descend = MemType.Permanent_CPU not in target_mem_type_set
                for cps in sg.cascaded_passes:
                    sub = call(cps)
                    if isinstance(sub, str):
                        ok = False
                        break
                    sch = "-"
                    nt = []
                    if sub is not None:
                        sch = _schedule_text(sub, tab)
                        if descend:
                            nt = [int(sub.schedule.cost_map[so].time_index) for so in sub.sched_ops]
                    passes.append("^".join([tab.refs(cps.inputs), tab.refs(cps.intermediates), tab.refs(cps.outputs), sch]))
                    times.append((int(cps.time), nt))
                if ok:
                    real = _real_ranges(r, tab)
                    outs = tab.refs(sg.output_tensors)
                    _records.append({"kind": "cpu", "sg": sg.name,
                                     "line": f"lrcpu ct={int(ct0)} T={tab.text()} descend={int(descend)} "
                                             f"outs={outs} P={'~'.join(passes)}",
                                     "real": {"ct": int(r.current_time), "passes": times, "ranges": real},
                                     "nfused": sum(1 for lr in r.lrs if len(lr.tensors) > 1),
                                     "branches": sorted({"cpu_descend" if descend else "cpu_no_descend"} |
                                                        ({"variable_tensor"} if any(t.is_variable for t in r.ranges) else set()) |
                                                        ({"npu_callout"} if any(call(c) is not None for c in sg.cascaded_passes) else set()))})
                if ok and target_mem_type_set & {MemType.Scratch, MemType.Scratch_fast}:
                    # cps.time / op_info.time_index are overwritten by later calls (the Permanent_CPU allocation does
                    # not descend into the NPU subgraphs): keep the values that belong to these ranges
                    tm = {id(cps): int(cps.time) for cps in sg.cascaded_passes}
                    for cps in sg.cascaded_passes:
                        sub = call(cps)
                        if sub is not None:
                            for so in sub.sched_ops:
                                tm[id(so)] = int(sub.schedule.cost_map[so].time_index)
                    _arena_graphs[(target_mem_area, frozenset(target_mem_type_set))] = (r, tm)
            except Exception:
                _errors.append(traceback.format_exc()[-1200:])
        return r

    live_range.extract_live_ranges_from_schedule = wrap_s
    live_range.extract_live_ranges_from_cascaded_passes = wrap_c

    # a compilation that fails never reaches extra(): start every compilation with empty records
    from ethosu.vela import compiler_driver

    orig_driver = compiler_driver.compiler_driver

    def wrap_driver(*a, **kw):
        del _records[:]
        del _errors[:]
        _arena_graphs.clear()
        return orig_driver(*a, **kw)

    compiler_driver.compiler_driver = wrap_driver


def _spec_line(res):
    """`lrspec` request for the compiled network: the real arena ranges and every access, in execution order."""
    from ethosu.vela.high_level_command_stream import DMA, NOP, NpuStripe
    from ethosu.vela.tensor import TensorPurpose

    nng = res.nng
    if nng is None or not _arena_graphs:
        return None, {}
    root = nng.get_root_subgraph()
    targets = list(_arena_graphs)
    eq = {}

    eq_names = {}

    def eqid(t):
        e = eq.setdefault(t.equivalence_id, len(eq))
        eq_names.setdefault(e, set()).add(t.name)
        return e

    def arena(t):
        return t is not None and any(t.mem_area == a and t.mem_type in s for a, s in targets)

    def ar(tensors):
        out = []
        for t in tensors:
            if arena(t) and eqid(t) not in out:
                out.append(eqid(t))
        return "/".join(map(str, out))

    ranges, seen = [], set()
    times = {}
    for key in targets:
        for k, v in _arena_graphs[key][1].items():
            if times.setdefault(k, v) != v:
                raise ValueError("the arena targets disagree on a time index")
    for gi, key in enumerate(targets):
        g = _arena_graphs[key][0]
        pos = {id(lr): i for i, lr in enumerate(g.lrs)}
        for tens, rng in g.ranges.items():
            e = eqid(tens)
            if e in seen:
                continue
            seen.add(e)
            ranges.append(f"{e}:{gi * 100000 + pos[id(rng)]}:{int(rng.start_time)}:{int(rng.end_time)}")
    cmds = []
    opid = [0]
    call = _npu_call(root)
    stats = {"stripes": 0, "wdma": 0, "prebuffered": 0, "cpu_passes": 0, "copies": 0}
    for cps in root.cascaded_passes:
        sub = call(cps)
        if isinstance(sub, str):
            return None, {}
        if sub is None:
            opid[0] += 1
            # what a CPU pass writes is taken from its operators, not only from the pass's own output list: the runtime writes
            # every result of an operator, read or not (round 5, seeded change C12-r5m2: build_pass kept only read results)
            op_outs = [t for ps in cps.passes for op in ps.ops for t in op.outputs if t is not None]
            cmds.append(f"C:{opid[0]}:{times[id(cps)]}:{ar(cps.inputs)}:{ar(list(cps.outputs) + op_outs)}:-:0")
            stats["cpu_passes"] += 1
            continue
        ids = {}
        by_ps = {so.parent_ps: so for so in sub.sched_ops}
        for cmd in sub.high_level_command_stream:
            so = by_ps[cmd.ps]
            if so not in ids:
                opid[0] += 1
                ids[so] = opid[0]
            t = times[id(so)]
            if isinstance(cmd, NpuStripe):
                rd = [cmd.ifm_tensor, cmd.ifm2_tensor, cmd.scale_tensor]
                wb = cmd.weight_tensor
                wbs = str(eqid(wb)) if arena(wb) else "-"
                cmds.append(f"S:{ids[so]}:{t}:{ar(rd)}:{ar([cmd.ofm_tensor])}:{wbs}:0")
                stats["stripes"] += 1
            elif isinstance(cmd, DMA):
                if cmd.out_tensor.purpose == TensorPurpose.Weights:
                    cmds.append(f"D:{ids[so]}:{t}::{ar([cmd.out_tensor])}:-:{int(bool(cmd.out_tensor.pre_buffer))}")
                    stats["wdma"] += 1
                    stats["prebuffered"] += int(bool(cmd.out_tensor.pre_buffer))
                elif cmd.out_tensor.purpose == TensorPurpose.LUT:
                    continue
                else:
                    cmds.append(f"M:{ids[so]}:{t}:{ar([cmd.in_tensor])}:{ar([cmd.out_tensor])}:-:0")
                    stats["copies"] += 1
            elif isinstance(cmd, NOP):
                cmds.append(f"M:{ids[so]}:{t}:{ar([cmd.in_tensor])}:{ar([cmd.out_tensor])}:-:0")
                stats["copies"] += 1
    line = (f"lrspec R={','.join(ranges)} in={ar(root.input_tensors)} out={ar(root.output_tensors)} C={';'.join(cmds)}")
    stats["shared_ranges"] = sum(1 for k in targets for lr in _arena_graphs[k][0].lrs
                                 if len({t.equivalence_id for t in lr.tensors}) > 1)
    stats["eq_names"] = {str(e): sorted(v) for e, v in eq_names.items()}      # names only: to attribute a known finding
    return line, stats


def extra(res):
    """Called in the worker after each compilation (pipe_common: want['extra'])."""
    out = {"records": [], "spec": None, "spec_stats": {}, "errors": []}
    try:
        seen = set()
        for r in _records:
            if r["line"] in seen:
                continue
            seen.add(r["line"])
            out["records"].append(r)
        if res.status == "ok":
            out["spec"], out["spec_stats"] = _spec_line(res)
    except Exception:
        _errors.append(traceback.format_exc()[-1200:])
    out["errors"] = list(_errors)
    del _records[:]
    del _errors[:]
    _arena_graphs.clear()
    return out


# ------------------------------------------------------------------------------------------------
# Function-level correspondence on generated stub schedules (reaches what compiled networks do not:
# variable tensors, assertion failures of fuse_ranges/add_tensor, cascade numbers without CascadeInfo,
# non-contiguous cascades, write-protected / multi-consumer / scalar / foreign-format fuse candidates)


class _O:
    """attribute bag (hashable by identity, unlike SimpleNamespace)"""

    def __init__(self, **kw):
        self.__dict__.update(kw)


def _stub_tensor(rng, name, pool, areas, types):
    from ethosu.vela.data_type import DataType
    from ethosu.vela.tensor import Tensor, TensorFormat, TensorPurpose

    if pool and rng.random() < 0.12:
        t = rng.choice(pool).clone("_c%d" % len(pool))            # equivalent tensor (same equivalence id)
    else:
        shape = [] if rng.random() < 0.06 else [1, rng.randint(1, 6), rng.randint(1, 6), rng.choice([1, 3, 8, 16])]
        t = Tensor(shape, rng.choice([DataType.int8, DataType.int8, DataType.int16]), name)
        t.format = rng.choice([TensorFormat.NHWC, TensorFormat.NHWC, TensorFormat.NHCWB16])
    t.purpose = rng.choice([TensorPurpose.FeatureMap] * 7 + [TensorPurpose.Weights, TensorPurpose.FSBias, TensorPurpose.Virtual,
                                                               TensorPurpose.LUT])
    t.mem_area = rng.choice(areas)
    t.mem_type = rng.choice(types)
    t.ifm_write_protected = rng.random() < 0.12
    t.is_variable = rng.random() < 0.1
    return t


def _stub_npu_sg(rng, pool, areas, types, name):
    from ethosu.vela.data_type import DataType
    from ethosu.vela.operation import Op
    from ethosu.vela.shape4d import Shape4D
    from ethosu.vela.tensor import MemArea, MemType, Tensor, TensorPurpose

    def new(nm):
        t = _stub_tensor(rng, nm, pool, areas, types)
        pool.append(t)
        return t

    n = rng.randint(1, 7)
    ops, cost_map, cascades = [], {}, {}
    cur = rng.choice(pool) if pool and rng.random() < 0.7 else new(name + "_in")
    casc_no, casc_left = 0, 0
    next_casc = 1
    for i in range(n):
        kind = rng.choice([Op.Conv2DBias, Op.Add, Op.Add, Op.Mul, Op.AvgPool, Op.Memcpy, Op.Minimum])
        ifm = cur if rng.random() < 0.8 else rng.choice(pool)
        ifm2 = None
        if kind.is_elementwise_op() and rng.random() < 0.6:
            ifm2 = rng.choice(pool) if rng.random() < 0.7 else new(f"{name}_c{i}")
        ofm = new(f"{name}_t{i}") if rng.random() < 0.9 else rng.choice(pool)
        if rng.random() < 0.6 and ifm.shape != []:
            # make the fuse candidate plausible: same shape / dtype / format, one consumer
            ofm.set_all_shapes(list(ifm.shape))
            ofm.dtype = ifm.dtype
            ofm.format = ifm.format
            ofm.purpose, ofm.mem_area, ofm.mem_type = ifm.purpose, ifm.mem_area, ifm.mem_type

        def sh(t):
            return Shape4D(t.shape) if len(t.shape) == 4 else Shape4D([1, 1, 1, 1])

        pop = _O(ofm=ofm, ifm=ifm, ifm2=ifm2, ofm_shapes=[sh(ofm)], ifm_shapes=[sh(ifm)] + ([sh(ifm2)] if ifm2 is not None else []),
                 memory_function=Op.VariableTensorWrite if rng.random() < 0.05 else None)
        if kind == Op.Memcpy and rng.random() < 0.04:
            pop.ifm = None          # malformed: _get_ifm_to_fuse dereferences it (AttributeError) unless the op is in a cascade
        wt = []
        if kind == Op.Conv2DBias:
            w = new(f"{name}_w{i}")
            w.purpose = TensorPurpose.Weights
            wt = [w]
        ps = _O(inputs=[ifm] + ([ifm2] if ifm2 is not None else []) + wt, outputs=[ofm],
                intermediates=[rng.choice(pool)] if rng.random() < 0.1 else [], ifm_tensor=ifm, name=f"{name}_ps{i}")
        so = _O(parent_ps=ps, parent_op=pop, op_type=kind, ifm=_O(dtype=ifm.dtype), index=i)
        if casc_left == 0 and rng.random() < 0.35:
            casc_no, casc_left = (next_casc if rng.random() < 0.85 else rng.randint(1, next_casc)), rng.randint(1, 3)
            next_casc += 1
        cascade = casc_no if casc_left > 0 else 0
        if casc_left > 0:
            casc_left -= 1
        buffered = []
        if kind == Op.Conv2DBias and rng.random() < 0.6:
            for j in range(rng.choice([1, 1, 2])):
                b = Tensor([1, 1, 1, 16 * rng.randint(1, 8)], DataType.uint8, f"{name}_w{i}_buffer{j}")
                b.purpose, b.mem_area, b.mem_type = TensorPurpose.Weights, rng.choice([MemArea.Sram] * 4 + areas), MemType.Scratch_fast
                buffered.append(b)
            buffered[0].pre_buffer = rng.random() < 0.5
        info = _O(cascade=cascade, buffered_weight_tensors=buffered, ofm_depth_slices=list(range(rng.randint(2, 6))), time_index=None)
        cost_map[so] = info
        if cascade != 0 and rng.random() < 0.9:
            ci = cascades.setdefault(cascade, _O(buffers={}, start=i, end=i))
            ci.end = i
            if rng.random() < 0.6:
                ci.buffers[so] = _O(elements=(lambda k=rng.randint(1, 64) * 16: k))
        ops.append(so)
        cur = ofm
    outs = [cur] if rng.random() < 0.8 else rng.sample(pool, min(len(pool), 2))
    # consumer / producer lists: truthful with probability 0.8, else arbitrary
    truthful = rng.random() < 0.8
    for t in pool:
        readers = sum(1 for so in ops if any(x is t for x in so.parent_ps.inputs))
        if truthful:
            t.consumer_list = [None] * (readers + (1 if any(x is t for x in outs) else 0))
            t.ops = [None]
        else:
            t.consumer_list = [None] * rng.randint(0, 2)
            t.ops = [None] * rng.randint(1, 2)
    return _O(sched_ops=ops, schedule=_O(cost_map=cost_map, cascades=cascades), output_tensors=outs, name=name, cascaded_passes=[])


def stub_records(rng, n):
    """n instances: random stub (sub)graphs through the REAL extraction functions, with the abstract request."""
    from ethosu.vela import live_range
    from ethosu.vela.operation import Op
    from ethosu.vela.tensor import MemArea, MemType

    recs = []
    for k in range(n):
        areas = rng.choice([[MemArea.Sram], [MemArea.Sram, MemArea.Dram], [MemArea.Dram, MemArea.Sram, MemArea.Shram]])
        types = rng.choice([[MemType.Scratch, MemType.Scratch_fast], [MemType.Scratch, MemType.Scratch_fast, MemType.Permanent_NPU],
                            [MemType.Scratch_fast], [MemType.Scratch, MemType.Permanent_CPU]])
        target_area = rng.choice(areas)
        target_types = set(rng.sample(types, rng.randint(1, len(types))))
        pool = []
        ct0 = rng.choice([0, 0, 2, 5])
        graph = live_range.LiveRangeGraph()
        graph.current_time = ct0
        tab = _Table(target_area, target_types)
        try:
            if k % 2 == 0:
                sg = _stub_npu_sg(rng, pool, areas, types, f"s{k}")
                line_of = lambda: f"lrnpu ct={ct0} T={tab.text()} S={sched}"     # noqa: E731
                sched = _schedule_text(sg, tab)
                kind = "npu"
                try:
                    r = live_range.extract_live_ranges_from_schedule(sg, target_area, target_types, graph)
                    real = {"ct": int(r.current_time), "times": [int(sg.schedule.cost_map[so].time_index) for so in sg.sched_ops],
                            "ranges": _real_ranges(r, tab)}
                except AssertionError:
                    real = {"error": "err:assert"}
                except AttributeError:
                    real = {"error": "err:attribute"}
                recs.append({"kind": kind, "sg": sg.name, "line": line_of(), "real": real, "stub": True,
                             "branches": _branches(sg, target_area) + (["stub_error_" + real["error"][4:]] if "error" in real else [])})
            else:
                passes, subs = [], []
                for i in range(rng.randint(1, 5)):
                    ins = rng.sample(pool, min(len(pool), rng.randint(0, 2)))
                    outs = []
                    for j in range(rng.randint(0, 2)):
                        t = _stub_tensor(rng, f"c{k}_{i}_{j}", pool, areas, types)
                        pool.append(t)
                        outs.append(t)
                    op = None
                    if rng.random() < 0.35:
                        sub = _stub_npu_sg(rng, pool, areas, types, f"c{k}n{i}")
                        subs.append(sub)
                        op = _O(type=Op.CustomNpuOp, attrs={"subgraph": sub})
                    elif rng.random() < 0.8:
                        op = _O(type=Op.Relu, attrs={})
                    passes.append(_O(inputs=ins, outputs=outs, intermediates=[rng.choice(pool)] if pool and rng.random() < 0.1 else [],
                                     passes=[_O(ops=[op] if op is not None else [])], time=0, name=f"c{k}p{i}"))
                sg = _O(cascaded_passes=passes, output_tensors=rng.sample(pool, min(len(pool), rng.randint(0, 2))), name=f"c{k}")
                descend = MemType.Permanent_CPU not in target_types
                call = _npu_call(sg)
                ptxt = []
                for cps in passes:
                    sub = call(cps)
                    ptxt.append("^".join([tab.refs(cps.inputs), tab.refs(cps.intermediates), tab.refs(cps.outputs),
                                          "-" if sub is None else _schedule_text(sub, tab)]))
                outs_txt = tab.refs(sg.output_tensors)
                try:
                    r = live_range.extract_live_ranges_from_cascaded_passes(sg, target_area, target_types, graph)
                    times = []
                    for cps in passes:
                        sub = call(cps)
                        times.append((int(cps.time), [int(sub.schedule.cost_map[so].time_index) for so in sub.sched_ops]
                                      if (sub is not None and descend) else []))
                    real = {"ct": int(r.current_time), "passes": times, "ranges": _real_ranges(r, tab)}
                except AssertionError:
                    real = {"error": "err:assert"}
                except AttributeError:
                    real = {"error": "err:attribute"}
                recs.append({"kind": "cpu", "sg": sg.name, "stub": True,
                             "line": f"lrcpu ct={ct0} T={tab.text()} descend={int(descend)} outs={outs_txt} P={'~'.join(ptxt)}",
                             "real": real,
                             "branches": sorted({"cpu_descend" if descend else "cpu_no_descend"} |
                                                ({"variable_tensor"} if any(t.is_variable for t in pool) else set()) |
                                                ({"npu_callout"} if subs else set()) |
                                                {b for sub in subs for b in _branches(sub, target_area)} |
                                                ({"stub_error_" + real["error"][4:]} if "error" in real else set()))})
        except Exception:
            raise
    del _records[:]
    del _errors[:]
    _arena_graphs.clear()
    return recs


def _canon_model(ans):
    """model answer -> comparable dict"""
    if not ans.startswith("ok "):
        return {"error": ans}
    kv = dict(tok.split("=", 1) for tok in ans.split(" ")[1:])
    d = {"ct": int(kv["ct"]), "ranges": [x for x in kv.get("R", "").split(",") if x], "wf": kv.get("wf")}
    if "t" in kv:
        d["times"] = [int(x) for x in kv["t"].split("/") if x]
    if "P" in kv:
        d["passes"] = []
        for p in [x for x in kv["P"].split(",") if x]:
            _entry, t, nt = p.split(":")
            d["passes"].append((int(t), [int(x) for x in nt.split("/") if x]))
    return d


def stage(ck, outs, prefix="liverange_", known=None):
    """Model = real on every recorded instance; Lean Spec on the real ranges of every compiled network.
    `known`: (profile, index) -> (key, tensor names) of networks whose in-place decisions the Lean Spec of
    harness/inplace_lib.py rejects for a recorded finding; a `clobbers`-only rejection here whose destroyed tensors are all
    among those names is the same finding seen on the live ranges."""
    import common
    import re
    import time

    t_stage = time.time()
    inst, owners = [], []
    spec_lines, spec_owner = [], []
    nstub = 6000 if ck.thorough else 1500
    stub_owner = {"idx": -1, "profile": "stub", "seed": ck.seed, "opts": [], "desc": "generated stub schedule (no network)"}
    for r in stub_records(ck.rng, nstub):
        inst.append(r)
        owners.append(stub_owner)
    for o in outs:
        ex = o.get("extra")
        if not ex:
            continue
        for e in ex["errors"]:
            raise common.InfraError("live-range harness failed inside a worker:\n" + e)
        for r in ex["records"]:
            inst.append(r)
            owners.append(o)
        if ex["spec"]:
            spec_lines.append(ex["spec"])
            spec_owner.append((o, ex["spec_stats"]))
    answers = ck.model([r["line"] for r in inst]) if inst else []
    disagreements = []
    nontrivial = set()
    seen_branches = set()
    for r, o, ans in zip(inst, owners, answers):
        m = _canon_model(ans)
        real = r["real"]
        ck.count(prefix + "instances_" + r["kind"])
        if r.get("ncasc"):
            ck.count(prefix + "instances_with_cascade")
        if r.get("nbuf"):
            ck.count(prefix + "instances_with_buffered_weights")
        if r.get("nfused"):
            ck.count(prefix + "instances_with_fused_ranges")
        for br in r.get("branches", []):
            ck.count(prefix + "branch_" + br)
            seen_branches.add(br)
        if len(real.get("ranges", [])) >= 3:
            nontrivial.add(r["line"])
        bad = None
        if r.get("stub"):
            ck.count(prefix + "stub_instances")
        if "error" in real or "error" in m:
            ck.count(prefix + "error_outcomes")
            if real.get("error") != m.get("error"):
                bad = f"outcome: model {m.get('error', 'ok')} real {real.get('error', 'ok')}"
        elif m["ct"] != real["ct"]:
            bad = f"current_time: model {m['ct']} real {real['ct']}"
        elif r["kind"] == "npu" and m["times"] != real["times"]:
            bad = f"time indices: model {m['times']} real {real['times']}"
        elif r["kind"] == "cpu" and m["passes"] != [tuple(p) for p in real["passes"]] and m["passes"] != real["passes"]:
            bad = f"pass times: model {m['passes']} real {real['passes']}"
        elif m["ranges"] != real["ranges"]:
            diff = [(a, b) for a, b in zip(m["ranges"], real["ranges"]) if a != b][:4]
            bad = f"ranges (tensor:lr:start:end:size): model/real differ at {diff} (lengths {len(m['ranges'])}/{len(real['ranges'])})"
        if bad:
            disagreements.append((r, o, bad))
        elif m.get("wf") != "1" and not r.get("stub"):
            ck.violation("abstract schedule violates consumersTruthful (consumer_list shorter than the readers in the schedule): "
                         f"hypothesis of fused_ranges_safe does not hold for network {o['idx']} {o['profile']} {o['opts']}",
                         {"profile": o["profile"], "seed": o["seed"], "index": o["idx"], "opts": o["opts"], "network": o["desc"],
                          "request": r["line"][:4000]}, found_input=True)
    spec_ans = ck.model(spec_lines, parallel=False) if spec_lines else []
    rejected = {}
    for (o, st), line, ans in zip(spec_owner, spec_lines, spec_ans):
        m = re.match(r"uncovered=(\d+) (.*?) \| io=(\d+) (.*?) \| clobbers=(\d+) (.*?) \| regressions=(\d+) (.*)", ans)
        if not m:
            raise common.InfraError("unexpected lrspec answer: " + ans[:200])
        ck.count(prefix + "spec_networks")
        for k, v in st.items():
            if k != "eq_names":
                ck.count(prefix + "spec_" + k, v)
        nu, nio, ncl, nrg = int(m.group(1)), int(m.group(3)), int(m.group(5)), int(m.group(7))
        if nu or nio or ncl or nrg:
            rejected[(o["profile"], o["idx"])] = (o, line, ans, nu, nio, ncl, nrg, st.get("eq_names", {}), m.group(6))
    # failing-input search: a disagreement is the code's fault only if the Lean Spec rejects the real ranges
    for (o, line, ans, nu, nio, ncl, nrg, eq_names, cl) in rejected.values():
        key = None
        kn = (known or {}).get((o["profile"], o["idx"]))
        if kn is not None and ncl and not (nu or nio or nrg):
            tens = [tok.split(":")[1] for tok in cl.split()]
            if tens and all(set(eq_names.get(t, [])) & kn[1] for t in tens):
                key = kn[0]
        what = []
        if nu:
            what.append("tensor accessed outside its live range (tensor@lo..hi): " + ans.split(" | ")[0])
        if nio:
            what.append("network input/output not live at the start/end of the inference: " + ans.split(" | ")[1])
        if ncl:
            what.append("two tensors share one live range and a value is overwritten before it is read "
                        "(reader op:tensor:writer op): " + ans.split(" | ")[2])
        if nrg:
            what.append("time indices decrease along the execution order (interleaved operations do not share one index; "
                        "op@time<previous): " + ans.split(" | ")[3])
        ck.violation("; ".join(what) + f" (network {o['idx']} {o['profile']} {o['opts']})",
                     {"profile": o["profile"], "seed": o["seed"], "index": o["idx"], "opts": o["opts"], "network": o["desc"],
                      "lrspec_request": line[:6000], "verdict": ans}, found_input=True, key=key)
    for r, o, bad in disagreements[:6]:
        key = (o["profile"], o["idx"])
        ck.violation(f"live-range model and live_range.py disagree on {r['kind']} subgraph {r['sg']}: {bad} "
                     f"(network {o['idx']} {o['profile']} {o['opts']})",
                     {"profile": o["profile"], "seed": o["seed"], "index": o["idx"], "opts": o["opts"], "network": o["desc"],
                      "correspondence": "Model/LiveRange.lean extractNpu/extractCpu = live_range.extract_live_ranges_from_*",
                      "request": r["line"][:6000], "real": r["real"], "model": answers[inst.index(r)][:3000],
                      "spec_rejects_same_network": key in rejected},
                     found_input=key in rejected)
    all_branches = ["cascade_member", "rolling_buffer", "single_buffer", "double_buffer", "pre_buffer", "memcpy", "elementwise",
                    "cpu_descend", "cpu_no_descend", "npu_callout", "variable_tensor", "cascade_number_without_info",
                    "stub_error_assert", "stub_error_attribute"]
    return {"liverange_stage_s": round(time.time() - t_stage, 2),
            "liverange_unreached_branches": [b for b in all_branches if b not in seen_branches],
            "liverange_instances": len(inst), "liverange_distinct_nontrivial": len(nontrivial),
            "liverange_spec_networks": len(spec_lines), "liverange_disagreements": len(disagreements),
            "liverange_spec_rejections": len(rejected)}
