"""C11 / C14 — the TFLite writer and reader against their Lean models (Model/TfliteWriter.lean, Model/TfliteReader.lean) and the
Lean Spec of a written file (Spec/TfliteFile.lean).

function level (`function_stage`): generated source files (harness/wgen.py) go through the real reader and the real writer
  (harness/wfunc.py); Lean compares `Reader.read` of the walked source with the description of what the reader built, and
  `Writer.write` of the description of the graph with the walk of the file the writer produced (or the kind of exception on
  both sides). A disagreement is followed by the failing-input search: `Spec.conforms` / `Spec.readOk` / `Spec.metadataKept`
  on the real output of the same case.
hash seeds (`hashseed_stage`): the same cases written by the real writer in fresh interpreters under different
  PYTHONHASHSEED values must give the SAME table tree (Lean `wsame`): the iteration order of the operator-code `set` is the
  only unordered collection the writer walks (`write_deterministic`).
pipeline level (`capture` / `pipeline_requests`): on every compilation of the C11 corpus the graph is described right before
  `tflite_writer.write_tflite` runs (wrapped from outside) and the output file is compared with the model's file.
"""
import base64
import json
import os
import subprocess
import sys

import common
import wtree

HERE = os.path.dirname(os.path.abspath(__file__))


def _replay(case):
    return {"stream": "writer-function-level", "seed": case["seed"], "index": case["idx"], "malformed": case["malformed"],
            "features": sorted(case["features"]), "src_model_b64": base64.b64encode(case["src"]).decode()}


def function_stage(ck, n, n_malformed, only=None):
    """`only=(malformed, index)`: just that case (replay of a violation of this stream)"""
    import wfunc

    reqs, owners = [], []
    cases = []
    for mal, idxs in ((False, range(n)), (True, range(n_malformed))) if only is None else ((bool(only[0]), [int(only[1])]),):
        for i in idxs:
            pert = (i % 4 != 0) and not mal
            c = wfunc.run_case(ck.seed, i, malformed=mal, do_perturb=pert)
            c["perturbed"] = pert
            cases.append(c)
            for f in c["features"]:
                ck.count("wfeature_" + f)
            r = c["read"]
            ck.count("wreader_" + r[0] + (":" + r[1].split(":")[0] if r[0] != "ok" else ""))
            if r[0] == "ok":
                reqs += ["wread " + c["src_tree"] + " " + r[1], "wreadspec " + r[1]]
                owners += [(c, "read"), (c, "readspec")]
            elif r[0] == "err":
                reqs.append(f"wreaderr {r[1]} " + c["src_tree"])
                owners.append((c, "readerr"))
            w = c["write"]
            if w is None:
                continue
            ck.count("wwriter_" + w[0] + (":" + w[1].split(":")[0] if w[0] != "ok" else ""))
            if w[0] == "ok":
                reqs += ["wwrite " + w[1] + " " + w[2], "wspec " + w[1] + " " + w[2], "wloop " + w[1], "wdomain " + w[1]]
                owners += [(c, "write"), (c, "spec"), (c, "loop"), (c, "domain")]
                rr = c.get("reread")
                if rr is not None:
                    ck.count("wreread_" + rr[0] + (":" + rr[1].split(":")[0] if rr[0] != "ok" else ""))
                    if rr[0] == "ok":
                        reqs.append("wnorm " + w[1] + " " + rr[1])
                        owners.append((c, "norm"))
                    elif rr[0] == "err":
                        reqs.append(f"wnormerr {rr[1]} " + w[1])
                        owners.append((c, "norm"))
                if not c["perturbed"]:
                    from ethosu.vela import tflite_writer as tw

                    reqs.append("wmeta " + wtree.xb(str(tw.__version__).encode()) + " " + c["src_tree"] + " " + w[2])
                    owners.append((c, "meta"))
            elif w[0] == "err":
                reqs.append(f"wwriteerr {w[1]} " + w[2])
                owners.append((c, "writeerr"))
    ans = ck.model(reqs)
    by_case = {}
    for (c, what), a, rq in zip(owners, ans, reqs):
        by_case.setdefault(id(c), {})[what] = (a, rq)
        ck.count(f"w_{what}_" + a.split(" ")[0])
        if what == "domain" and a.startswith("out "):
            ck.count("w_domain_out_" + a.split(" ")[1])       # which clause of Spec.conformsDomainB the description leaves
    disagreements = 0
    budget = {}            # at most 4 reports per (stream, failing input found?) so that no stream crowds out the others

    def report(cls, what, rep, found):
        budget[(cls, found)] = budget.get((cls, found), 0) + 1
        if budget[(cls, found)] <= 4:
            ck.violation(what, rep, found_input=found)
        else:
            ck.count(f"w_unreported_{cls}_{'found' if found else 'nofound'}")

    for c in cases:
        res = by_case.get(id(c), {})
        covered = set()
        for what, spec_for in (("read", ("readspec",)), ("readerr", ()), ("write", ("spec", "meta")), ("writeerr", ())):
            if what not in res:
                continue
            a, rq = res[what]
            if a.startswith("same"):
                continue
            disagreements += 1
            bad = [(s, res[s][0]) for s in spec_for if s in res and not res[s][0].startswith("ok")]
            covered.update(s for s, _ in bad)
            side = "reader" if what.startswith("read") else "writer"
            rep = dict(_replay(c), answer=a, request=rq[:4000])
            if bad:
                report(side, f"the real TFLite {side} leaves its specification on a generated file: {bad[0][1][:200]} (model vs code: {a[:120]}; "
                       f"case {c['idx']}{' malformed' if c['malformed'] else ''})", dict(rep, spec=bad), True)
            else:
                report(side, f"model of the TFLite {side} disagrees with the code: {a[:200]} (case {c['idx']}{' malformed' if c['malformed'] else ''}); "
                       f"the Spec accepts the real output", rep, False)
        # model only: writing what the reader model makes of the model's file gives the same file (the unproved assembly of
        # read_write_roundtrip); `err:read:*` = the description is outside the reader's domain (e.g. data / shape sizes differ)
        if "loop" in res:
            a = res["loop"][0]
            if a.startswith("differ") or a.startswith("err:rewrite"):
                report("loop", f"read_write_roundtrip fails on the models: write (read (write d)) is not write d for a generated description: "
                       f"{a[:200]} (case {c['idx']})", dict(_replay(c), answer=a, request=res["loop"][1][:4000]), False)
        # read_write_roundtrip end to end: the real reader on the real writer's file against Spec.normalise of the description
        if "norm" in res and not res["norm"][0].startswith("same") and not res["norm"][0].startswith("outside "):
            a, rq = res["norm"]
            wrote_same = "write" in res and res["write"][0].startswith("same")
            report("norm", f"the real reader on the file the real writer produced does not build Spec.normalise of the written graph: {a[:200]} "
                   f"(case {c['idx']}; writer model vs code: {res.get('write', ('?',))[0][:60]})",
                   dict(_replay(c), answer=a, request=rq[:4000]), False)
        # the Spec alone (model and code agree, or the model has no opinion)
        for s in ("readspec", "spec", "meta"):
            if s in res and not res[s][0].startswith("ok") and s not in covered:
                report(s, f"the real TFLite reader/writer leaves its specification ({s}): {res[s][0][:200]} (case {c['idx']})",
                       dict(_replay(c), spec=res[s][0]), True)
    ok_cases = [c for c in cases if c["write"] is not None and c["write"][0] == "ok"]
    return {"requests": len(reqs), "cases": len(cases), "written": len(ok_cases), "disagreements": disagreements}, cases


# ------------------------------------------------------------------------------------------------
# the same cases under other hash seeds


def hashseed_stage(ck, cases, hash_seeds, limit):
    """cases whose operator-code set has several entries of one operator type (third-party custom operators, one builtin in
    several versions) first, then others, `limit` in total"""
    pri = [c for c in cases if c["write"] is not None and c["write"][0] == "ok" and not c["malformed"]
           and c["features"] & {"third_party_custom", "same_builtin_several_versions"}]
    rest = [c for c in cases if c["write"] is not None and c["write"][0] == "ok" and not c["malformed"] and c not in pri]
    chosen = (pri + rest)[:limit]
    if not chosen:
        return 0
    spec = json.dumps({"seed": ck.seed, "cases": [[c["idx"], c["idx"] % 4 != 0] for c in chosen]})
    trees = {c["idx"]: [c["write"][2]] for c in chosen}
    env0 = dict(os.environ, VERIF_REPO=common.REPO)
    ext = common.build_mlw_codec()
    env0["PYTHONPATH"] = os.pathsep.join([ext, common.REPO, HERE])
    procs = []
    for hs in hash_seeds:
        env = dict(env0, PYTHONHASHSEED=str(hs))
        procs.append((hs, subprocess.Popen([common.PY, os.path.join(HERE, "writer_stage.py"), "--sub"], stdin=subprocess.PIPE,
                                           stdout=subprocess.PIPE, stderr=subprocess.PIPE, text=True, env=env)))
    for hs, p in procs:
        out, err = p.communicate(spec, timeout=900)
        if p.returncode != 0:
            raise common.InfraError(f"hash-seed subprocess failed (PYTHONHASHSEED={hs}): {err[-800:]}")
        for line in out.split("\n"):
            if line.startswith("TREE "):
                _t, idx, tree = line.split(" ", 2)
                trees[int(idx)].append(tree)
    reqs = ["wsame " + " ".join(trees[c["idx"]]) for c in chosen]
    ans = ck.model(reqs)
    shown = 0
    for c, a, ts in zip(chosen, ans, (trees[c["idx"]] for c in chosen)):
        ck.count("w_hashseed_" + a.split(" ")[0])
        if (len(ts) != len(hash_seeds) + 1 or not a.startswith("same")):
            shown += 1
            if shown > 4:
                continue
        if len(ts) != len(hash_seeds) + 1:
            ck.violation(f"the writer did not produce a file under another PYTHONHASHSEED for case {c['idx']} ({len(ts) - 1} of {len(hash_seeds)})",
                         _replay(c), found_input=True)
        elif not a.startswith("same"):
            k = int(a.split(" ")[1]) if a.startswith("differ") else 0
            ck.violation(f"the written file depends on PYTHONHASHSEED: {a[:200]} (case {c['idx']}, in-process vs PYTHONHASHSEED="
                         f"{hash_seeds[k - 1] if 0 < k <= len(hash_seeds) else '?'})",
                         dict(_replay(c), hash_seeds=list(hash_seeds), answer=a), found_input=True)
    return len(chosen)


def _sub_main():
    """child: write the listed cases again in this interpreter (its own hash seed) and print the walked files"""
    spec = json.loads(sys.stdin.read())
    import pipeline

    pipeline.load_vela()
    import wfunc

    for idx, pert in spec["cases"]:
        c = wfunc.run_case(spec["seed"], idx, malformed=False, do_perturb=pert, payloads=False)
        if c["write"] is not None and c["write"][0] == "ok":
            print(f"TREE {idx} {c['write'][2]}")
    sys.stdout.flush()


# ------------------------------------------------------------------------------------------------
# pipeline level: the graph right before write_tflite


class capture:
    """with capture() as cap: compile …  ->  cap.desc (text) or cap.error"""

    def __enter__(self):
        from ethosu.vela import tflite_writer

        self.tw = tflite_writer
        self.orig = tflite_writer.write_tflite
        self.desc = None
        self.error = None

        def wrapped(nng, filename):
            try:
                self.desc = wtree.text(wtree.describe(nng))
            except wtree.Undescribable as e:
                self.error = "undescribable: " + str(e)[:120]
            return self.orig(nng, filename)

        tflite_writer.write_tflite = wrapped
        return self

    def __exit__(self, *a):
        self.tw.write_tflite = self.orig
        return False


if __name__ == "__main__" and "--sub" in sys.argv:
    _sub_main()
