"""Pipeline-level request builders of check_C08 (no verdicts here: every line goes to a Lean handler of
Handlers/WeightStream.lean or Handlers/WeightLayout.lean).

* transparent_line  : one answer of encode_weight_and_scale_tensor + the answer of the same request with the
                      compression cache bypassed                       -> `wl_transparent` (Spec.CacheTransparent)
* prepq_line_*      : what _prepare_scale_and_bias has to produce, as the two double quotients per weight scale;
                      the quantiser is the Lean C09 model              -> `wl_prepq`
* emitted_line      : command words and constants tensor of the OUTPUT FILE + per operation side information
                                                                       -> `wl_emitted` (ScaleRegsOk, WeightRegsOk, WeightsAt)
"""
import math

import numpy as np


def hexs(b):
    return bytes(b).hex() if len(b) else "-"


def ranges_of(t):
    return [(k.core, k.depth, r.offset, r.scale_bytes, r.weight_offset, r.weight_bytes, r.index) for k, r in t.encoded_ranges.items()]


def etensor_tokens(t):
    from ethosu.vela.api import NpuBlockTraversal

    rs = ranges_of(t)
    toks = [int(t.hw_traversal == NpuBlockTraversal.PART_KERNEL_FIRST), int(t.double_buffer_sizes[0]), int(t.double_buffer_sizes[1]), len(rs)]
    for r in rs:
        toks += [int(x) for x in r[:6]]
    toks.append(hexs(t.buffer))
    return " ".join(map(str, toks))


def transparent_line(wt, st, fresh):
    return "wl_transparent %s %d %s%s" % (etensor_tokens(wt), int(st is not None), (etensor_tokens(st) + " ") if st is not None else "",
                                          etensor_tokens(fresh))


def dbl_tokens(x):
    x = float(x)
    if math.isnan(x):
        return "n"
    if math.isinf(x):
        return "i"
    if x == 0.0:
        return "z"
    m, e = math.frexp(abs(x))
    return "f %d %d %d" % (int(x < 0), int(m * (1 << 53)), e - 53)


IFMT = {"uint8": 0, "int8": 1, "int16": 2}


def _prepq(ifm_kind, is_fc, bias64, explicit, away, ifm_scale, wscales, ofm_scale, nbias):
    """ifm_scale / wscales / ofm_scale are np.float32 (what a TFLite file stores)"""
    ds = []
    for s in wscales:
        a = np.double(np.float32(ifm_scale) * np.float32(s)) / np.double(ofm_scale)
        b = (np.double(ifm_scale) * np.double(s)) / np.double(ofm_scale)
        ds.append(dbl_tokens(a) + " " + dbl_tokens(b))
    expl = []
    if explicit:
        for sh, m in zip(explicit.shift, explicit.multiplier):
            expl += [int(m), int(sh)]
    toks = [IFMT.get(ifm_kind, 3), int(is_fc), int(bias64), int(bool(explicit)), len(expl) // 2] + expl + [int(away), len(ds)] + ds + [nbias]
    return "wl_prepq " + " ".join(map(str, toks))


def prepq_line_graph(wc, op, scale_tens, result_scale=None):
    """from the operator of the optimised graph, read exactly as _prepare_scale_and_bias reads it; `result_scale`: see
    fused_result_scale"""
    from ethosu.vela.data_type import DataType
    from ethosu.vela.operation import Op, RoundingMode

    first = scale_tens.consumer_list[0]
    wsc = first.inputs[1].quantization.scale_f32
    if not hasattr(wsc, "__iter__"):
        wsc = [wsc]
    kind = {DataType.uint8: "uint8", DataType.int8: "int8", DataType.int16: "int16"}.get(first.inputs[0].dtype, "other")
    return _prepq(kind, first.original_type == Op.FullyConnected, scale_tens.dtype == DataType.int64, op.explicit_scaling,
                  first.rounding_mode == RoundingMode.AwayZero, wc._get_input_quantization(first).scale_f32, wsc,
                  wc._get_output_quantization(first).scale_f32 if result_scale is None else result_scale, len(scale_tens.values))


SRC_KINDS = {"CONV_2D": (0, 1, 2), "DEPTHWISE_CONV_2D": (0, 1, 2), "FULLY_CONNECTED": (0, 1, 2), "TRANSPOSE_CONV": (2, 1, 3)}


def source_ops(net):
    """output tensor name -> (operator, ifm, filter, bias tensors) of the SOURCE network (netgen IR), for the
    operators that carry a constant bias"""
    out = {}
    for o in net.ops:
        if o.kind not in SRC_KINDS:
            continue
        ii, wi, bi = SRC_KINDS[o.kind]
        if len(o.inputs) <= bi or o.inputs[bi] is None or o.inputs[bi] < 0:
            continue
        x, w, b = net.tensors[o.inputs[ii]], net.tensors[o.inputs[wi]], net.tensors[o.inputs[bi]]
        y = net.tensors[o.outputs[0]]
        if b.data is None or w.data is None or not x.scales or not y.scales or not w.scales:
            continue
        if o.opts and o.opts[1].get("FusedActivationFunction", 0) != 0:
            continue
        out[y.name] = (o, x, w, b, y)
    return out


def prepq_line_source(src, result_scale=None):
    """from the source file: IFM / filter / OFM scales as float32, bias values of the operator's own bias tensor;
    `result_scale`: see fused_result_scale"""
    o, x, w, b, y = src
    return _prepq(x.dtype, o.kind == "FULLY_CONNECTED", b.dtype == "int64", None, False, np.float32(x.scales[0]),
                  [np.float32(s) for s in w.scales], np.float32(y.scales[0] if result_scale is None else result_scale), int(np.prod(b.shape)))


def fused_result_scale(cmd, net=None):
    """The tensor an emitted operation writes is not always the primary operator's own output: later operators of the
    same pass (RELU-class clamps, which only limit the range) are fused, and the tensor in memory is THEIR output, which
    the consumer interprets with ITS quantisation.  The accumulator therefore has to be scaled by s_ifm * s_w / s_result;
    returns s_result (np.float32) — from the source file when the tensor exists there, else from the optimised graph —
    or None when the operation writes the primary operator's own output (or something else than clamps is fused)."""
    ps = cmd.ps
    pop, res = ps.primary_op, cmd.ofm_tensor
    if pop is None or res is None or res is pop.ofm or pop not in ps.ops:
        return None
    later = ps.ops[ps.ops.index(pop) + 1:]
    if not later or not all(o.type.is_relu_op() for o in later) or later[-1].ofm is not res:
        return None
    if pop.forced_output_quantization is not None or res.quantization is None or res.quantization.scale_f32 is None:
        return None
    if net is not None:
        for t in net.tensors:
            if t.name == res.name and t.scales:
                return np.float32(t.scales[0])
    sc = np.asarray(res.quantization.scale_f32)
    return np.float32(sc.reshape(-1)[0]) if sc.size == 1 else None


# weighted sub-kinds of the near_scale family first: the scale records of their operations are judged at register level
NEAR_KINDS = (0, 5, 7, 4, 11, 14, 2, 3, 1, 6, 10)


def near_scale_jobs(netgen, seed, thorough, net_replay):
    """[(name, net, options)]: networks of the `near_scale` family (harness/gen_nearscale.py) for the register-level stage"""
    import random

    import gen_nearscale

    nk = len(gen_nearscale.KINDS)
    n = 66 if thorough else 14
    accs = ["ethos-u55-128", "ethos-u65-512", "ethos-u55-64", "ethos-u65-256", "ethos-u55-256"]
    out = []
    for j in range(n):
        variant = NEAR_KINDS[j % len(NEAR_KINDS)] + nk * (j // len(NEAR_KINDS) + (seed % 13))
        name = f"ns_{j}"
        rs = seed
        if net_replay:
            if net_replay[0][0]["network"].split("@")[0] != name:
                continue
            rs = net_replay[0][1]
            variant = NEAR_KINDS[j % len(NEAR_KINDS)] + nk * (j // len(NEAR_KINDS) + (rs % 13))
        r = random.Random(rs * 15485863 + j)
        # every fourth network is the control (bit-identical scales: the clamp IS fused and the result tensor's scale is used)
        net = gen_nearscale.near_scale(r, j, variant, steps=0 if j % 4 == 3 else None)
        out.append((name, net, ["--accelerator-config", accs[j % len(accs)], "--optimise", "Performance" if j % 3 else "Size"]))
    return out


def match_custom_ops(pipeline, model, streams):
    """pair every captured stream with the custom operator of the output file that carries the same command words"""
    ops = pipeline.ethosu_ops(model)
    used, out = set(), []
    for art in streams:
        hit = None
        for j, (_si, _op, tens, _rest) in enumerate(ops):
            if j in used:
                continue
            words = pipeline.strip_payload(pipeline.payload_words(model, tens[0]))
            if art.words is not None and words == list(art.words):
                hit = (j, words, bytes(model["buffers"][tens[1]["buffer"]] or b""))
                break
        if hit is not None:
            used.add(hit[0])
        out.append(hit)
    return out


def emitted_line(arch, words, flash, infos):
    from ethosu.vela.architecture_features import ArchitectureFeatures

    accfg = ArchitectureFeatures.accelerator_configs[arch.accelerator_config]
    toks = ["wl_emitted", accfg.ifm_ublock.depth, accfg.ofm_ublock.depth, ArchitectureFeatures.SubKernelMax.height,
            ArchitectureFeatures.SubKernelMax.width, hexs(flash), len(words)] + list(words) + [len(infos)] + list(infos)
    return " ".join(map(str, toks))


def op_info(mlw_codec, wc, op_index, cmd, ncores, recs, biases, judge_weights=True):
    """side information of one emitted operation with weights.
    recs = [(multiplier, shift)] per channel (a Lean answer), biases = the operator's own bias values"""
    from ethosu.vela.operation import Op

    pop = cmd.ps.primary_op
    wv = pop.weights.values
    full = int(wv.shape[-1])
    c0, c1 = int(cmd.weight_box.start_coord[-1]), int(cmd.weight_box.end_coord[-1])
    toks = [op_index, full, c0, c1, full]
    for ch in range(full):
        m, s = recs[ch] if ch < len(recs) else (0, 0)
        toks += [int(biases[ch]) if ch < len(biases) else 0, m, s]
    wt = cmd.weight_tensor
    src = wt.src_tensor if wt.src_tensor is not None else wt
    zp = pop.weights.quantization.zero_point
    if isinstance(zp, (int, float, np.integer, np.floating)):
        zpl = [int(zp)]
    else:
        z = np.asarray(zp)
        zpl = [int(x) for x in np.broadcast_to(z, (full,))] if z.size in (1, full) and z.ndim <= 1 else None
    if not judge_weights or zpl is None or not isinstance(src, wc.NpuWeightTensor):
        toks.append(0)
        return " ".join(map(str, toks))
    vals = wv
    if vals.ndim == 2:
        vals = vals.reshape((1, 1) + vals.shape)
    H, W, I, O = vals.shape
    toks += [1, H, W, I, O, int(pop.type == Op.Conv2DBackpropInputSwitchedBias), len(zpl)] + zpl
    flat = vals.astype(np.int64).reshape(-1)
    toks += [len(flat), " ".join(map(str, flat.tolist()))]
    own = []
    for core in range(ncores):
        if core >= c1 - c0:
            continue            # the core owns no channel of the stripe
        r = src.encoded_ranges.get(wc.WeightKey(core, c0))
        if r is None:
            break
        sec = bytes(src.buffer[r.offset + r.weight_offset: r.offset + r.weight_offset + r.weight_bytes])
        dec = list(mlw_codec.decode(bytearray(sec))) if len(sec) else []
        own.append("%s %d%s" % (hexs(sec), len(dec), (" " + " ".join(map(str, dec))) if dec else ""))
    toks.append(len(own))
    toks += own
    return " ".join(map(str, toks))


def is_dilated_copy(small, big):
    """big == small with zeros inserted between the kernel taps (what fixup_dilation_gt2 builds)"""
    if small.ndim != 4 or big.ndim != 4 or small.shape[2:] != big.shape[2:]:
        return False
    (h, w), (H, W) = small.shape[:2], big.shape[:2]
    if (H, W) == (h, w) or H < h or W < w:
        return False
    fh = (H - 1) // (h - 1) if h > 1 else 1
    fw = (W - 1) // (w - 1) if w > 1 else 1
    if (h - 1) * fh + 1 != H or (w - 1) * fw + 1 != W:
        return False
    ref = np.zeros(big.shape, dtype=big.dtype)
    ref[::fh, ::fw][:h, :w] = small
    return bool(np.array_equal(ref, big))
