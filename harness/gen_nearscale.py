"""Named pattern family `near_scale` (hooked into netgen.PATTERNS / netgen_ext.BUILDERS / sweep.TABLE).

Every requantising boundary of a network — the place where the compiler decides between "same quantisation, nothing to
do" and "derive a (multiplier, shift) pair for s_in / s_out" — is generated with scales that are NEARLY but not exactly
equal: 1 .. ~1700 float32 steps apart (relative difference 6e-8 .. 1e-4), a legal quantisation (two float32 roundings of
ranges that are almost the same).  Sub-kinds (`variant` selects one deterministically, None draws):

  conv_relu / dw_relu / fc_relu / tconv_relu   a weighted operator without fused activation, then a separate RELU-class
                                               operator whose output scale is near its input scale
  add_relu / pool_relu                         the same after an elementwise ADD / MUL or a pooling operator
  relu_chain                                   two successive clamp operators, each with its own nearly-equal scale
  reshape_between                              a memory-only operator (RESHAPE / SQUEEZE-like) between producer and RELU
  quantize_chain                               QUANTIZE operators whose input / output scales are near each other
  concat_in                                    CONCATENATION whose operands' scales are near the result's scale
  lrelu                                        LEAKY_RELU (int8 / int16) with nearly equal input / output scales
  mean_1x1                                     MEAN that reduces nothing (1x1 map) with nearly equal scales (memcpy vs rescale)
  pad_conv                                     PAD whose output scale is near its input's, then a VALID convolution
  minmax                                       MAXIMUM / MINIMUM whose operands / result have nearly equal scales
  memonly_io                                   RESHAPE / STRIDED_SLICE / SPLIT whose own output scale is near the input's

One instance in `CONTROL` steps is the control: distance 0 (bit-identical scales), or identical scales and zero points one
apart.  Everything is drawn from the `random.Random` passed in; a network replays from (seed, index, profile).
"""
import numpy as np

import netgen
from netgen import B, Op

KINDS = ["conv_relu", "add_relu", "quantize_chain", "concat_in", "reshape_between", "dw_relu", "pool_relu", "relu_chain",
         "lrelu", "mean_1x1", "pad_conv", "fc_relu", "minmax", "memonly_io", "tconv_relu"]
# float32 steps between the two scales (sign drawn); 51 steps = the 4e-6 of the recorded seeded change
STEPS = [1, 34, 2, 168, 8, 51, 3, 839, 17, 84, 1678, 5, 500]
CONTROL = 8


def near(rng, s, k):
    """the float32 value k steps away from float32 value s (as a Python float)"""
    bits = int(np.float32(s).view(np.uint32)) + int(k)
    bits = max(0x00800000, min(bits, 0x7F7FFFFF))
    return float(np.uint32(bits).view(np.float32))


class Ctx:
    def __init__(self, b, rng, k, zp_shift):
        self.b, self.rng, self.k, self.zp_shift = b, rng, k, zp_shift
        self.n_boundaries = 0

    def detune(self, t_out, t_in=None, k=None):
        """give tensor t_out the quantisation of t_in (default: its own) moved by k float32 steps"""
        b = self.b
        src = b.t(t_in if t_in is not None else t_out)
        k = self.k if k is None else k
        b.t(t_out).scales = [near(self.rng, src.scales[0], k)]
        zp = src.zps[0]
        if self.zp_shift and b.t(t_out).dtype != "int16":
            lo, hi = netgen._qrange(b.t(t_out).dtype)
            zp = zp + 1 if zp < hi else zp - 1
        b.t(t_out).zps = [zp]
        self.n_boundaries += 1
        return t_out


def _clamp(ctx, x, kind=None):
    b, rng = ctx.b, ctx.rng
    kind = kind or rng.choice(["RELU", "RELU", "RELU6", "RELU_N1_TO_1"])
    z = b.unary(kind, x)                # builder copies the input quantisation
    ctx.detune(z, x)
    return z


def _tail(ctx, x):
    """optionally an NPU consumer of the result (so the tensor is not only a subgraph output)"""
    b, rng = ctx.b, ctx.rng
    r = rng.random()
    xt = b.t(x)
    if r < 0.35 and len(xt.shape) == 4:
        return b.conv(x, rng.choice([4, 8, 16]), (1, 1), (1, 1), (1, 1), "SAME") or x
    if r < 0.5 and len(xt.shape) == 4 and xt.shape[1] >= 2 and xt.shape[2] >= 2:
        return b.pool(x, "MAX_POOL_2D", (2, 2), (2, 2), "VALID") or x
    return x


def near_scale(rng, idx=0, variant=None, steps=None):
    """`steps`: force the distance (in float32 steps) between the two scales of every boundary (0 = the control)"""
    kind = KINDS[variant % len(KINDS)] if variant is not None else rng.choice(KINDS)
    r_kind = rng.randrange(len(KINDS))          # same number of draws whether or not `variant` is given
    del r_kind
    round_ = (variant // len(KINDS)) if variant is not None else rng.randrange(1000)
    dtype = ["int8", "int8", "uint8", "int8", "int16"][(round_ + (variant or 0)) % 5] if variant is not None else rng.choice(["int8", "int8", "uint8", "int16"])
    control = ((variant if variant is not None else round_) % CONTROL) == CONTROL - 1
    k = 0 if control else STEPS[(round_ + (variant or 0)) % len(STEPS)] * rng.choice([1, -1])
    zp_shift = control and rng.random() < 0.5
    if steps is not None:
        k, zp_shift = steps, False
    if kind in ("lrelu",) and dtype == "uint8":
        dtype = "int8"
    b = B(rng, f"near{idx}_{kind}", dtype)
    ctx = Ctx(b, rng, k, zp_shift)
    h, w = rng.choice([4, 6, 8, 12]), rng.choice([4, 8, 12])
    c = rng.choice([4, 8, 16])
    if kind == "fc_relu":
        x = b.input([1, rng.choice([16, 32, 64])])
    elif kind == "mean_1x1":
        x = b.input([1, 1, 1, c])
    else:
        x = b.input([1, h, w, c])
    out, extra_outs = None, []
    if kind in ("conv_relu", "dw_relu", "tconv_relu"):
        if kind == "conv_relu":
            kk = rng.choice([1, 1, 3])
            y = b.conv(x, rng.choice([8, 16, 24]), (kk, kk), (1, 1), (1, 1), "SAME", act=0, per_channel=rng.random() < 0.5)
        elif kind == "dw_relu":
            y = b.dwconv(x, (3, 3), (1, 1), (1, 1), "SAME", act=0)
        else:
            y = b.transpose_conv(x, rng.choice([8, 16]), (3, 3), (2, 2), "SAME") if dtype != "int16" else b.conv(x, 8, (3, 3), act=0)
        out = _tail(ctx, _clamp(ctx, y))
    elif kind == "fc_relu":
        y = b.fc(x, rng.choice([8, 16, 40]), act=0)
        out = _clamp(ctx, y)
    elif kind == "add_relu":
        x2 = b.input([1, h, w, c])
        y = b.binary(rng.choice(["ADD", "ADD", "MUL", "SUB"]), x, x2, act=0)
        out = _tail(ctx, _clamp(ctx, y))
    elif kind == "pool_relu":
        y = b.pool(x, rng.choice(["AVERAGE_POOL_2D", "MAX_POOL_2D"]), (2, 2), (1, 1), "SAME", act=0)
        out = _tail(ctx, _clamp(ctx, y))
    elif kind == "relu_chain":
        y = b.conv(x, rng.choice([8, 16]), (1, 1), act=0)
        z1 = _clamp(ctx, y, "RELU")
        ctx.k = -ctx.k if rng.random() < 0.5 else ctx.k
        out = _clamp(ctx, z1, rng.choice(["RELU6", "RELU_N1_TO_1"]))
    elif kind == "reshape_between":
        oc = rng.choice([8, 16])
        y = b.conv(x, oc, (1, 1), act=0)
        r = b.reshape(y, rng.choice([[1, h * w, 1, oc], [1, 1, h * w, oc], [h * w, oc], [1, w, h, oc]]))
        z = _clamp(ctx, r)
        out = z
    elif kind == "quantize_chain":
        first = b.conv(x, 8, (1, 1), act=0) if rng.random() < 0.5 else x
        q1 = b.quantize(first)
        ctx.detune(q1, first)
        q2 = b.quantize(q1)
        ctx.detune(q2, q1, k=ctx.k if rng.random() < 0.5 else 2 * ctx.k + 1)
        out = _clamp(ctx, q2) if rng.random() < 0.4 else _tail(ctx, q2)
    elif kind == "concat_in":
        n = rng.choice([2, 2, 3])
        parts = []
        for j in range(n):
            parts.append(b.conv(x, rng.choice([8, 16]), (1, 1), act=0) if rng.random() < 0.6 else b.input([1, h, w, rng.choice([4, 8])]))
        o = b.concat(parts, 3)
        base = b.t(parts[0])
        b.t(o).scales, b.t(o).zps = [base.scales[0]], [base.zps[0]]
        for j, p in enumerate(parts[1:], 1):
            ctx.detune(p, parts[0], k=ctx.k * j)
        out = _tail(ctx, o)
    elif kind == "lrelu":
        y = b.conv(x, 8, (1, 1), act=0) if rng.random() < 0.5 else x
        z = b.unary("LEAKY_RELU", y)
        ctx.detune(z, y)
        out = _tail(ctx, z)
    elif kind == "mean_1x1":
        y = b.conv(x, c, (1, 1), act=0) if rng.random() < 0.5 else x
        z = b.mean_hw(y, keep=rng.random() < 0.7)
        ctx.detune(z, y)
        out = z
    elif kind == "pad_conv":
        p = b.pad(x, [[0, 0], [1, 1], [1, 1], [0, 0]])
        ctx.detune(p, x)
        out = b.conv(p, 8, (3, 3), (1, 1), (1, 1), "VALID", act=0) or p
    elif kind == "minmax":
        x2 = b.input([1, h, w, c])
        ctx.detune(x2, x)
        o = b.binary(rng.choice(["MAXIMUM", "MINIMUM"]), x, x2)
        if rng.random() < 0.5:
            ctx.detune(o, x, k=-ctx.k)
        out = _tail(ctx, o)
    elif kind == "memonly_io":
        y = b.conv(x, 8, (1, 1), act=0)
        which = rng.choice(["reshape", "slice", "split"])
        if which == "reshape":
            o = b.reshape(y, [1, h * w, 1, 8])
        elif which == "slice":
            o = b.strided_slice(y, [0, 0, 0, 0], [1, max(1, h - 1), w, 8])
        else:
            parts = b.split(y, 2, 3)
            o, extra_outs = parts[0], parts[1:]
        ctx.detune(o, y)
        out = _tail(ctx, o)
    if out is None:
        out = _clamp(ctx, b.conv(x, 8, (1, 1), act=0))
    b.net.desc.append(f"pattern=near_scale kind={kind} dtype={dtype} steps={ctx.k} zp_shift={int(bool(zp_shift))} boundaries={ctx.n_boundaries}")
    return b.finish([out] + list(extra_outs))
