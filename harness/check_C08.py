#!/venv/bin/python
"""C08 — encoded weight and scale tensors cover each output channel exactly once.

Proofs (Props/C08.lean) + correspondence of Model/WeightLayout.lean with weight_compressor.encode_bias /
_prepare_scale_and_bias / encode_weight_and_scale_tensor and high_level_command_to_npu_op.create_weights /
create_dma_op + the Lean Spec (Spec/WeightLayout.lean) applied to the implementation's own tensors:
ranges, scale records (decoded by the Lean record decoder), weight sections (decoded by mlw_codec.decode,
compared in Lean with the zero-point corrected channels in hardware order), double-buffer sizes,
scheduler buffers of compiled networks, and request sequences against the process-wide compression cache
(the answer is compared with a fresh encoding obtained with an empty cache).

Trusted here: scaling.quantise_scale / reduced_quantise_scale (C09) supply the candidate (multiplier,
shift) pairs from the double scale; mlw_codec.decode (C07) turns a weight section back into integers."""
import struct

import c08_pipe
import common
from common import Check, main_wrapper

# All five former findings of this property are repaired in /repo (known_findings.txt: `fixed: property=C08 ...`);
# nothing is keyed any more: a regression of any of them is a plain VIOLATION.

def main():
    ck = Check("C08", "proof")
    ck.lean_stage(["VelaVerif.Props.C08", "VelaVerif.Props.C08Src"])
    common.build_mlw_codec()
    common.setup_repo_path()
    import numpy as np
    from ethosu import mlw_codec
    from ethosu.vela import api, scaling
    from ethosu.vela import weight_compressor as wc
    from ethosu.vela import high_level_command_to_npu_op as hl
    from ethosu.vela.architecture_allocator import ArchitectureBlockConfig
    from ethosu.vela.architecture_features import Accelerator, ArchitectureFeatures, create_default_arch
    from ethosu.vela.data_type import DataType
    from ethosu.vela.errors import UnsupportedFeatureError
    from ethosu.vela.high_level_command_stream import Box
    from ethosu.vela.operation import ExplicitScaling, Kernel, NpuBlockType, Op, Operation, RoundingMode
    from ethosu.vela.shape4d import Shape4D
    from ethosu.vela.tensor import (MemArea, MemType, QuantizationParameters, Tensor, TensorFormat, TensorPurpose,
                                    create_const_tensor)

    rng = ck.rng
    T = ck.thorough
    # a replay that names a generated network of section 5 (sc_fixed*, sc_rand*, wnet*): the network is rebuilt from (name, seed)
    # further down, compiled with the recorded options and put through all pipeline checks; the stub-level sections shrink
    net_replay = []
    if ck.replay_arg:
        import json as _json
        import os as _os
        _rp = _json.load(open(ck.replay_arg if _os.path.isabs(ck.replay_arg) else _os.path.join(common.VERIF, ck.replay_arg)))
        _d = _rp.get("replay", {})
        if not _d.get("stub_case") and str(_d.get("network", "")).startswith(("sc_fixed", "sc_rand", "wnet", "ns_")) and _d.get("options"):
            net_replay.append((_d, int(_rp.get("seed", 0))))
            print("replaying:", _rp.get("what", "")[:300])
    accs = list(Accelerator)
    archs = {}

    def arch_of(acc):
        if acc not in archs:
            archs[acc] = create_default_arch(acc)
        return archs[acc]

    cache = wc.CompressedWeightCache.cache

    def wcc_of(weight_tens, op, block_config, depth_offsets, kernel):
        """the implementation's own cache key for a request (signature with / without the IFM bit depth)"""
        a = [weight_tens, op.type.npu_block_type, block_config.ofm_block.depth, hash(str(depth_offsets)), kernel.dilation]
        fields = wc.WeightCompressionConfig._fields
        if "ifm_bitdepth" in fields:
            a.append(op.inputs[0].dtype.size_in_bits())
        if "flipped" in fields:
            a.append(op.type == Op.Conv2DBackpropInputSwitchedBias)      # proposed repair /verif_patches/C08-21
        return wc.create_weight_compression_config(*a)

    # ------------------------------------------------------------------------------------------
    # 1. encode_bias: model correspondence + Spec decoder on the real bytes
    def bias_cases():
        edge_b = [0, 1, -1, (1 << 39) - 1, -(1 << 39), 1 << 39, -(1 << 39) - 1, 255, 256, -256, (1 << 32), -(1 << 32), 1 << 62]
        edge_s = [0, 1, (1 << 32) - 1, 1 << 32, -1, 1 << 31, 255, 256]
        edge_h = [0, 1, 63, 64, -1, 32, 127]
        out = []
        for b in edge_b:
            for s in edge_s:
                for h in edge_h:
                    out.append((b, s, h))
        for _ in range((20000 if T else 3000) if not net_replay else 5):
            r = rng.random()
            b = rng.randrange(-(1 << 39), 1 << 39) if r < 0.8 else rng.randrange(-(1 << 41), 1 << 41)
            if r > 0.97:
                b = rng.choice([-1, 1]) * (1 << rng.randrange(0, 40)) + rng.randrange(-2, 3)
            s = rng.getrandbits(32) if rng.random() < 0.9 else rng.randrange(-5, (1 << 33))
            h = rng.randrange(64) if rng.random() < 0.9 else rng.randrange(-3, 130)
            out.append((b, s, h))
        return out

    bcases = bias_cases()
    breqs, breal, brt = [], [], []
    for i, (b, s, h) in enumerate(bcases):
        try:
            fn = wc.encode_bias if i % 2 else api.npu_encode_bias
            data = fn(np.int64(b), s, h)
            breal.append("ok " + bytes(data).hex())
            brt.append("wl_biasrt %s %d %d %d" % (bytes(data).hex(), b, s, h))
        except AssertionError:
            breal.append("err:assert")
            brt.append(None)
        breqs.append("wl_bias %d %d %d" % (b, s, h))
    bouts = ck.model(breqs)
    rt_lines = [x for x in brt if x]
    rt_outs = iter(ck.model(rt_lines))
    bias_dis, bias_spec_fail = [], []
    for i, (rq, m, r) in enumerate(zip(breqs, bouts, breal)):
        ck.count("bias_" + r.split(" ")[0])
        if m != r:
            bias_dis.append(i)
        if brt[i] and next(rt_outs) != "1":
            bias_spec_fail.append(i)
    for i in bias_spec_fail[:3]:
        b, s, h = bcases[i]
        ck.violation(f"Lean record decoder does not read back (bias={b}, multiplier={s}, shift={h}) from encode_bias output {breal[i]}",
                     {"bias": b, "scale": s, "shift": h, "bytes": breal[i], "replay": f"weight_compressor.encode_bias(np.int64({b}), {s}, {h})"})
    if bias_dis and not bias_spec_fail:
        i = bias_dis[0]
        ck.violation(f"correspondence encodeBias vs weight_compressor.encode_bias broken on {len(bias_dis)} inputs",
                     {"correspondence": "wl_bias", "request": breqs[i], "model": bouts[i], "implementation": breal[i]}, found_input=False)
    ck.sample({"request": breqs[200], "model": bouts[200], "implementation": breal[200]})

    # ------------------------------------------------------------------------------------------
    # 2. stub operators
    OPK = {"conv": Op.Conv2DBias, "dw": Op.DepthwiseConv2DBias, "fc": Op.FullyConnected, "tconv": Op.Conv2DBackpropInputSwitchedBias}
    DT = {"int8": DataType.int8, "uint8": DataType.uint8, "int16": DataType.int16, "int32": DataType.int32, "int64": DataType.int64}

    def f32(x):
        return np.float32(x)

    def rand_scale32():
        import math
        return f32(math.ldexp(rng.uniform(0.5, 1.0), rng.randint(-10, 0)))

    def gen_offsets(O, ncores, bd, kind):
        if kind == "full" or O < 2:
            return [0, O]
        if kind == "sched":
            pre = 16 * rng.randint(1, max(1, O // 16))
            step = rng.choice([bd, bd, 16, 2 * bd, 32]) or 16
            offs = [0]
            if pre < O:
                offs += list(range(pre, O, step))
            return offs + [O]
        if kind == "even":
            cand = [x for x in range(ncores, O, ncores)]
            k = rng.randint(0, min(len(cand), 5))
            return [0] + sorted(rng.sample(cand, k)) + [O]
        # arbitrary strictly increasing
        k = rng.randint(1, min(O - 1, 5))
        return [0] + sorted(rng.sample(range(1, O), k)) + [O]

    def gen_case(force=None):
        c = {}
        c["acc"] = rng.choice([Accelerator.Ethos_U65_512] * 5 + accs)
        arch = arch_of(c["acc"])
        nc = arch.ncores
        c["kind"] = rng.choice(["conv"] * 9 + ["dw"] * 5 + ["fc"] * 4 + ["tconv"] * 2)
        c["ifm"] = rng.choice(["int8"] * 9 + ["uint8"] * 5 + ["int16"] * 6)
        O = rng.choice([1, 2, 3, 5, 7, 8, 9, 12, 15, 16, 17, 24, 31, 32, 33, 40, 48, 64]) if rng.random() < 0.8 else rng.randint(1, 72)
        if c["kind"] == "fc":
            kh = kw = 1
            I = rng.choice([1, 3, 8, 16, 17, 32, 40, 64])
        elif c["kind"] == "dw":
            kh, kw = rng.choice([(1, 1), (3, 3), (3, 3), (2, 5), (5, 1), (9, 2), (3, 6), (1, 9)])
            I = 1
        else:
            kh, kw = rng.choice([(1, 1), (1, 1), (3, 3), (3, 3), (2, 2), (5, 5), (1, 7), (9, 1), (3, 2)])
            I = rng.choice([1, 2, 3, 4, 8, 9, 16, 17, 20, 32, 33, 40])
        if kh * kw * I * O > (30000 if T else 12000):
            I = max(1, (30000 if T else 12000) // (kh * kw * O))
            if c["kind"] == "dw":
                I = 1
        c["shape"] = (kh, kw, I, O)
        c["dil"] = rng.choice([1, 1, 1, 2]) if c["kind"] in ("conv", "dw") else 1
        wdt = "uint8" if c["ifm"] == "uint8" else "int8"
        c["wdt"] = wdt
        lo, hi = (0, 255) if wdt == "uint8" else (-128, 127)
        n = kh * kw * I * O
        rs = np.random.RandomState(rng.getrandbits(32))
        style = rng.choice(["uniform", "small", "sparse", "const", "two"])
        if style == "uniform":
            d = rs.randint(lo, hi + 1, n)
        elif style == "small":
            d = np.clip(np.round(rs.normal((lo + hi) // 2, 3, n)), lo, hi)
        elif style == "sparse":
            d = rs.randint(lo, hi + 1, n) * (rs.rand(n) < 0.2) + ((lo + hi + 1) // 2) * 0
        elif style == "const":
            d = np.full(n, rs.randint(lo, hi + 1))
        else:
            d = rs.choice([lo, hi], n)
        c["wvals"] = np.clip(d, lo, hi).astype(np.uint8 if wdt == "uint8" else np.int8).reshape((kh, kw, I, O) if c["kind"] != "fc" else (I, O))
        r = rng.random()
        if wdt == "uint8":
            c["wzp"] = rng.randint(0, 255) if r < 0.7 else rs.randint(0, 256, O).astype(np.int64)
        else:
            c["wzp"] = 0 if r < 0.5 else (np.zeros(O, dtype=np.int64) if r < 0.8 else rs.randint(-128, 128, O).astype(np.int64))
        per_channel = rng.random() < 0.5 and c["kind"] != "fc"
        c["wscales"] = np.array([rand_scale32() for _ in range(O)], dtype=np.float32) if per_channel else rand_scale32()
        c["bias_dt"] = "int64" if (c["ifm"] == "int16" and rng.random() < 0.8) else "int32"
        if c["bias_dt"] == "int32":
            c["bias"] = [int(x) for x in rs.randint(-(1 << 31), (1 << 31) - 1, O, dtype=np.int64)] if rng.random() < 0.5 else [int(x) for x in rs.randint(-5000, 5000, O)]
        else:
            c["bias"] = [rng.randrange(-(1 << 39), 1 << 39) if rng.random() < 0.5 else rng.randrange(-100000, 100000) for _ in range(O)]
        c["ifm_scale"], c["ofm_scale"] = rand_scale32(), rand_scale32()
        ub = ArchitectureFeatures.accelerator_configs[c["acc"]].ofm_ublock.depth
        c["bd"] = ub * rng.randint(1, 8) if rng.random() < 0.85 else rng.randint(nc, 70)
        kinds = ["full", "full", "sched", "sched", "even", "even", "any"] if nc == 2 else ["full", "sched", "sched", "any", "any"]
        c["okind"] = rng.choice(kinds)
        c["offsets"] = gen_offsets(O, nc, c["bd"], c["okind"])
        c["away"] = rng.random() < 0.1
        c["explicit"] = None
        if rng.random() < 0.08:
            k = O if rng.random() < 0.5 else 1
            c["explicit"] = ([rng.randrange(0, 64) for _ in range(k)], [rng.getrandbits(31) for _ in range(k)])
        # graph rewrites change op.type but not the source operator (original_type): 1x1 conv on a 1x1 map -> FullyConnected,
        # and the reverse direction for symmetry; the scaling rule follows the SOURCE operator
        c["orig"] = None
        if not c["away"]:
            if c["kind"] == "fc" and rng.random() < 0.3:
                c["orig"] = "conv"
            elif c["kind"] == "conv" and (kh, kw) == (1, 1) and rng.random() < 0.15:
                c["orig"] = "fc"
        c["mal"] = None
        if force:
            c.update(force)
            if "shape" in force or "wvals" in force:
                pass
        return c

    def malform(c):
        O = c["shape"][3]
        m = rng.choice(["bias40", "off_ge_depth", "single_offset", "neg_offset", "nonmono", "short_last", "shift_neg", "other_ifm"])
        c["mal"] = m
        if m == "bias40":
            c["bias_dt"] = "int64"
            c["bias"] = list(c["bias"])
            c["bias"][rng.randrange(O)] = rng.choice([1 << 39, -(1 << 39) - 1, 1 << 45])
        elif m == "off_ge_depth":
            c["offsets"] = [0, O, O + 4]
        elif m == "single_offset":
            c["offsets"] = [0]
        elif m == "neg_offset":
            c["offsets"] = [-1, O]
        elif m == "nonmono" and O >= 4:
            a = rng.randrange(2, O)
            c["offsets"] = [0, a, rng.randrange(0, a), O]
        elif m == "short_last" and O >= 3:
            c["offsets"] = [0, rng.randrange(1, O)]
        elif m == "shift_neg":
            c["explicit"] = ([rng.choice([-1, 64, 70])], [rng.getrandbits(31)])
        elif m == "other_ifm":
            c["ifm"] = "int32"
        else:
            c["mal"] = None
        return c

    def build(c):
        arch = arch_of(c["acc"])
        kh, kw, I, O = c["shape"]
        ifm_dt = DT[c["ifm"]]
        ifm = Tensor([1, 8, 8, I if c["kind"] != "dw" else O], ifm_dt, "in")
        q = QuantizationParameters()
        q.scale_f32, q.zero_point = c["ifm_scale"], 0
        ifm.quantization = q
        ofm = Tensor([1, 8, 8, O], ifm_dt, "out")
        q = QuantizationParameters()
        q.scale_f32, q.zero_point = c["ofm_scale"], 0
        ofm.quantization = q
        op = Operation(OPK[c["kind"]], "op")
        op.add_input_tensor(ifm)
        op.set_output_tensor(ofm)
        q = QuantizationParameters()
        q.scale_f32, q.zero_point = c["wscales"], c["wzp"]
        w = create_const_tensor("w", list(c["wvals"].shape), DT[c["wdt"]], c["wvals"], TensorPurpose.Weights, quantization=q)
        op.add_input_tensor(w)
        b = create_const_tensor("b", [O], DT[c["bias_dt"]], np.array(c["bias"], dtype=np.int64), TensorPurpose.FeatureMap)
        b.values = np.array(c["bias"], dtype=np.int64) if c["bias_dt"] == "int64" else b.values
        b.format = TensorFormat.NHWC
        if c["kind"] == "tconv":
            op.add_input_tensor(create_const_tensor("oshape", [4], DataType.int32, [1, 8, 8, O]))   # bias is input 3
        op.add_input_tensor(b)
        if c.get("orig"):
            op._original_type = OPK[c["orig"]]
            ck.count("stub_type_differs_from_source_type")
        if c["away"] and c["kind"] in ("conv", "dw"):
            op._original_type = Op.AvgPool      # the only operators vela allows AwayZero on (converted average pools)
            op.rounding_mode = RoundingMode.AwayZero
        if c["explicit"]:
            op.explicit_scaling = ExplicitScaling(len(c["explicit"][0]) > 1, list(c["explicit"][0]), list(c["explicit"][1]))
        kernel = Kernel(kw, kh, 1, 1, c["dil"], c["dil"])
        bc = ArchitectureBlockConfig()
        bc.ofm_block = Shape4D(1, 2, 2, c["bd"])
        return arch, op, w, b, kernel, bc

    def errkind(e):
        if isinstance(e, AssertionError):
            return "err:assert"
        if isinstance(e, IndexError):
            return "err:index"
        if isinstance(e, (UnsupportedFeatureError, ValueError)):
            return "err:value"
        raise e

    IFMT = {DataType.uint8: 0, DataType.int8: 1, DataType.int16: 2}

    def prep_inputs(op, scale_tens):
        """wl_prep request for `scale_tens` exactly as _prepare_scale_and_bias reads its operator"""
        first = scale_tens.consumer_list[0]
        ifm_dtype = first.inputs[0].dtype
        ifm_scale = wc._get_input_quantization(first).scale_f32
        ofm_scale = wc._get_output_quantization(first).scale_f32
        wsc = first.inputs[1].quantization.scale_f32
        if not hasattr(wsc, "__iter__"):
            wsc = [wsc]
        cands = []
        for s in wsc:
            a = np.double(ifm_scale * s) / np.double(ofm_scale)
            bb = (np.double(ifm_scale) * np.double(s)) / np.double(ofm_scale)
            for x in (a, bb):
                for fn in (scaling.quantise_scale, scaling.reduced_quantise_scale):
                    m, sh = fn(x)
                    cands += [int(m), int(sh)]
        ex = op.explicit_scaling
        expl = []
        if ex:
            for s, m in zip(ex.shift, ex.multiplier):
                expl += [int(m), int(s)]
        toks = [IFMT.get(ifm_dtype, 3), int(first.original_type == Op.FullyConnected), int(scale_tens.dtype == DataType.int64),
                int(bool(ex)), len(expl) // 2] + expl + [int(first.rounding_mode == RoundingMode.AwayZero), len(wsc)] + cands + [len(scale_tens.values)]
        return "wl_prep " + " ".join(map(str, toks))

    def real_prep(arch, op, scale_tens):
        try:
            qs, biases = wc._prepare_scale_and_bias(arch, scale_tens, op.explicit_scaling)
            return "ok " + " ".join(f"{int(m)} {int(s)}" for m, s in qs)
        except Exception as e:  # noqa: B902
            return errkind(e)

    def ranges_of(t):
        return [(k.core, k.depth, r.offset, r.scale_bytes, r.weight_offset, r.weight_bytes, r.index) for k, r in t.encoded_ranges.items()]

    def run_real(arch, op, w, b, kernel, bc, offsets, clear=True):
        """real encode with the encoder calls observed; returns dict"""
        if clear:
            cache.clear()
        calls = []
        orig = wc.encode_weights

        def spy(**kw):
            r = orig(**kw)
            calls.append((int(kw["weights_volume"].shape[0]), int(kw["ofm_block_depth"]), bytes(r[0])))
            return r
        wc.encode_weights = spy
        try:
            wt, st = wc.encode_weight_and_scale_tensor(arch, op, w, b, kernel, bc, offsets)
            return {"wt": wt, "st": st, "calls": calls, "err": None}
        except Exception as e:  # noqa: B902
            return {"wt": None, "st": None, "calls": calls, "err": errkind(e)}
        finally:
            wc.encode_weights = orig

    def parse_qs(s):
        v = [int(x) for x in s.split()[1:]]
        return [(v[i], v[i + 1]) for i in range(0, len(v), 2)]

    def hexs(b):
        return bytes(b).hex() if len(b) else "-"

    def encode_line(arch, w, b, bc, offsets, qs, do_weights, subs):
        O = int(w.values.shape[-1])
        toks = [arch.ncores, O, int(bc.ofm_block.depth), int(do_weights), len(offsets)] + [int(x) for x in offsets]
        toks += [len(b.values)] + [int(x) for x in b.values]
        toks += [len(qs)] + [x for q in qs for x in q]
        toks += [len(subs)] + [hexs(s) for s in subs]
        return "wl_encode " + " ".join(map(str, toks))

    def real_encode_str(t, calls, do_weights):
        rs = ranges_of(t)
        per = []
        for i, r in enumerate(rs):
            nw, cbd = (calls[r[6]][0], calls[r[6]][1]) if do_weights else (0, 0)     # r[6] = creation index = encoder call number
            per.append(r + (nw, cbd))
        return rs, per

    def spec_line(arch, op, w, b, kernel, bc, offsets, t, qs, has_weights, wtens_for_weights=None):
        """wl_spec request for tensor `t` (ranges, buffer, double-buffer sizes) against the request"""
        O = int(w.values.shape[-1])
        rs = ranges_of(t)
        buf = bytes(t.buffer)
        toks = [arch.ncores, O, int(bc.ofm_block.depth), len(offsets)] + [int(x) for x in offsets]
        toks += [int(has_weights), len(buf), int(t.double_buffer_sizes[0]), int(t.double_buffer_sizes[1]), len(rs)]
        for r in rs:
            toks += list(r[:6])
        toks.append(hexs(buf))
        toks.append(len(b.values))
        for i, bias in enumerate(b.values):
            m, s = qs[i] if i < len(qs) else (0, 0)
            toks += [int(bias), m, s]
        if not has_weights:
            toks.append(0)
            return "wl_spec " + " ".join(map(str, toks))
        vals = w.values
        if vals.ndim == 2:
            vals = vals.reshape((1, 1) + vals.shape)
        H, W, I, OO = vals.shape
        zp = w.quantization.zero_point
        if isinstance(zp, (int, float, np.integer, np.floating)):
            zpl = [int(zp)]
        else:
            zpl = [int(x) for x in np.broadcast_to(np.asarray(zp), (OO,))] if np.asarray(zp).size in (1, OO) and np.asarray(zp).ndim <= 1 else None
        if zpl is None:
            toks.append(0)
            ck.count("weights_check_skipped_zp_shape")
            return "wl_spec " + " ".join(map(str, toks))
        accfg = ArchitectureFeatures.accelerator_configs[arch.accelerator_config]
        bits = op.inputs[0].dtype.size_in_bits()
        toks += [1, accfg.ifm_ublock.depth, accfg.ofm_ublock.depth, int(op.type.npu_block_type == NpuBlockType.ConvolutionDepthWise),
                 int(t.hw_traversal == api.NpuBlockTraversal.PART_KERNEL_FIRST), bits,
                 ArchitectureFeatures.SubKernelMax.height // kernel.dilation.y, ArchitectureFeatures.SubKernelMax.width // kernel.dilation.x,
                 H, W, I, OO, int(op.type == Op.Conv2DBackpropInputSwitchedBias), len(zpl)] + zpl
        flat = vals.astype(np.int64).reshape(-1)
        toks.append(len(flat))
        toks.append(" ".join(map(str, flat.tolist())))
        for r in rs:
            sec = buf[r[2] + r[4]: r[2] + r[4] + r[5]]
            dec = list(mlw_codec.decode(bytearray(sec))) if len(sec) else []
            toks.append(len(dec))
            if dec:
                toks.append(" ".join(map(str, dec)))
        return "wl_spec " + " ".join(map(str, toks))

    # ---- replay of one stub case (./check C08 --replay replays/C08-<seed>-<n>.json) -------------
    if ck.replay_arg and not net_replay:
        import json
        import os
        path = ck.replay_arg if os.path.isabs(ck.replay_arg) else os.path.join(common.VERIF, ck.replay_arg)
        rp = json.load(open(path))
        d = rp.get("replay", {})
        print("replaying:", rp.get("what", "")[:300])
        if not d.get("stub_case"):
            print("this replay describes a request sequence / correspondence / fixed scenario; re-run the fixed scenarios with ./check C08 quick "
                  "(they are rebuilt deterministically: shared_w_int8_int16, two_means_9x2_3x6, one_mean_u65_after_u55, single_buffer_560_vs_2864)")
            print(json.dumps(d, indent=1)[:3000])
            raise SystemExit(0)
        c = dict(d)
        c["acc"] = Accelerator(d["acc"])
        c["shape"] = tuple(d["shape"])
        c["wvals"] = np.array(d["weights_hwio"], dtype=np.uint8 if d["wdt"] == "uint8" else np.int8)
        c["wzp"] = d["wzp"] if not isinstance(d["wzp"], list) else np.array(d["wzp"], dtype=np.int64)
        c["wscales"] = f32(d["wscales"]) if not isinstance(d["wscales"], list) else np.array(d["wscales"], dtype=np.float32)
        c["ifm_scale"], c["ofm_scale"] = f32(d["ifm_scale"]), f32(d["ofm_scale"])
        c["explicit"] = tuple(d["explicit"]) if d.get("explicit") else None
        c.setdefault("orig", None)
        arch, op, w, b, kernel, bc = build(c)
        po = ck.model([prep_inputs(op, b)])[0]
        res = run_real(arch, op, w, b, kernel, bc, c["offsets"])
        if res["err"] or not po.startswith("ok"):
            print("implementation:", res["err"], "| model of _prepare_scale_and_bias:", po[:80])
            raise SystemExit(1 if res["err"] and not c.get("mal") else 0)
        verdict = ck.model([spec_line(arch, op, w, b, kernel, bc, c["offsets"], res["wt"], parse_qs(po), True)])[0]
        print("ranges (core, depth, offset, scale_bytes, weight_offset, weight_bytes, index):", ranges_of(res["wt"]))
        print("double_buffer_sizes:", res["wt"].double_buffer_sizes, "Lean Spec verdict:", verdict)
        raise SystemExit(0 if verdict == "ok" else 1)

    # ---- generate stub cases ----------------------------------------------------------------
    n_cases = (25000 if T else 1600) if not net_replay else 12      # about a third are one-field siblings of the case before them
    cases = []
    # the recorded witness first (DESIGN.md section 8 #11), then its neighbours
    wit = {"orig": None, "acc": Accelerator.Ethos_U65_512, "kind": "conv", "ifm": "int8", "shape": (1, 1, 4, 8), "dil": 1, "wdt": "int8",
           "wvals": np.random.RandomState(1).randint(-127, 128, (1, 1, 4, 8)).astype(np.int8), "wzp": np.zeros(8, dtype=np.int64),
           "wscales": np.array([0.001 * (i + 1) for i in range(8)], dtype=np.float32), "bias_dt": "int32",
           "bias": [920, -684, -791, 288, -272, 677, -373, -569], "ifm_scale": f32(0.02), "ofm_scale": f32(0.05), "bd": 8,
           "okind": "witness", "offsets": [0, 3, 8], "away": False, "explicit": None, "mal": None}
    cases.append(dict(wit))
    for offs in ([0, 2, 8], [0, 4, 8], [0, 3, 6, 8], [0, 1, 8], [0, 8], [0, 5, 8], [0, 2, 5, 8]):
        c = dict(wit)
        c["offsets"] = offs
        c["okind"] = "witness-neighbour"
        cases.append(c)
    c = dict(wit)
    c["acc"] = Accelerator.Ethos_U65_256
    cases.append(c)
    def one_field_sibling(c):
        """a case that differs from `c` in exactly ONE field (history: it is run right after `c` in this process; the Lean model
        is history-free, so state kept between two calls of the real encoder shows as model != real on the sibling).  The weight
        VALUES stay the same object content unless the varied field is the weights themselves."""
        kh, kw, I, O = c["shape"]
        fields = ["acc", "ifm", "dil", "bd", "offsets", "bias", "ifm_scale", "ofm_scale", "wscales", "wzp", "away", "explicit", "orig", "wvals", "bias_dt"]
        rng.shuffle(fields)
        for f in fields:
            d = dict(c)
            if f == "acc":
                d["acc"] = rng.choice([a_ for a_ in accs if a_ != c["acc"]])
            elif f == "ifm":
                alt = {"int8": "int16", "int16": "int8"}.get(c["ifm"])
                if alt is None or (alt == "int8" and c["bias_dt"] == "int64"):
                    continue
                d["ifm"] = alt
            elif f == "dil":
                if c["kind"] not in ("conv", "dw"):
                    continue
                d["dil"] = 2 if c["dil"] == 1 else 1
            elif f == "bd":
                ub = ArchitectureFeatures.accelerator_configs[c["acc"]].ofm_ublock.depth
                d["bd"] = rng.choice([x for x in (ub, 2 * ub, 4 * ub, 8 * ub, c["bd"] + ub) if x != c["bd"]])
            elif f == "offsets":
                for _ in range(6):
                    o2 = gen_offsets(O, arch_of(c["acc"]).ncores, c["bd"], c["okind"] if c["okind"] in ("full", "sched", "even", "any") else "any")
                    if o2 != c["offsets"]:
                        d["offsets"] = o2
                        break
                else:
                    continue
            elif f == "bias":
                b2 = list(c["bias"])
                b2[rng.randrange(O)] += rng.choice([1, -1, 256, -4096])
                if c["bias_dt"] == "int32" and not all(-(1 << 31) <= x < (1 << 31) for x in b2):
                    continue
                d["bias"] = b2
            elif f == "bias_dt":
                if c["bias_dt"] != "int32" or c["ifm"] != "int16":
                    continue
                d["bias_dt"] = "int64"
            elif f in ("ifm_scale", "ofm_scale"):
                d[f] = f32(float(c[f]) * rng.choice([0.5, 2.0, 1.25]))
            elif f == "wscales":
                if isinstance(c["wscales"], np.ndarray):
                    w2 = c["wscales"].copy()
                    j = rng.randrange(O)
                    w2[j] = f32(float(w2[j]) * rng.choice([0.5, 2.0, 1.5]))
                    d["wscales"] = w2
                else:
                    d["wscales"] = f32(float(c["wscales"]) * rng.choice([0.5, 2.0, 1.5]))
            elif f == "wzp":
                if c["wdt"] == "uint8" and not isinstance(c["wzp"], np.ndarray):
                    d["wzp"] = (int(c["wzp"]) + rng.randint(1, 200)) % 256
                elif isinstance(c["wzp"], np.ndarray):
                    z2 = c["wzp"].copy()
                    j = rng.randrange(O)
                    z2[j] = (int(z2[j]) + 1) if int(z2[j]) < (255 if c["wdt"] == "uint8" else 127) else int(z2[j]) - 1
                    d["wzp"] = z2
                else:
                    continue
            elif f == "away":
                if c["kind"] not in ("conv", "dw") or c.get("orig"):
                    continue
                d["away"] = not c["away"]
            elif f == "explicit":
                if c["explicit"] is None:
                    d["explicit"] = ([rng.randrange(0, 64)], [rng.getrandbits(31)])
                else:
                    sh, mu = list(c["explicit"][0]), list(c["explicit"][1])
                    j = rng.randrange(len(sh))
                    sh[j] = (sh[j] + 1) % 64
                    d["explicit"] = (sh, mu)
            elif f == "orig":
                if c["away"]:
                    continue
                if c["kind"] == "fc":
                    d["orig"] = None if c.get("orig") else "conv"
                elif c["kind"] == "conv" and (kh, kw) == (1, 1):
                    d["orig"] = None if c.get("orig") else "fc"
                else:
                    continue
            elif f == "wvals":
                v2 = c["wvals"].copy()
                idx = tuple(rng.randrange(n_) for n_ in v2.shape)
                lo_, hi_ = (0, 255) if c["wdt"] == "uint8" else (-128, 127)
                v2[idx] = int(v2[idx]) + 1 if int(v2[idx]) < hi_ else int(v2[idx]) - 1
                d["wvals"] = v2
            d["sibling_of"] = f
            return d
        return None

    while len(cases) < n_cases:
        c = gen_case()
        if rng.random() < 0.06:
            c = malform(c)
        cases.append(c)
        if not c["mal"] and rng.random() < 0.55:
            d = one_field_sibling(c)
            if d is not None:
                cases.append(d)
                ck.count("sibling_cases")
                ck.count("sibling_field_" + d["sibling_of"])

    built, prep_reqs, prep_real = [], [], []
    for c in cases:
        bt = build(c)
        built.append(bt)
        arch, op, w, b, kernel, bc = bt
        prep_reqs.append(prep_inputs(op, b))
        prep_real.append(real_prep(arch, op, b))
    prep_outs = ck.model(prep_reqs)
    prep_dis = [i for i in range(len(cases)) if prep_outs[i] != prep_real[i]]

    enc_reqs, enc_real, enc_idx = [], [], []
    raised_on_valid = []
    spec_reqs, spec_idx = [], []
    reals = []
    for i, c in enumerate(cases):
        arch, op, w, b, kernel, bc = built[i]
        res = run_real(arch, op, w, b, kernel, bc, c["offsets"])
        reals.append(res)
        ck.count("kind_" + c["kind"])
        ck.count("ifm_" + c["ifm"])
        ck.count("cores_%d" % arch.ncores)
        ck.count("offsets_" + c["okind"])
        ck.count("nslices_%s" % min(len(c["offsets"]) - 1, 6))
        if c["mal"]:
            ck.count("malformed_" + c["mal"])
        if not prep_outs[i].startswith("ok"):
            # the model of _prepare_scale_and_bias rejects: the whole call must be rejected the same way
            # (unless an earlier assert fires first)
            enc_reqs.append(None)
            exp = prep_outs[i]
            if res["err"] not in (exp, "err:assert"):
                enc_real.append(("prep-reject", exp, res["err"]))
            else:
                enc_real.append(None)
            ck.count("outcome_" + str(res["err"]))
            continue
        qs = parse_qs(prep_outs[i])
        subs = [x[2] for x in res["calls"]]
        # on an error the encoder calls made before it are still valid oracle answers; missing ones are never reached
        line = encode_line(arch, w, b, bc, c["offsets"], qs, True, subs)
        if res["err"]:
            real_s = res["err"]
            if not c["mal"]:
                raised_on_valid.append(i)
        else:
            t = res["wt"]
            rs, per = real_encode_str(t, res["calls"], True)
            real_s = "ok %s %d %d %d %s" % (hexs(t.buffer), t.double_buffer_sizes[0], t.double_buffer_sizes[1], len(rs),
                                            " ".join(" ".join(map(str, p)) for p in per))
        enc_reqs.append(line)
        enc_real.append(real_s)
        enc_idx.append(i)
        ck.count("outcome_" + real_s.split(" ")[0])
        valid_offsets = (len(c["offsets"]) >= 2 and c["offsets"][0] == 0 and c["offsets"][-1] == int(w.values.shape[-1])
                         and all(a < b2 for a, b2 in zip(c["offsets"], c["offsets"][1:])))
        if not res["err"] and valid_offsets and int(bc.ofm_block.depth) >= arch.ncores:
            spec_reqs.append(spec_line(arch, op, w, b, kernel, bc, c["offsets"], res["wt"], qs, True))
            spec_idx.append(i)
        elif not res["err"]:
            ck.count("spec_skipped_outside_quantifier")

    lines = [x for x in enc_reqs if x is not None]
    outs = iter(ck.model(lines))
    enc_out = [next(outs) if x is not None else None for x in enc_reqs]
    enc_dis = []
    for i, c in enumerate(cases):
        if enc_reqs[i] is None:
            if enc_real[i] is not None:
                enc_dis.append(i)
            continue
        m, r = enc_out[i], enc_real[i]
        if r.startswith("err") and m.startswith("err:oracle-count"):
            # the real call stopped early: the model (given fewer encoder answers) must also stop with the same error
            enc_dis.append(i)
        elif m != r:
            enc_dis.append(i)

    spec_out = ck.model(spec_reqs)

    def describe(c):
        d = {k: (v if not hasattr(v, "tolist") else v.tolist()) for k, v in c.items() if k != "wvals"}
        d["acc"] = c["acc"].value
        d["weights_hwio"] = c["wvals"].tolist()
        d["stub_case"] = True
        if c.get("sibling_of"):
            d["history"] = "run right after a case that differs only in field '%s' (same process)" % c["sibling_of"]
        d["replay"] = ("build a %s operator (ethosu/vela/test/testutil style stub), weights shape %s, then weight_compressor.encode_weight_and_scale_tensor("
                       "arch(%s), op, w, b, Kernel(%d,%d,dilation %d), block depth %d, %s)" %
                       (c["kind"], tuple(c["wvals"].shape), c["acc"].value, c["shape"][1], c["shape"][0], c["dil"], c["bd"], c["offsets"]))
        return d

    for i in raised_on_valid[:3]:
        c = cases[i]
        ck.violation(f"encode_weight_and_scale_tensor raises {reals[i]['err']} on a well-formed request ({c['kind']}, {c['acc'].value}, depth offsets "
                     f"{c['offsets']}, block depth {c['bd']}): no tensor is assembled", describe(c))

    spec_fail = []
    for i, o in zip(spec_idx, spec_out):
        if o == "ok":
            ck.count("spec_ok")
            continue
        spec_fail.append((i, o))
        ck.count("spec_fail")
    for i, o in spec_fail[:4]:
        c = cases[i]
        ck.violation(f"Lean Spec rejects the tensor built by encode_weight_and_scale_tensor: {o[:200]} ({c['kind']}, {c['acc'].value}, "
                     f"depth offsets {c['offsets']}, block depth {c['bd']}, IFM {c['ifm']})", dict(describe(c), spec_verdict=o[:2000]))
    # the configuration of the former finding (2 cores, [0,3,8]) is case 0: reported with the rest if it fails again
    wit_out = spec_out[spec_idx.index(0)] if 0 in spec_idx else None
    ck.sample({"witness_request": "U65-512, depth offsets [0,3,8], 8 channels", "spec_verdict": wit_out,
               "real_ranges": ranges_of(reals[0]["wt"]) if reals[0]["wt"] else None})
    ck.count("former_witness_" + ("ok" if wit_out == "ok" else "rejected"))
    if prep_dis and not spec_fail:
        i = prep_dis[0]
        ck.violation(f"correspondence prepareScales vs _prepare_scale_and_bias broken on {len(prep_dis)} inputs",
                     {"correspondence": "wl_prep", "request": prep_reqs[i][:1500], "model": prep_outs[i][:600], "implementation": prep_real[i][:600],
                      "case": describe(cases[i])}, found_input=False)
    if enc_dis and not spec_fail and not raised_on_valid:
        i = min(enc_dis, key=lambda j: len(enc_reqs[j] or ""))
        ck.violation(f"correspondence encodeTensor vs encode_weight_and_scale_tensor broken on {len(enc_dis)} inputs",
                     {"correspondence": "wl_encode", "request": (enc_reqs[i] or "")[:3000], "model": str(enc_out[i])[:1500],
                      "implementation": str(enc_real[i])[:1500], "case": describe(cases[i])}, found_input=False)
    ck.sample({"request": (enc_reqs[1] or "")[:300], "model": str(enc_out[1])[:200], "implementation": str(enc_real[1])[:200]})

    # ------------------------------------------------------------------------------------------
    # 3. create_weights / create_dma_op on the real tensors
    addr_reqs, addr_real, addr_spec, addr_meta = [], [], [], []
    addr_match, addr_match_meta = [], []

    def fmt_ranges(rs):
        return " ".join("%d %d %d %d %d %d" % r[:6] for r in rs)

    def addr_str(l):
        return " ".join(f"{a.address}:{a.length}" for a in l)

    ok_cases = [i for i in range(len(cases)) if reals[i]["wt"] is not None and not cases[i]["mal"]]
    for i in rng.sample(ok_cases, min(len(ok_cases), 1500 if T else 250)):
        arch = built[i][0]
        wt = reals[i]["wt"]
        wt.mem_type, wt.mem_area = MemType.Permanent_NPU, MemArea.OffChipFlash
        src_addr = 16 * rng.randint(0, 1 << 20)
        wt.address = src_addr
        rs = ranges_of(wt)
        offs = cases[i]["offsets"]
        si = rng.randrange(len(offs) - 1)
        depth = offs[si] if rng.random() < 0.95 or offs[si] + 1 in offs else offs[si] + 1     # 5 %: a start channel that is no slice start
        buffered = rng.random() < 0.5
        box = Box([0, 0, 0, depth], [1, 1, 1, offs[si + 1]])
        if buffered:
            buf_size = int(wt.double_buffer_sizes[si % 2])
            bt = Tensor([1, 1, 1, buf_size], DataType.uint8, "buf")
            bt.src_tensor, bt.mem_area, bt.mem_type, bt.purpose = wt, MemArea.Sram, MemType.Scratch_fast, TensorPurpose.Weights
            buf_addr = 16 * rng.randint(0, 1 << 16)
            bt.address = buf_addr
            use = bt
        else:
            buf_addr, use, buf_size = 0, wt, 0
        try:
            ws, bs = hl.create_weights(use, box, None, arch)
            r1 = f"w {addr_str(ws)} b {addr_str(bs)}"
        except KeyError:
            ws, bs, r1 = [], [], "w err:key"

        class Cmd:
            pass
        cmd = Cmd()
        cmd.in_tensor, cmd.box = wt, box
        cmd.out_tensor = bt if buffered else Tensor([1, 1, 1, max(buf_size, 16)], DataType.uint8, "dst")
        if not buffered:
            cmd.out_tensor.mem_area, cmd.out_tensor.mem_type, cmd.out_tensor.purpose = MemArea.Sram, MemType.Scratch_fast, TensorPurpose.Weights
            cmd.out_tensor.address = buf_addr
        try:
            d = hl.create_dma_op(cmd, arch)
            r2 = f"dma {d.src.address}:{d.src.length} {d.dest.address}:{d.dest.length}"
        except UnboundLocalError:
            d, r2 = None, "dma err:unbound"
        addr_real.append(r1 + " " + r2)
        addr_reqs.append(f"wl_addr {arch.ncores} {len(rs)} {fmt_ranges(rs)} {src_addr} {int(buffered)} {buf_addr} 0 0 0 {depth}")
        addr_match.append("wl_addrmatch %d %d %d %d %d %s %d %s %d %s %d %s" % (
            src_addr, int(buffered), buf_addr, depth, len(rs), fmt_ranges(rs),
            len(ws), " ".join(f"{a.address} {a.length}" for a in ws), len(bs), " ".join(f"{a.address} {a.length}" for a in bs),
            int(d is not None), "%d %d %d %d" % ((d.src.address, d.src.length, d.dest.address, d.dest.length) if d is not None else (0, 0, 0, 0))))
        addr_match_meta.append((i, si, depth, buffered))
        # Spec: the ranges handed to the command stream generator lie inside the tensor they address
        if buffered:
            base, size = buf_addr, buf_size
        else:
            base, size = src_addr, len(wt.buffer)
        pairs = [(a.address, a.length) for a in ws + bs]
        if d is not None and buffered:
            pairs.append((d.dest.address, d.dest.length))
        addr_spec.append("wl_addrspec %d %d %d %s" % (base, size, len(pairs), " ".join(f"{a} {l}" for a, l in pairs)))
        if d is not None:
            addr_spec.append("wl_addrspec %d %d 1 %d %d" % (src_addr, len(wt.buffer), d.src.address, d.src.length))
            addr_meta.append((i, si, depth, buffered))
        addr_meta.append((i, si, depth, buffered))
    addr_out = ck.model(addr_reqs)
    addr_dis = [j for j in range(len(addr_reqs)) if addr_out[j] != addr_real[j]]
    aspec_out = ck.model(addr_spec)
    aspec_fail = [j for j, o in enumerate(aspec_out) if o != "1"]
    amatch_out = ck.model(addr_match)
    amatch_fail = [j for j, o in enumerate(amatch_out) if o != "ok"]
    for j in amatch_fail[:3]:
        i, si, depth, buffered = addr_match_meta[j]
        ck.violation(f"address ranges from create_weights / create_dma_op are not the recorded sections of the slice: {amatch_out[j]} "
                     f"(slice {si}, start channel {depth}, buffered={buffered}, {built[i][0].accelerator_config.value})",
                     dict(describe(cases[i]), request=addr_match[j][:2000], real=addr_real[j]))
    for j in aspec_fail[:3]:
        i, si, depth, buffered = addr_meta[j]
        c = cases[i]
        ck.violation(f"address range outside its tensor / unaligned: {addr_spec[j][:200]} (slice {si}, start channel {depth}, buffered={buffered})",
                     dict(describe(c), addr_request=addr_spec[j], real=addr_real[min(j, len(addr_real) - 1)]))
    if addr_dis and not aspec_fail and not amatch_fail:
        j = addr_dis[0]
        ck.violation(f"correspondence createWeights/createDmaOp vs high_level_command_to_npu_op broken on {len(addr_dis)} inputs",
                     {"correspondence": "wl_addr", "request": addr_reqs[j][:1500], "model": addr_out[j], "implementation": addr_real[j]}, found_input=False)
    ck.count("addr_cases", len(addr_reqs))

    # ------------------------------------------------------------------------------------------
    # 4. request sequences against the process-wide cache (stub level)
    ids = {}

    def tokid(x):
        return ids.setdefault(x, len(ids))

    def dbits(x):
        return struct.unpack("<Q", struct.pack("<d", float(x)))[0]

    def req_tokens(arch, op, w, b, kernel, bc, offsets):
        O = int(w.values.shape[-1])
        zp = w.quantization.zero_point
        wdata = tokid(("w", w.values.shape, w.values.tobytes(), np.asarray(zp).tobytes()))
        first = b.consumer_list[0]
        ex = op.explicit_scaling
        sdata = tokid(("s", b.values.tobytes(), np.asarray(first.inputs[1].quantization.scale_f32).tobytes(), str(first.inputs[0].dtype),
                       str(b.dtype), str(first.rounding_mode), None if not ex else (tuple(ex.shift), tuple(ex.multiplier)),
                       first.original_type == Op.FullyConnected))
        toks = [op.type.npu_block_type.value, min(int(bc.ofm_block.depth), O), hash(str(offsets)), kernel.dilation.x, kernel.dilation.y,
                tokid(w.value_id), tokid(b.value_id), dbits(wc._get_input_quantization(first).scale_f32), dbits(wc._get_output_quantization(first).scale_f32),
                accs.index(arch.accelerator_config), op.inputs[0].dtype.size_in_bits(), int(op.type == Op.Conv2DBackpropInputSwitchedBias),
                len(offsets)] + [int(x) for x in offsets] + [int(bc.ofm_block.depth), wdata, sdata]
        return " ".join(map(str, toks))

    def canon(wt, st):
        """canonical text of what a request was answered with"""
        def one(t):
            if t is None:
                return "none"
            return "%s|%s|%s|%s" % (hexs(t.buffer), ",".join(".".join(map(str, r)) for r in ranges_of(t)),
                                    ".".join(map(str, t.double_buffer_sizes)), t.hw_traversal.name)
        return one(wt) + "/" + one(st)

    def fresh_of(args):
        keep = dict(cache)
        cache.clear()
        try:
            r = wc.encode_weight_and_scale_tensor(*args)
        finally:
            cache.clear()
            cache.update(keep)
        return r

    seq_same_reqs, seq_meta = [], []
    cache_model_reqs, cache_real = [], []
    scale_only = []      # (args, scale tensor) of weights-only hits
    n_worlds = (800 if T else 80) if not net_replay else 1      # odd worlds vary ONE request field at a time
    for wi in range(n_worlds):
        cache.clear()
        base = gen_case({"acc": rng.choice([Accelerator.Ethos_U65_512, Accelerator.Ethos_U55_128, Accelerator.Ethos_U65_256])})
        base["kind"] = rng.choice(["conv", "conv", "dw"])
        O = rng.choice([8, 16, 24, 32])
        kh, kw = rng.choice([(1, 1), (3, 3), (2, 3)])
        I = 1 if base["kind"] == "dw" else rng.choice([4, 8, 16, 20])
        base["shape"] = (kh, kw, I, O)
        base["ifm"], base["wdt"] = "int8", "int8"
        base["wvals"] = np.random.RandomState(rng.getrandbits(32)).randint(-127, 128, (kh, kw, I, O)).astype(np.int8)
        base["wzp"] = 0
        base["wscales"] = rand_scale32()
        base["bias_dt"], base["bias"] = "int32", [rng.randrange(-9999, 9999) for _ in range(O)]
        base["explicit"], base["away"], base["mal"] = None, False, None
        base["bd"] = rng.choice([8, 16, 32])
        base["dil"] = 1
        arch0, op0, w0, b0, k0, bc0 = build(base)
        # variants that keep the very same weight / bias tensor objects
        variants = []
        nc0 = arch0.ncores
        offs_pool = [[0, O]] + [gen_offsets(O, nc0, base["bd"], "even" if nc0 == 2 else "any") for _ in range(2)]
        # the accelerator is constant while a cache lives (compiler_driver empties it), so it is not varied here;
        # the cross-compilation case is scenario (c) below
        axis = rng.choice(["ifm", "ifm", "none"])
        ladder = wi % 2 == 1
        if ladder:
            # ONE field at a time: the base request, then requests that differ from it in exactly one field of the request (the same
            # weight tensor object throughout), each possibly followed by the base request again.  Whatever the cache key forgets
            # is answered with the base's (or the variant's) encoding and differs from a fresh one.
            v0 = {"offsets": offs_pool[0], "bd": base["bd"], "dil": 1, "ifm": "int8", "acc": base["acc"], "bias2": False, "ofm_scale2": False}
            variants.append(dict(v0))
            fields = ["offsets", "bd", "dil", "ifm", "bias2", "ofm_scale2"]
            rng.shuffle(fields)
            for f in fields:
                v = dict(v0)
                if f == "offsets":
                    alt = [o_ for o_ in offs_pool[1:] if o_ != v0["offsets"]]
                    if not alt:
                        continue
                    v[f] = alt[0]
                elif f == "bd":
                    v[f] = rng.choice([x for x in (8, 16, 32, 64) if x != v0["bd"]])
                elif f == "dil":
                    v[f] = 2
                elif f == "ifm":
                    v[f] = "int16"
                else:
                    v[f] = True
                variants.append(v)
                ck.count("cache_one_field_" + f)
                if rng.random() < 0.5:
                    variants.append(dict(v0))
            ck.count("cache_worlds_one_field_at_a_time")
        for _ in range(0 if ladder else rng.randint(3, 7)):
            v = {"offsets": rng.choice(offs_pool), "bd": rng.choice([base["bd"], base["bd"], 8, 16, 64]), "dil": rng.choice([1, 1, 1, 2]),
                 "ifm": "int8", "acc": base["acc"], "bias2": rng.random() < 0.3, "ofm_scale2": rng.random() < 0.2}
            r = rng.random()
            if axis == "ifm" and r < 0.4:
                v["ifm"] = "int16"          # same weight tensor, other IFM bit depth (must be a miss since the key holds the bit depth)
            elif axis == "acc" and r < 0.4:
                v["acc"] = Accelerator.Ethos_U55_256 if base["acc"] != Accelerator.Ethos_U55_256 else Accelerator.Ethos_U65_512
            variants.append(v)
        entries = {}     # real cache key (wcc) -> request tokens of the request that filled it
        for v in variants:
            arch = arch_of(v["acc"])
            ifm_dt = DT[v["ifm"]]
            ifm = Tensor([1, 8, 8, I if base["kind"] != "dw" else O], ifm_dt, "in")
            q = QuantizationParameters()
            q.scale_f32, q.zero_point = base["ifm_scale"], 0
            ifm.quantization = q
            ofm = Tensor([1, 8, 8, O], ifm_dt, "out")
            q = QuantizationParameters()
            q.scale_f32, q.zero_point = (base["ofm_scale"] if not v["ofm_scale2"] else f32(float(base["ofm_scale"]) * 1.5)), 0
            ofm.quantization = q
            op = Operation(OPK[base["kind"]], "op")
            op.add_input_tensor(ifm)
            op.set_output_tensor(ofm)
            op.add_input_tensor(w0)
            if v["bias2"] or v["ifm"] == "int16":
                bdt = "int64" if v["ifm"] == "int16" else "int32"
                bb = create_const_tensor("b2", [O], DT[bdt], np.array([x + 1 for x in base["bias"]], dtype=np.int64), TensorPurpose.FeatureMap)
                bb.format = TensorFormat.NHWC
            else:
                bb = b0
                bb.consumer_list = []
            op.add_input_tensor(bb)
            kernel = Kernel(kw, kh, 1, 1, v["dil"], v["dil"])
            bc = ArchitectureBlockConfig()
            bc.ofm_block = Shape4D(1, 2, 2, v["bd"])
            args = (arch, op, w0, bb, kernel, bc, list(v["offsets"]))
            wcc = wcc_of(w0, op, bc, args[6], kernel)
            pre = cache.get(wcc)
            try:
                wt, st = wc.encode_weight_and_scale_tensor(*args)
            except AssertionError:
                ck.count("cache_seq_assert")
                continue
            outcome = "miss" if pre is None else ("hit" if st is None else "hit-weights")
            toks = req_tokens(*args)
            cache_real.append(outcome)
            cache_model_reqs.append(toks)
            ck.count("cache_" + outcome)
            fw, fs = fresh_of(args)
            # what the request is answered with vs a fresh encoding: weights tensor, and the scales that go with it
            got = canon(wt, st if st is not None else None)
            if outcome == "hit":
                want = canon(fw, None)
            elif outcome == "hit-weights":
                # fresh encoding has weights+scales in one tensor; compare weights sections and scale sections separately below
                want = None
            else:
                want = canon(fw, None)
            filler = entries.get(wcc)
            if pre is None:
                entries[wcc] = toks
            if outcome == "hit-weights":
                # the bias tensor's consumer list changes with later variants: take the prep request now
                scale_only.append((args, st, prep_inputs(op, bb), real_prep(arch, op, bb)))
            if want is not None:
                seq_same_reqs.append(f"wl_same {got} {want}")
                seq_meta.append((wi, v, outcome, toks, filler, args))
            else:
                # weights-only hit: the weight sections of the cached tensor must equal those of a fresh one,
                # and the new scale tensor must hold the fresh scale sections
                def wsecs(t):
                    return ",".join(hexs(bytes(t.buffer[r[2] + r[4]: r[2] + r[4] + r[5]])) + "." + f"{r[0]}.{r[1]}" for r in ranges_of(t)) + "|" + t.hw_traversal.name

                def ssecs(t):
                    return ",".join(hexs(bytes(t.buffer[r[2]: r[2] + r[3]])) + "." + f"{r[0]}.{r[1]}" for r in ranges_of(t))
                seq_same_reqs.append(f"wl_same {wsecs(wt)}/{ssecs(st)} {wsecs(fw)}/{ssecs(fw)}")
                seq_meta.append((wi, v, outcome, toks, filler, args))
        # the Lean model of the two-level look-up predicts miss / hit / weights-only hit for the sequence
    # cache outcome correspondence (one sequence per world is enough for the model: it is stateless across worlds
    # because value ids differ; feed all at once)
    if cache_model_reqs:
        line = "wl_cache %d %s" % (len(cache_model_reqs), " ".join(cache_model_reqs))
        mo = ck.model([line])[0].split()
        if mo != cache_real:
            k = next((j for j in range(min(len(mo), len(cache_real))) if mo[j] != cache_real[j]), 0)
            ck.violation("correspondence cacheOutcomes vs the look-up at the top of encode_weight_and_scale_tensor broken",
                         {"correspondence": "wl_cache", "first_difference_at": k, "model": mo[max(0, k - 2):k + 3], "implementation": cache_real[max(0, k - 2):k + 3],
                          "request": cache_model_reqs[k]}, found_input=False)
    # the transpose-convolution flip: ONE weight tensor object requested by a convolution stub and by a transpose-convolution
    # stub, every other key field equal.  Lean answers whether the model key (built from the generated field list of
    # WeightCompressionConfig) separates the two; the real keys must agree with that; the real answers go through CacheTransparent.
    cF = gen_case({"acc": Accelerator.Ethos_U55_128})
    cF.update(kind="conv", ifm="int8", wdt="int8", shape=(3, 2, 8, 16), dil=1, wzp=0, wscales=rand_scale32(), bias_dt="int32",
              wvals=np.random.RandomState(11).randint(-127, 128, (3, 2, 8, 16)).astype(np.int8), bias=list(range(-8, 8)), bd=16,
              offsets=[0, 16], okind="full", away=False, explicit=None, orig=None, mal=None)
    archF, opF, wF, bF, kF, bcF = build(cF)
    _a, opT, _w, bT, kT, bcT = build(dict(cF, kind="tconv"))
    opT.set_input_tensor(wF, 1)
    argsF, argsT = (archF, opF, wF, bF, kF, bcF, [0, 16]), (archF, opT, wF, bT, kT, bcT, [0, 16])
    sep = ck.model(["wl_keysep %s %s" % (req_tokens(*argsF), req_tokens(*argsT))])[0]
    real_equal = wcc_of(wF, opF, bcF, [0, 16], kF) == wcc_of(wF, opT, bcT, [0, 16], kT)
    ck.count("flip_key_" + sep)
    if (sep == "collide") != real_equal:
        ck.violation(f"correspondence wccKey vs create_weight_compression_config broken on the transpose-convolution flip: model says {sep}, real keys equal={real_equal}",
                     {"correspondence": "wl_keysep", "model": sep, "implementation_keys_equal": real_equal}, found_input=False)
    cache.clear()
    wc.encode_weight_and_scale_tensor(*argsF)
    ansT = wc.encode_weight_and_scale_tensor(*argsT)
    keepF = dict(cache)
    cache.clear()
    freshT = wc.encode_weight_and_scale_tensor(*argsT)
    cache.clear()
    cache.update(keepF)
    tv = ck.model([c08_pipe.transparent_line(ansT[0], ansT[1], freshT[0])])[0]
    if tv != "ok":
        ck.violation(f"a transpose convolution requesting the filter a convolution has just encoded (same tensor, block depth 16, depth slices [0,16]) is answered with "
                     f"the convolution's stream: {tv} (Lean: the cache keys {sep})",
                     {"stub_scenario": "conv then tconv on one weight tensor [3,2,8,16]", "verdict": tv, "keys": sep,
                      "replay": "testutil-style stubs: Op.Conv2DBias and Op.Conv2DBackpropInputSwitchedBias sharing one weight tensor object, "
                                "encode_weight_and_scale_tensor(arch(ethos-u55-128), op, w, b, Kernel(2,3), block depth 16, [0,16]) for both in turn"},
                     key="cache-key-omits-transpose-conv-flip" if sep == "collide" else None)
    cache.clear()
    # scale-only tensors (weights-only hits): model correspondence with do_weights = False + Spec on the real tensor
    so_prep = ck.model([x[2] for x in scale_only])
    so_enc, so_real, so_spec = [], [], []
    for (a, st, _pl, rp), po in zip(scale_only, so_prep):
        arch, op, w, b, kernel, bc, offs = a
        if not po.startswith("ok") or po != rp:
            ck.count("scale_only_prep_mismatch")
            continue
        qs = parse_qs(po)
        so_enc.append(encode_line(arch, w, b, bc, offs, qs, False, []))
        rs, per = real_encode_str(st, [], False)
        so_real.append("ok %s %d %d %d %s" % (hexs(st.buffer), st.double_buffer_sizes[0], st.double_buffer_sizes[1], len(rs),
                                             " ".join(" ".join(map(str, p)) for p in per)))
        so_spec.append(spec_line(arch, op, w, b, kernel, bc, offs, st, qs, False))
    so_out = ck.model(so_enc)
    so_dis = [j for j in range(len(so_enc)) if so_out[j] != so_real[j]]
    so_sv = ck.model(so_spec)
    so_fail = [j for j, o in enumerate(so_sv) if o != "ok"]
    ck.count("scale_only_tensors", len(so_enc))
    for j in so_fail[:3]:
        ck.violation(f"Lean Spec rejects a scale-only tensor (weights-only cache hit): {so_sv[j][:200]}",
                     {"spec_request": so_spec[j][:3000], "verdict": so_sv[j][:500]})
    if so_dis and not so_fail:
        j = so_dis[0]
        ck.violation(f"correspondence encodeTensor (do_weights = False) vs the scale-only path broken on {len(so_dis)} inputs",
                     {"correspondence": "wl_encode", "request": so_enc[j][:2000], "model": so_out[j][:1000], "implementation": so_real[j][:1000]}, found_input=False)

    same_out = ck.model(seq_same_reqs)
    stale = [j for j, o in enumerate(same_out) if o != "1"]
    diff_reqs = [f"wl_reqdiff {seq_meta[j][3]} {seq_meta[j][4]}" for j in stale if seq_meta[j][4] is not None]
    diff_out = iter(ck.model(diff_reqs))
    for j in stale:
        wi, v, outcome, toks, filler, args = seq_meta[j]
        d = next(diff_out) if filler is not None else "no-filler"
        ck.count("cache_stale")
        info = {"world": wi, "variant": {k: (x.value if hasattr(x, "value") else x) for k, x in v.items()}, "outcome": outcome, "request_vs_cache_filler": d,
                "replay": "same weight tensor object requested twice through weight_compressor.encode_weight_and_scale_tensor; second request "
                          "differs from the first only in the fields listed under diff="}
        ck.violation(f"compression cache returns an encoding that differs from a fresh one ({outcome}; {d})", info)
    ck.count("cache_requests", len(seq_same_reqs))

    # ------------------------------------------------------------------------------------------
    # 5. compiled networks: scheduler-produced requests, scheduler buffers, the reachable cache scenarios
    import random as _random
    import netgen
    import pipeline
    pipeline.load_vela()
    captured = []
    orig_enc = wc.encode_weight_and_scale_tensor

    cap_seen = set()
    fillers = {}         # cache key -> (operator, weight tensor) of the request that filled the entry

    def fresh_orig(args):
        """the same request with the cache bypassed (emptied and restored)"""
        keep = dict(cache)
        cache.clear()
        try:
            return orig_enc(*args)
        finally:
            cache.clear()
            cache.update(keep)

    def cap(arch, op, weight_tens, scale_tens, kernel, block_config, depth_offsets):
        offs = [int(x) for x in depth_offsets]
        wcc = wcc_of(weight_tens, op, block_config, depth_offsets, kernel)
        pre = cache.get(wcc)
        args = (arch, op, weight_tens, scale_tens, kernel, block_config, depth_offsets)
        r = orig_enc(*args)
        tl = None
        ident = (id(r[0]), id(r[1]), tuple(offs), id(op))
        if ident not in cap_seen:
            # cache transparency, at the moment of the call: the same request with the cache bypassed
            cap_seen.add(ident)
            try:
                fw, _fs = fresh_orig(args)
                tl = c08_pipe.transparent_line(r[0], r[1], fw)
            except Exception as e:  # noqa: B902
                tl = "raise " + errkind(e)
        filler = fillers.get(wcc) if pre is not None else None
        if pre is None:
            fillers[wcc] = (op, weight_tens)
        captured.append((args, offs, r, pre is not None, wcc, tl, filler))
        return r

    def compile_and_check(name, data, opts, fresh_cache=True, net=None):
        """compile; cache transparency of every answer; Spec on every distinct tensor returned to the scheduler;
        scheduler buffers vs DMA sizes; final schedule; emitted operations (API level and register level)"""
        if fresh_cache:
            cache.clear()
        captured.clear()
        cap_seen.clear()
        fillers.clear()
        wc.encode_weight_and_scale_tensor = cap
        try:
            res = pipeline.compile_net(data, opts, name=name, reset=False)      # addresses are needed below; reset at the end
        finally:
            wc.encode_weight_and_scale_tensor = orig_enc
        ck.count("compile_" + res.status)
        if res.status != "ok":
            pipeline.reset_process_state()
            return res
        try:
            return _check_compiled(name, data, opts, res, net)
        finally:
            pipeline.reset_process_state()

    def stale_key(args, filler):
        """key of a recorded finding when a non-transparent answer has one of the two recorded causes (the verdict is
        Lean's; this only names the cause): the entry was filled by an operator that uses a differently laid out
        copy of the same filter"""
        if filler is None:
            return None
        fop, fw = filler
        op, w = args[1], args[2]
        if fw is w or fw.value_id != w.value_id or fw.values is None or w.values is None:
            return None
        flip_a, flip_b = op.type == Op.Conv2DBackpropInputSwitchedBias, fop.type == Op.Conv2DBackpropInputSwitchedBias
        if flip_a != flip_b and fw.values.shape == w.values.shape and np.array_equal(fw.values, w.values):
            return "cache-key-omits-transpose-conv-flip"
        if c08_pipe.is_dilated_copy(fw.values, w.values) or c08_pipe.is_dilated_copy(w.values, fw.values):
            return "dilated-kernel-keeps-value-id"
        return None

    def _check_compiled(name, data, opts, res, net=None):
        seen = set()
        p_prep, p_items = [], []
        # ---- cache transparency of every answer (judged on what was recorded at the moment of the call) ----
        t_lines, t_meta = [], []
        for args, offs, r, hit, wcc, tl, filler in captured:
            if tl is None:
                continue
            ck.count("transparency_requests")
            ck.count("transparency_" + ("hit" if hit and r[1] is None else "hit-weights" if hit else "miss"))
            if tl.startswith("raise "):
                ck.violation(f"{name}: encode_weight_and_scale_tensor answered the request of operator {args[1].name} (cache hit={hit}) but the same request "
                             f"raises {tl[6:]} when the cache is bypassed", {"network": name, "options": opts, "op": args[1].name,
                             "replay": "harness/netgen network '%s' compiled with %s" % (name, " ".join(opts))}, key=stale_key(args, filler))
                continue
            t_lines.append(tl)
            t_meta.append((args, offs, r, hit, filler))
        t_out = ck.model(t_lines)
        stale_ids = set()
        stale_keys = {}
        t_reported = set()
        for o, (args, offs, r, hit, filler) in zip(t_out, t_meta):
            if o == "ok":
                ck.count("transparency_ok")
                continue
            ck.count("transparency_fail")
            stale_ids.add(id(r[0]) * 1000003 + id(args[1]))
            stale_keys[id(r[0]) * 1000003 + id(args[1])] = stale_key(args, filler)
            op, w = args[1], args[2]
            if (op.name, o) in t_reported:
                continue            # the scheduler repeats a request with other block configurations: one report per operator and verdict
            t_reported.add((op.name, o))
            fdesc = "" if filler is None else f"; the cache entry was filled by operator {filler[0].name} ({filler[0].type.name}, filter {list(filler[1].values.shape)})"
            ck.violation(f"{name}: the answer of encode_weight_and_scale_tensor for operator {op.name} ({op.type.name}, filter {list(w.values.shape)}, "
                         f"kernel {args[4].height}x{args[4].width} dilation {args[4].dilation.x}, depth slices {offs}, cache hit={hit}) is not what the "
                         f"same request returns with the cache bypassed: {o}{fdesc}",
                         {"network": name, "options": opts, "op": op.name, "depth_offsets": offs, "verdict": o,
                          "net": net.desc if net is not None else None,
                          "replay": "harness/netgen network '%s' compiled with %s; wrap weight_compressor.encode_weight_and_scale_tensor and compare "
                                    "each answer with the answer obtained after CompressedWeightCache.cache.clear()" % (name, " ".join(opts))},
                         key=stale_key(args, filler))
        for args, offs, r, hit, wcc, _tl, _filler in captured:
            arch, op, w, b, kernel, bc, _ = args
            ident = (id(r[0]), id(r[1]), tuple(offs), id(op))
            if ident in seen:
                continue
            seen.add(ident)
            ck.count("pipe_requests")
            if op.type != op.original_type:
                ck.count("pipe_requests_type_differs_from_source_type")
            ck.count("pipe_nslices_%d" % min(len(offs) - 1, 6))
            if len(offs) > 2:
                ck.count("pipe_multislice")
            p_prep.append(prep_inputs(op, b))
            p_items.append((args, offs, r, hit, wcc))
        pouts = ck.model(p_prep)
        slines, smeta, samel, samemeta = [], [], [], []
        prep_mismatch = []

        for (args, offs, r, hit, wcc), po, pl in zip(p_items, pouts, p_prep):
            arch, op, w, b, kernel, bc, _ = args
            rp = real_prep(arch, op, b)
            if po != rp:
                # the Spec below judges the records in the tensor against the model's selection (rule of the SOURCE operator type)
                prep_mismatch.append({"correspondence": "wl_prep", "network": name, "options": opts, "op": op.name, "request": pl[:1000],
                                      "model": po[:400], "implementation": rp[:400]})
                if not po.startswith("ok"):
                    continue
            qs = parse_qs(po)
            wt, st = r
            scale_holder = st if st is not None else wt
            # layout + records of the tensor that carries this request's scales; weights of the weights tensor
            is_stale = (id(wt) * 1000003 + id(op)) in stale_ids
            if st is None and not is_stale:
                slines.append(spec_line(arch, op, w, b, kernel, bc, offs, wt, qs, True))
                smeta.append((op.name, offs, hit, "combined"))
            elif st is not None:
                slines.append(spec_line(arch, op, w, b, kernel, bc, offs, st, qs, False))
                smeta.append((op.name, offs, hit, "scale-only"))
        so = ck.model(slines)
        for o, (opn, offs, hit, what) in zip(so, smeta):
            if o == "ok":
                ck.count("pipe_spec_ok")
            else:
                ck.count("pipe_spec_fail")
                ck.violation(f"Lean Spec rejects a tensor of a compiled network: {o[:160]} (op {opn}, depth slices {offs}, {what}, cache hit={hit})",
                             {"network": name, "options": opts, "op": opn, "depth_offsets": offs, "verdict": o[:1500],
                              "replay": "harness/netgen network '%s' compiled with %s" % (name, " ".join(opts))})
        # scheduler buffers: slice i is DMA'd into buffer i mod n
        blines, bmeta = [], []
        for st_ in res.streams:
            if st_.sg is None or getattr(st_.sg, "schedule", None) is None:
                continue
            for sched_op, cost in st_.sg.schedule.cost_map.items():
                if not cost.buffered_weight_tensors or cost.npu_weights_tensor is None:
                    continue
                wt = cost.npu_weights_tensor
                sizes = [int(t.storage_size()) for t in cost.buffered_weight_tensors]
                dma = []
                for a in cost.ofm_depth_slices[:-1]:
                    tot = 0
                    for k2, r2 in wt.encoded_ranges.items():
                        if k2.depth == a:
                            tot += (r2.total_bytes + 15) // 16 * 16
                    dma.append(tot)
                blines.append("wl_bufspec %d %s %d %s" % (len(sizes), " ".join(map(str, sizes)), len(dma), " ".join(map(str, dma))))
                bmeta.append((sched_op.name, sizes, dma, [int(x) for x in cost.ofm_depth_slices], list(wt.double_buffer_sizes)))
                ck.count("pipe_buffered_ops")
                if len(sizes) == 1 and len(dma) > 1:
                    ck.count("pipe_single_buffer_multi_slice")
        bo = ck.model(blines)
        for o, m in zip(bo, bmeta):
            if o != "1":
                ck.count("pipe_buffer_too_small")
                ck.violation(f"{name}: weight buffer(s) {m[1]} of operator {m[0]} cannot hold slice DMA sizes {m[2]} (depth slices {m[3]}, double_buffer_sizes {m[4]})",
                             {"network": name, "options": opts, "op": m[0], "buffer_sizes": m[1], "slice_dma_bytes": m[2], "depth_slices": m[3],
                              "double_buffer_sizes": m[4], "replay": "compile network '%s' with %s" % (name, " ".join(opts))})

        # ---- the FINAL schedule and the EMITTED operations (not the requests made on the way) --------------------
        # (A) the tensors each operator ends up with vs the depth slices the command generator will iterate
        from ethosu.vela.high_level_command_stream import NpuStripe
        f_prep, f_items = [], []
        sliced_ops = {id(a[0][1]) for a in captured if len(a[1]) > 2}
        for st_ in res.streams:
            if st_.sg is None or getattr(st_.sg, "schedule", None) is None:
                continue
            for sched_op, cost in st_.sg.schedule.cost_map.items():
                wt = cost.npu_weights_tensor
                if wt is None or not isinstance(wt, wc.NpuWeightTensor):
                    continue
                op = sched_op.parent_op
                offs = [int(x) for x in cost.ofm_depth_slices]
                ident = (id(wt), id(cost.npu_scales_tensor), tuple(offs), id(op))
                ck.count("final_costs")
                if len(offs) == 2 and not cost.buffered_weight_tensors and id(op) in sliced_ops:
                    ck.count("final_unsliced_after_slicing_was_tried")      # the "don't slice or buffer" fallback
                if ident in seen or op.bias is None:
                    continue            # exactly a request already judged above (same tensors, same slices, same operator)
                seen.add(ident)
                f_prep.append(prep_inputs(op, op.bias))
                f_items.append((st_.arch, sched_op, cost, offs))
        f_out = ck.model(f_prep)
        flines, fmeta = [], []
        for (arch, sched_op, cost, offs), po in zip(f_items, f_out):
            if not po.startswith("ok"):
                continue
            op = sched_op.parent_op
            qs = parse_qs(po)
            ck.count("final_costs_judged_separately")
            if cost.npu_scales_tensor is None:
                flines.append(spec_line(arch, op, op.weights, op.bias, sched_op.kernel, cost.block_config, offs, cost.npu_weights_tensor, qs, True))
            else:
                flines.append(spec_line(arch, op, op.weights, op.bias, sched_op.kernel, cost.block_config, offs, cost.npu_scales_tensor, qs, False))
            fmeta.append((op.name, offs, [k.depth for k in cost.npu_weights_tensor.encoded_ranges]))
        fo = ck.model(flines)
        for o, m in zip(fo, fmeta):
            if o != "ok":
                ck.count("final_cost_spec_fail")
                ck.violation(f"{name}: operator {m[0]} is scheduled with depth slices {m[1]} but holds a tensor whose ranges start at channels {sorted(set(m[2]))}: {o[:160]}",
                             {"network": name, "options": opts, "op": m[0], "ofm_depth_slices": m[1], "range_depths": m[2], "verdict": o[:1500],
                              "replay": "compile network '%s' with %s; inspect sg.schedule.cost_map[op].npu_weights_tensor.encoded_ranges vs ofm_depth_slices" % (name, " ".join(opts))})
        # (B) every emitted NPU operation with weights: channel cover of its stripe + its address ranges
        tlines, tmeta = [], []
        mlines, mreal, mmeta = [], [], []
        for st_ in res.streams:
            if not st_.npu_ops or st_.op_to_cmd is None:
                continue
            for nop in st_.npu_ops:
                cmd = st_.op_to_cmd.get(nop)
                if isinstance(nop, api.NpuDmaOperation) and cmd is not None and isinstance(getattr(cmd, "in_tensor", None), wc.NpuWeightTensor):
                    wr = ranges_of(cmd.in_tensor)
                    tlines.append("wl_dma %d %d %d %d %s %d %d %d %d" % (int(cmd.in_tensor.address or 0), int(cmd.out_tensor.address or 0),
                                  int(cmd.box.start_coord[-1]), len(wr), fmt_ranges(wr), nop.src.address, nop.src.length, nop.dest.address, nop.dest.length))
                    tmeta.append((cmd.out_tensor.name, int(cmd.box.start_coord[-1]), int(cmd.box.end_coord[-1]), True, False, sorted({r[1] for r in wr})))
                    ck.count("emitted_weight_dmas")
                    continue
                if not isinstance(cmd, NpuStripe) or cmd.weight_tensor is None or cmd.weight_box is None:
                    continue
                wtens = cmd.weight_tensor
                src = wtens.src_tensor if wtens.src_tensor is not None else wtens
                if not isinstance(src, wc.NpuWeightTensor):
                    continue
                pop = cmd.ps.primary_op
                full_depth = int(pop.weights.values.shape[-1]) if pop.weights is not None and pop.weights.values is not None else 0
                c0, c1 = int(cmd.weight_box.start_coord[-1]), int(cmd.weight_box.end_coord[-1])
                wr = ranges_of(src)
                buffered = wtens is not src
                sep = cmd.scale_tensor is not None
                sr = ranges_of(cmd.scale_tensor) if sep else []
                tl = "wl_stripe %d %d %d %d %d %d %d %d %s %d %d %d %s %d %s %d %s" % (
                    st_.arch.ncores, full_depth, c0, c1, int(src.address or 0), int(buffered), int(wtens.address or 0) if buffered else 0,
                    len(wr), fmt_ranges(wr), int(sep), int(cmd.scale_tensor.address or 0) if sep else 0, len(sr), fmt_ranges(sr),
                    len(nop.weights), " ".join(f"{a.address} {a.length}" for a in nop.weights),
                    len(nop.biases), " ".join(f"{a.address} {a.length}" for a in nop.biases))
                tlines.append(" ".join(tl.split()))
                tmeta.append((pop.name, c0, c1, buffered, sep, sorted({r[1] for r in wr})))
                ck.count("emitted_ops_with_weights")
                # model correspondence of create_weights on the emitted operation (all three shapes: in place, buffered, stand-alone scales)
                mlines.append("wl_addr %d %d %s %d %d %d %d %d %d %s %d" % (
                    st_.arch.ncores, len(wr), fmt_ranges(wr), int(src.address or 0), int(buffered), int(wtens.address or 0) if buffered else 0,
                    int(sep), int(cmd.scale_tensor.address or 0) if sep else 0, len(sr), fmt_ranges(sr), c0))
                mreal.append(f"w {addr_str(nop.weights)} b {addr_str(nop.biases)}")
                mmeta.append((pop.name, c0, c1, buffered, sep))
                if sep:
                    ck.count("emitted_ops_standalone_scales")
                    if len(sr) > 1:
                        ck.count("emitted_ops_standalone_scales_several_ranges_%dcore" % st_.arch.ncores)
                    if buffered:
                        ck.count("emitted_ops_standalone_scales_buffered_weights")
        mo_ = ck.model([" ".join(x.split()) for x in mlines])
        mdis = [(o, r, m) for o, r, m in zip(mo_, mreal, mmeta) if o.split(" dma")[0] != r]
        ck.count("emitted_ops_create_weights_model_compared", len(mlines))
        to = ck.model(tlines)
        if mdis and all(o == "ok" for o in to):
            o, r, m = mdis[0]
            ck.violation(f"correspondence createWeights vs high_level_command_to_npu_op.create_weights broken on {len(mdis)} emitted operations of {name} "
                         f"(first: {m[0]}, channels [{m[1]}, {m[2]}), buffered={m[3]}, stand-alone scales={m[4]})",
                         {"correspondence": "wl_addr", "network": name, "options": opts, "model": o[:600], "implementation": r[:600]}, found_input=False)
        for o, m, tl in zip(to, tmeta, tlines):
            if o != "ok":
                ck.count("emitted_op_fail")
                ck.violation(f"{name}: the NPU operation emitted for {m[0]}, output channels [{m[1]}, {m[2]}), is handed ranges that do not cover exactly these channels / "
                             f"are not the recorded sections: {o} (buffered={m[3]}, stand-alone scales={m[4]}, range start channels {m[5]})",
                             {"network": name, "options": opts, "op": m[0], "channels": [m[1], m[2]], "verdict": o, "request": tl[:2500],
                              "replay": "compile network '%s' with %s; compare npu_op.weights/biases and the stripe's weight_box with encoded_ranges" % (name, " ".join(opts))})
        # (C) register level, on the OUTPUT FILE: the command words are decoded by Lean, weight DMAs are replayed on the file's
        # constants tensor, and the bytes the SCALE / WEIGHT registers of every operation designate must be that operation's own:
        # one record per channel of the stripe the core owns with the bias of the operator's own bias tensor and the
        # (multiplier, shift) the Lean models (C09 quantiser + the selection of _prepare_scale_and_bias) compute from the
        # SOURCE operator's quantisation; a weight stream that decodes to the operator's own filter for those channels
        if res.out_model is not None:
            import fbwalk
            omodel = fbwalk.parse(res.out_model)
            matches = c08_pipe.match_custom_ops(pipeline, omodel, res.streams)
            srcs = c08_pipe.source_ops(net) if net is not None else {}
            jobs, q_lines = [], []
            for art, hit in zip(res.streams, matches):
                if not art.npu_ops or art.op_to_cmd is None:
                    continue
                if hit is None:
                    ck.count("emitted_stream_not_found_in_output_file")
                    continue
                items = []
                for k, nop in enumerate(art.npu_ops):
                    cmd = art.op_to_cmd.get(nop)
                    if not isinstance(cmd, NpuStripe) or cmd.weight_tensor is None or cmd.weight_box is None:
                        continue
                    pop = cmd.ps.primary_op
                    if pop.weights is None or pop.weights.values is None or pop.bias is None:
                        continue
                    src = None
                    if pop.forced_input_quantization is None and pop.forced_output_quantization is None and pop.explicit_scaling is None:
                        src = srcs.get(pop.ofm.name) or srcs.get(pop.name)
                    ck.count("emitted_expected_from_" + ("source_file" if src is not None else "optimised_graph"))
                    items.append((k, cmd, src))
                    # the tensor written is the result of a later (clamp-only) operator fused into the pass: its quantisation counts
                    fin = c08_pipe.fused_result_scale(cmd, net)
                    if fin is not None:
                        ck.count("emitted_ops_result_of_fused_later_op")
                    q_lines.append(c08_pipe.prepq_line_source(src, fin) if src is not None else c08_pipe.prepq_line_graph(wc, pop, pop.bias, fin))
                jobs.append((art, hit, items))
            q_out = iter(ck.model(q_lines))
            e_lines, e_meta = [], []
            for art, hit, items in jobs:
                infos, names = [], []
                for k, cmd, src in items:
                    po = next(q_out)
                    pop = cmd.ps.primary_op
                    if not po.startswith("ok"):
                        ck.count("emitted_scales_unmodelled_" + po.split()[0])
                        recs, judge_recs = [], False
                    else:
                        recs, judge_recs = parse_qs(po), True
                    biases = [int(x) for x in (np.asarray(src[3].data).reshape(-1) if src is not None else pop.bias.values)]
                    if judge_recs:
                        infos.append(c08_pipe.op_info(mlw_codec, wc, k, cmd, art.arch.ncores, recs, biases))
                        wsrc = cmd.weight_tensor.src_tensor if cmd.weight_tensor.src_tensor is not None else cmd.weight_tensor
                        names.append((k, pop.name, pop.type.name, int(cmd.weight_box.start_coord[-1]), int(cmd.weight_box.end_coord[-1]),
                                      stale_keys.get(id(wsrc) * 1000003 + id(pop), "-")))
                e_lines.append(c08_pipe.emitted_line(art.arch, hit[1], hit[2], infos))
                e_meta.append(names)
            e_out = ck.model(e_lines)
            for o, names in zip(e_out, e_meta):
                if o.startswith("ok"):
                    ck.count("register_level_ops_judged", int(o.split()[1]))
                    continue
                ck.count("register_level_fail")
                bad = sorted({int(t.split(":")[0][2:]) for t in o.split()[1:] if t.startswith("op") and t.split(":")[0][2:].isdigit()})
                who = [n for n in names if n[0] in bad][:4]
                # every failing operation holds a tensor whose answer was already found non-transparent for a recorded cause,
                # and only its weight stream is wrong: same finding
                kk = {n[5] for n in names if n[0] in bad}
                only_weights = all(":weights-core" in t or ":weight-bytes" in t for t in o.split()[1:])
                rkey = kk.pop() if len(kk) == 1 and only_weights and len(bad) > 0 and len([n for n in names if n[0] in bad]) == len(bad) else None
                rkey = None if rkey == "-" else rkey
                ck.violation(f"{name}: the bytes designated by the SCALE/WEIGHT registers of the emitted stream are not the operation's own constants: {o[:300]} "
                             f"(operations (index, name, type, c0, c1): {who})",
                             {"network": name, "options": opts, "verdict": o[:2000], "operations": who, "net": net.desc if net is not None else None,
                              "replay": "compile network '%s' with %s; decode the command stream of the output file and read the ranges named by "
                                        "NPU_SET_SCALE_BASE/LENGTH (and SCALE1, WEIGHT, WEIGHT1) from the constants tensor / the weight DMA destinations" % (name, " ".join(opts))},
                             key=rkey)
        if prep_mismatch and not any(v[2] for v in ck.violations):
            ck.violation("correspondence prepareScales vs _prepare_scale_and_bias broken on a compiled network", prep_mismatch[0], found_input=False)
        return res

    # ---- (0) the shared-constants family first: one filter and/or bias tensor of the file used by 2-4 operators that differ in one respect ----
    def shared_consts_sweep():
        ini = common.REPO + "/ethosu/config_files/Arm/vela.ini"
        u65 = ["--config", ini, "--system-config", "Ethos_U65_High_End", "--memory-mode", "Dedicated_Sram"]
        combos = [("ethos-u55-128", "Performance", 0), ("ethos-u65-512", "Performance", 0), ("ethos-u55-128", "Size", 1), ("ethos-u65-512", "Size", 1),
                  ("ethos-u55-128", "Performance", 2), ("ethos-u65-512", "Performance", 2)]
        fixed = [  # deterministic: the configurations of the recorded seeded changes and findings
            dict(axis="stride_first", n_ops=2, kernel=(2, 2), oc=16, ic=2, hw=(8, 8), dtype="int8", per_channel=False, extra_axis="bias"),
            dict(axis="stride_first", n_ops=3, kernel=(3, 3), oc=16, ic=3, hw=(9, 12), dtype="int8"),
            dict(axis="stride_first", n_ops=2, kernel=(1, 1), oc=24, ic=4, hw=(8, 12), dtype="int8"),
            dict(axis="bias", n_ops=2, kernel=(3, 3), oc=32, ic=16, hw=(8, 8), dtype="int8", per_channel=False),
            dict(axis="bias", n_ops=3, kernel=(3, 3), oc=96, ic=32, hw=(8, 8), dtype="int8"),
            dict(axis="dilation", n_ops=2, kernel=(2, 2), oc=24, ic=32, hw=(12, 12), dtype="int8"),
            dict(axis="tconv", n_ops=2, kernel=(3, 3), oc=40, ic=16, hw=(6, 6), dtype="int8", per_channel=False),
            dict(axis="ofm_scale", n_ops=2, kernel=(3, 3), oc=128, ic=32, hw=(8, 8), dtype="int8"),
            dict(axis="ifm_scale", n_ops=3, kernel=(1, 1), oc=64, ic=64, hw=(6, 6), dtype="int8"),
            dict(axis="ifm_size", n_ops=3, kernel=(3, 3), oc=48, ic=16, hw=(8, 8), dtype="int8"),
            dict(axis="stride_ge4", n_ops=3, kernel=(2, 2), oc=16, ic=4, hw=(8, 24), dtype="int8"),
            dict(axis="stride", n_ops=3, kernel=(3, 3), oc=32, ic=16, hw=(12, 12), dtype="int8"),
            dict(axis="ifm_bits", n_ops=2, kernel=(3, 3), oc=32, ic=16, hw=(8, 8)),
            dict(axis="same", n_ops=3, kernel=(3, 3), oc=80, ic=32, hw=(8, 8), dtype="int8"),
            # part 2 (harness/netgen_shared.py): every weight re-laying rewrite, users differing in the parameter the rewrite reads
            dict(axis="stride_ge4_same_vs_valid", n_ops=2, kernel=(1, 6), oc=8, ic=3, hw=(8, 16), dtype="int8", per_channel=False),
            dict(axis="stride_ge4_same_vs_valid", n_ops=4, dtype="int8"),
            dict(axis="padding", n_ops=4, dtype="int8"),
            dict(axis="stride_ge4_ifm_width", n_ops=3, dtype="int8"),
            dict(axis="kernel_larger_than_ifm", n_ops=3),
            dict(axis="dilation_hw", n_ops=4, dtype="int8", dilations=[(3, 3), (3, 1), (1, 3), (6, 6)]),
            dict(axis="groups", n_ops=3, dtype="int8"),
            dict(axis="dw_mult", n_ops=3),
            dict(axis="dw_params", n_ops=3),
            dict(axis="dw_vs_conv", n_ops=3, dtype="int8"),
            dict(axis="fc_ifm_shape", n_ops=3),
            dict(axis="conv1x1_fc", n_ops=3, dtype="int8"),
            dict(axis="tconv_params", n_ops=3, dtype="int8"),
        ]
        nets = []
        for j, kw in enumerate(fixed):
            nets.append((f"sc_fixed{j}_{kw['axis']}", _random.Random(1000 + j), kw, j))
        n_rand = 120 if T else 10
        for j in range(n_rand):
            r = _random.Random(ck.seed * 104729 + j)
            nets.append((f"sc_rand{j}", r, {}, j))
        if net_replay:
            d_, seed_ = net_replay[0]
            nm = d_["network"]
            if not nm.startswith("sc_"):
                return
            j = int(nm.split("_")[1][5:] if nm.startswith("sc_fixed") else nm.split("_")[1][4:])
            kw = fixed[j] if nm.startswith("sc_fixed") else {}
            r = _random.Random(1000 + j) if kw else _random.Random(seed_ * 104729 + j)
            net = netgen.shared_consts_net(r, j, **kw)
            print("network:", net.desc[-1], "options:", " ".join(d_["options"]))
            ck.known_hits.clear()       # only what the replayed network shows counts
            compile_and_check(nm, netgen.serialize(net), list(d_["options"]), net=net)
            return
        for nm, r, kw, j in nets:
            net = netgen.shared_consts_net(r, j, **kw)
            data = netgen.serialize(net)
            wbytes = sum(int(np.prod(t.shape)) for t in net.tensors if t.data is not None)
            if kw:      # both accelerators; quick: the optimisation target alternates, thorough: all four
                todo = combos[:4] if T else ([combos[0], combos[3]] if j % 2 == 0 else [combos[2], combos[1]])
            else:
                todo = [combos[j % len(combos)]]
            for acc, optm, variant in todo:
                opts = ["--accelerator-config", acc, "--optimise", optm]
                if variant or wbytes > 20000:
                    # weights do not fit the fast storage: depth slices and weight buffering
                    opts += ["--arena-cache-size", str(max(6000, wbytes // (3 if variant != 2 else 2)))]
                if "u65" in acc and (j + variant) % 2 == 0:
                    opts += u65
                ck.count("shared_consts_nets")
                ck.count("shared_consts_axis_" + net.desc[-1].split("axis=")[1].split()[0])
                compile_and_check(nm + "_" + acc[6:] + "_" + optm[:4], data, opts, net=net)

    shared_consts_sweep()
    if net_replay and net_replay[0][0]["network"].startswith("sc_"):
        for w_, p_, _f in ck.violations:
            print("VIOLATION (replayed):", w_[:400])
        for k_, w_ in ck.known_hits.items():
            print("KNOWN-FINDING (replayed):", k_)
        raise SystemExit(1 if (ck.violations or ck.known_hits) else 0)

    # ---- (0b) nearly-equal scales around every requantising boundary (family `near_scale`, harness/gen_nearscale.py) ----
    for nm_, net_, opts_ in c08_pipe.near_scale_jobs(netgen, ck.seed, T, net_replay):
        ck.count("near_scale_nets")
        if net_replay:
            print("network:", net_.desc[-1], "options:", " ".join(opts_))
            ck.known_hits.clear()
        compile_and_check(nm_, netgen.serialize(net_), opts_, net=net_)
    if net_replay and net_replay[0][0]["network"].startswith("ns_"):
        for w_, p_, _f in ck.violations:
            print("VIOLATION (replayed):", w_[:400])
        raise SystemExit(1 if (ck.violations or ck.known_hits) else 0)

    def conv_pair_net():
        r = _random.Random(1)
        b = netgen.B(r, "shared_w_int8_int16", "int8")
        x8 = b.input([1, 8, 8, 16], "int8")
        x16 = b.input([1, 8, 8, 16], "int16", zp=0)
        y8 = b.conv(x8, 16, (3, 3), per_channel=False)
        wt_i = b.net.ops[-1].inputs[1]
        ws = b.t(wt_i).scales
        bt_i = b.const([16], "int64", np.arange(16) * 7, [b.t(x16).scales[0] * ws[0]], [0], 0, "b16")
        y16 = b.fm([1, 8, 8, 16], "int16", zp=0)
        b.net.ops.append(netgen.Op("CONV_2D", [x16, wt_i, bt_i], [y16], ("Conv2DOptions", dict(
            Padding=0, StrideW=1, StrideH=1, DilationWFactor=1, DilationHFactor=1, FusedActivationFunction=0))))
        return netgen.serialize(b.finish([y8, y16]))

    def mean_net(shapes, name):
        r = _random.Random(1)
        b = netgen.B(r, name, "int8")
        outs = []
        for (h, w_, c_) in shapes:
            outs.append(b.mean_hw(b.input([1, h, w_, c_], "int8"), True))
        return netgen.serialize(b.finish(outs))

    def overflow_net():
        r = _random.Random(5)
        b = netgen.B(r, "single_buffer", "int8")
        x = b.input([1, 4, 4, 16], scale=0.05, zp=0)
        y = b.conv(x, 40, (3, 3), per_channel=False, wstyle="uniform", out_scale=0.1)
        wt_ = b.t(b.net.ops[-1].inputs[1])
        d = np.zeros((40, 3, 3, 16), dtype=np.int8) + 3
        d[16:32] = np.random.RandomState(7).randint(-127, 128, (16, 3, 3, 16))
        wt_.data = d
        return netgen.serialize(b.finish([y]))

    # (a) two consumers of one weight tensor with different IFM bit depth
    compile_and_check("shared_w_int8_int16", conv_pair_net(), ["--accelerator-config", "ethos-u55-128"])
    # (b) two MEAN reductions with the same element count and depth in one network (9x2 and 3x6)
    compile_and_check("two_means_9x2_3x6", mean_net([(9, 2, 16), (3, 6, 16)], "two_means"), ["--accelerator-config", "ethos-u55-128"])
    # (c) one network compiled for two accelerators in the same process (cache and value-derived ids survive)
    mdata = mean_net([(9, 2, 16)], "one_mean")
    compile_and_check("one_mean_u55", mdata, ["--accelerator-config", "ethos-u55-128"])
    compile_and_check("one_mean_u65_after_u55", mdata, ["--accelerator-config", "ethos-u65-512"], fresh_cache=False)
    # (d) a single (not double) weight buffer with several depth slices
    compile_and_check("single_buffer_560_vs_2864", overflow_net(), ["--accelerator-config", "ethos-u55-64", "--arena-cache-size", "4000", "--optimise", "Performance"])
    # (e) random weight-heavy networks: scheduler-produced depth slices, incl. two cores
    n_nets = 700 if T else 45
    wnet_replay = int(net_replay[0][0]["network"][4:]) if net_replay else None
    if net_replay:
        ck.known_hits.clear()
    for it in range(n_nets if wnet_replay is None else wnet_replay + 1):
        if wnet_replay is not None and it != wnet_replay:
            continue
        r = _random.Random((ck.seed if wnet_replay is None else net_replay[0][1]) * 7919 + it)
        b = netgen.B(r, f"wnet{it}", r.choice(["int8", "int8", "uint8", "int16"]))
        h = r.choice([4, 8, 12])
        pointwise = r.random() < 0.2       # 1x1 feature map: 1x1 convolutions become FullyConnected (type != source type)
        if pointwise:
            h = 1
        c_ = r.choice([8, 16, 32, 64])
        cur = b.input([1, h, h, c_])
        for _ in range(r.randint(1, 3)):
            kind = r.choice(["conv", "conv", "conv", "dw", "fc"]) if not pointwise else "conv"
            if kind == "conv":
                k = r.choice([1, 3, 3, 5]) if not pointwise else 1
                new = b.conv(cur, r.choice([24, 32, 40, 48, 64, 80, 96, 128, 160]), (k, k), wstyle=r.choice(["uniform", "uniform", "small", "sparse"]))
            elif kind == "dw":
                new = b.dwconv(cur, (3, 3))
            else:
                new = b.fc(cur, r.choice([16, 40, 64])) if it % 5 == 0 else None
            if new is None:
                break
            cur = new
            if len(b.t(cur).shape) != 4:
                break
        if not b.net.ops:
            continue
        data = netgen.serialize(b.finish([cur]))
        acc = r.choice(["ethos-u55-64", "ethos-u55-128", "ethos-u55-256", "ethos-u65-256", "ethos-u65-512", "ethos-u65-512", "ethos-u65-512"])
        wbytes = sum(int(np.prod(t.shape)) for t in b.net.tensors if t.data is not None)
        arena = int(wbytes * r.uniform(0.2, 1.5)) + 4000
        if r.random() < 0.45:
            # tight fast storage: the feature maps nearly fill it, so weight slices may not fit at all (no-buffering fallback)
            esz = 2 if b.dtype == "int16" else 1
            fm = [int(np.prod(t.shape)) * esz for t in b.net.tensors if t.data is None]
            peak = max(x + y for x, y in zip(fm, fm[1:])) if len(fm) > 1 else fm[0]
            arena = peak + int(r.choice([0, 256, 1024, 2048, 4096]) + wbytes * r.uniform(0.0, 0.25))
        opts = ["--accelerator-config", acc, "--arena-cache-size", str(arena), "--optimise", r.choice(["Performance", "Size"])]
        if "u65" in acc and r.random() < 0.7:
            ini = common.REPO + "/ethosu/config_files/Arm/vela.ini"
            opts += ["--config", ini, "--system-config", "Ethos_U65_High_End", "--memory-mode", r.choice(["Dedicated_Sram", "Shared_Sram"])]
        compile_and_check(f"wnet{it}", data, opts)
    if net_replay:
        for w_, p_, _f in ck.violations:
            print("VIOLATION (replayed):", w_[:400])
        for k_, w_ in ck.known_hits.items():
            print("KNOWN-FINDING (replayed):", k_)
        raise SystemExit(1 if (ck.violations or ck.known_hits) else 0)

    cache.clear()
    nontrivial = len({(i, tuple(c["offsets"]), c["acc"]) for i, c in enumerate(cases) if len(c["offsets"]) > 2 or arch_of(c["acc"]).ncores == 2}) \
        + ck.counters.get("cache_hit", 0) + ck.counters.get("cache_hit-weights", 0) + ck.counters.get("pipe_multislice", 0)
    ck.finish({
        "evaluations": len(breqs) + len(rt_lines) + len(prep_reqs) + len(lines) + len(spec_reqs) + len(addr_reqs) + len(addr_spec) + len(addr_match) + len(seq_same_reqs)
        + ck.counters.get("pipe_requests", 0) + ck.counters.get("pipe_buffered_ops", 0) + ck.counters.get("final_costs", 0)
        + ck.counters.get("emitted_ops_with_weights", 0) + ck.counters.get("emitted_weight_dmas", 0)
        + ck.counters.get("transparency_requests", 0) + ck.counters.get("register_level_ops_judged", 0),
        "distinct_nontrivial": nontrivial,
        "rule": "case = one encode request (stub operator or scheduler-produced) or one request of a sequence against the compression cache; "
                "non-trivial when it has >= 2 depth slices or runs on 2 cores or is answered from the cache; distinct by (case index, depth offsets, accelerator)",
        "bias_records": len(breqs),
        "encode_requests": len(cases),
        "spec_checked_real_tensors": len(spec_reqs) + ck.counters.get("pipe_spec_ok", 0),
        "spec_rejections_unknown": len(spec_fail),
        "disagreements": {"bias": len(bias_dis), "prep": len(prep_dis), "encode": len(enc_dis), "addr": len(addr_dis)},
        "cache_sequences": n_worlds,
        "networks_compiled": ck.counters.get("compile_ok", 0),
        "cache_transparency_answers_judged": ck.counters.get("transparency_requests", 0),
        "register_level_operations_judged": ck.counters.get("register_level_ops_judged", 0),
        "shared_constants_networks": ck.counters.get("shared_consts_nets", 0),
        "exhaustive": False,
        "unreached_branches": ([] if ck.counters.get("outcome_err:index") else
                               ["Err.index (scale list shorter than bias list: _prepare_scale_and_bias always repeats or matches)"])
        + ([] if ck.counters.get("emitted_ops_standalone_scales") else
           ["model createWeights with a stand-alone scale tensor (scaleTensor = some ..): no compiled network produced one"]),
        "trusted_base_extra": ["scaling.quantise_scale / reduced_quantise_scale (property C09) supply the candidate (multiplier, shift) pairs",
                               "mlw_codec.decode (property C07) turns weight sections back into integers",
                               "NumPy float32/double arithmetic evaluates the two scale quotients handed to the Lean quantiser (wl_prepq)",
                               "harness/fbwalk.py reads the command stream and the constants tensor out of the output file"],
    }, assumptions=[
        "hardware contract: a depth slice is split over the cores by the channel's index within the slice modulo the core count; each core reads "
        "10-byte records then a 16-byte aligned weight stream from its own 16-byte aligned address",
        "Spec quantifier: depth offsets strictly increasing from 0 to the OFM depth, block depth >= core count (block configs are multiples of the OFM micro-block)",
        "the float part of _prepare_scale_and_bias (double product/quotient and quantise_scale) is property C09; here the two candidate formulas are "
        "evaluated with numpy doubles in the harness and the selection between them is the model's",
    ])


main_wrapper(main)
