#!/venv/bin/python
"""Translator: regenerates lean/VelaVerif/Gen/*.lean from the *live* objects of /repo.

Every run of every check calls this first.  The generated files hold only constants
(accelerator rows, register layouts, opcode tables, constraint ranges, CLI defaults ...);
theorems that quantify over "the six accelerators", "every opcode" and so on are theorems
over these tables and are therefore re-checked by the Lean kernel against what the code
says now.  A file is rewritten only when its content changes, so that `lake build` stays
incremental.

Each module harness/tables/<name>.py exposes  emit(repo) -> dict{relative lean path: text}.
"""
import importlib
import os
import sys

HERE = os.path.dirname(os.path.abspath(__file__))
VERIF = os.path.dirname(HERE)
GEN_DIR = os.path.join(VERIF, "lean", "VelaVerif", "Gen")


def main():
    repo = os.environ.get("VERIF_REPO", "/repo")
    sys.path.insert(0, repo)
    sys.path.insert(0, HERE)
    os.makedirs(GEN_DIR, exist_ok=True)
    tables_dir = os.path.join(HERE, "tables")
    names = sorted(f[:-3] for f in os.listdir(tables_dir) if f.endswith(".py") and not f.startswith("_"))
    only = sys.argv[1:]
    changed = []
    for name in names:
        if only and name not in only:
            continue
        mod = importlib.import_module("tables." + name)
        for rel, text in mod.emit(repo).items():
            path = os.path.join(GEN_DIR, rel)
            old = None
            if os.path.exists(path):
                with open(path) as f:
                    old = f.read()
            if old != text:
                with open(path, "w") as f:
                    f.write(text)
                changed.append(rel)
    print("gen_tables: changed=" + ",".join(changed) if changed else "gen_tables: unchanged")


if __name__ == "__main__":
    main()
