#!/venv/bin/python
"""Translator: regenerates lean/VelaVerif/Gen/*.lean from the *live* objects of /repo.

Every run of every check calls this first.  The generated files hold only constants
(accelerator rows, register layouts, opcode tables, constraint ranges, CLI defaults ...);
theorems that quantify over "the six accelerators", "every opcode" and so on are theorems
over these tables and are therefore re-checked by the Lean kernel against what the code
says now.  A file is rewritten only when its content changes, so that `lake build` stays
incremental.

Each module harness/tables/<name>.py exposes  emit(repo) -> dict{relative lean path: text}.
"""
import importlib
import os
import sys

HERE = os.path.dirname(os.path.abspath(__file__))
VERIF = os.path.dirname(HERE)
GEN_DIR = os.path.join(VERIF, "lean", "VelaVerif", "Gen")


def main():
    """A plug-in that fails (the code no longer has the shape it reads) must not take the other tables down with it:
    its files are left as they are (the last successfully generated, committed version), the failure is recorded in
    Gen/.status.json, and harness/common.py lean_stage turns it into a failed obligation of exactly those checks whose
    property modules import one of the plug-in's files."""
    import json
    import traceback

    repo = os.environ.get("VERIF_REPO", "/repo")
    sys.path.insert(0, repo)
    sys.path.insert(0, HERE)
    os.makedirs(GEN_DIR, exist_ok=True)
    tables_dir = os.path.join(HERE, "tables")
    names = sorted(f[:-3] for f in os.listdir(tables_dir) if f.endswith(".py") and not f.startswith("_"))
    only = sys.argv[1:]
    changed = []
    map_path = os.path.join(tables_dir, "_outputs.json")
    try:
        outputs = json.load(open(map_path))
    except Exception:
        outputs = {}
    failed = {}
    for name in names:
        if only and name not in only:
            continue
        try:
            mod = importlib.import_module("tables." + name)
            emitted = mod.emit(repo)
        except Exception as e:  # noqa: B902  any failure of a plug-in is a finding about the source it reads, reported per plug-in
            failed[name] = {"error": (type(e).__name__ + ": " + str(e))[:400], "files": outputs.get(name, []),
                            "traceback_tail": traceback.format_exc()[-1200:]}
            continue
        if sorted(emitted) != outputs.get(name):
            outputs[name] = sorted(emitted)
        for rel, text in emitted.items():
            path = os.path.join(GEN_DIR, rel)
            old = None
            if os.path.exists(path):
                with open(path) as f:
                    old = f.read()
            if old != text:
                with open(path, "w") as f:
                    f.write(text)
                changed.append(rel)
    try:
        old_map = json.load(open(map_path))
    except Exception:
        old_map = None
    if old_map != outputs and not only:
        with open(map_path, "w") as f:
            json.dump(outputs, f, indent=1, sort_keys=True)
    with open(os.path.join(GEN_DIR, ".status.json"), "w") as f:
        json.dump({"repo": repo, "failed": failed}, f, indent=1)
    for name, info in failed.items():
        print(f"gen_tables: FAILED {name}: {info['error']} (files kept: {','.join(info['files']) or '?'})")
    print("gen_tables: changed=" + ",".join(changed) if changed else "gen_tables: unchanged")


if __name__ == "__main__":
    main()
