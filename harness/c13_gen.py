"""Targeted random families for C13: operator neighbourhoods that the general generators (netgen profiles) rarely
produce and in which the repair round found crashes: a slice in front of a resize / a broadcasting elementwise operation /
a windowed operation, convolution groups, per-axis quantisation on feature maps, table-lookup operators over every data
type / zero point / scale, resize shape extremes, PAD in front of MEAN, MEAN over arbitrary axes with arbitrary result
rank, TRANSPOSE/SPLIT operand variants, and tiny arena caches under --optimise Performance.

    gen(seed, idx) -> (netgen.Net, [cli options], family)       compile_one((seed, idx)) -> worker output (replay)
"""
import os
import random
import traceback
import zlib

import numpy as np

import common

FAMILIES = ["slice_resize", "slice_binary", "slice_window", "conv_groups", "peraxis_fm", "lut_any", "resize_extreme", "pad_mean",
            "mean_axes", "transpose_any", "split_axis", "tiny_arena", "cpu_between"]
ACCS = ["ethos-u55-32", "ethos-u55-64", "ethos-u55-128", "ethos-u55-256", "ethos-u65-256", "ethos-u65-512"]


def _opts(rng, perf_cache=False):
    o = ["--accelerator-config", rng.choice(ACCS), "--optimise", rng.choice(["Size", "Performance"]),
         "--tensor-allocator", rng.choice(["HillClimb", "Greedy", "LinearAlloc"])]
    if perf_cache:
        o[3] = "Performance"
        o += ["--arena-cache-size", str(rng.choice([2048, 4096, 8192, 16384, 32768]))]
    elif rng.random() < 0.3:
        o += ["--arena-cache-size", str(rng.choice([4096, 16384, 65536, 393216]))]
    return o


def gen(seed, idx):
    import netgen
    from netgen import Op, T

    fam = FAMILIES[idx % len(FAMILIES)]
    rng = random.Random((seed << 20) ^ (idx * 7919) ^ zlib.crc32(fam.encode()))
    dtype = rng.choice(["int8", "int8", "uint8", "int16"])
    b = netgen.B(rng, f"c13x{idx}", dtype)
    opts = _opts(rng, perf_cache=(fam == "tiny_arena"))

    def pre(x):
        k = rng.choice(["none", "none", "conv", "relu"])
        if k == "conv" and len(b.t(x).shape) == 4:
            return b.conv(x, b.t(x).shape[3], (1, 1), (1, 1), (1, 1), "SAME") or x
        if k == "relu":
            return b.unary("RELU", x)
        return x

    def rand_slice(x):
        _, h, w, c = b.t(x).shape
        b0, b1 = rng.randint(0, h - 1), rng.randint(0, w - 1)
        e0, e1 = rng.randint(b0 + 1, h), rng.randint(b1 + 1, w)
        if rng.random() < 0.3:
            e0, e1 = b0 + 1, b1 + 1
        c0 = rng.choice([0, 0, c // 2]) if c > 1 else 0
        if rng.random() < 0.3 and c % 2 == 0 and c >= 2:
            parts = b.split(x, 2, 3)
            return parts[rng.randint(0, 1)]
        return b.strided_slice(x, [0, b0, b1, c0], [1, e0, e1, c])

    out = None
    if fam in ("slice_resize", "slice_binary", "slice_window"):
        h, w, c = rng.choice([1, 2, 3, 8, 15]), rng.choice([1, 2, 3, 4, 8]), rng.choice([1, 2, 4, 8, 16])
        x = b.input([1, h, w, c])
        s = rand_slice(pre(x))
        st = b.t(s)
        if fam == "slice_resize":
            al, hp = rng.choice([(False, False), (True, False), (False, True), (False, False)])
            out = b.resize(s, rng.choice([2, 2, 4, 8]), rng.choice(["RESIZE_BILINEAR", "RESIZE_NEAREST_NEIGHBOR"]), al, hp)
        elif fam == "slice_binary":
            other_shape = [1, rng.choice([st.shape[1], st.shape[1] * 2, 4]), rng.choice([st.shape[2], 6]), rng.choice([st.shape[3], st.shape[3], 8])]
            y = b.input(other_shape)
            kind = rng.choice(["ADD", "SUB", "MUL", "MINIMUM", "MAXIMUM"])
            compatible = all(p == q or p == 1 or q == 1 for p, q in zip(other_shape, st.shape))
            if not compatible:
                y = b.input(list(st.shape))
            out = b.binary(kind, y, s) if rng.random() < 0.5 else b.binary(kind, s, y)
        else:
            k, sd = rng.choice([1, 2, 3, 5]), rng.choice([1, 2, 3])
            pad = rng.choice(["SAME", "VALID"])
            post = rng.choice(["conv", "dw", "avg", "max"])
            if post == "conv":
                out = b.conv(s, rng.choice([4, 8]), (k, k), (sd, sd), (1, 1), pad)
            elif post == "dw":
                out = b.dwconv(s, (k, k), (sd, sd), (1, 1), pad)
            else:
                out = b.pool(s, "AVERAGE_POOL_2D" if post == "avg" else "MAX_POOL_2D", (k, k), (sd, sd), pad)
        if out is not None and rng.random() < 0.4:
            out = b.unary(rng.choice(["RELU", "RELU6", "TANH"]), out)
    elif fam == "conv_groups":
        groups = rng.choice([2, 2, 4])
        fd, ocg = rng.choice([1, 2, 4]), rng.choice([1, 2, 4])
        c, oc, k = fd * groups, ocg * groups, rng.choice([1, 3])
        x = b.input([1, rng.randint(1, 8), rng.randint(1, 8), c])
        out = b.conv(pre(x), oc, (k, k), rng.choice([(1, 1), (2, 2)]), (1, 1), rng.choice(["SAME", "VALID"]),
                     per_channel=rng.random() < 0.5, bias=rng.random() < 0.7)
        if out is not None:
            wt = b.t(b.net.ops[-1].inputs[1])
            wt.shape = [oc, k, k, fd]
            wt.data = np.ascontiguousarray(wt.data[..., :fd])
    elif fam == "peraxis_fm":
        x = b.input([1, rng.randint(1, 8), rng.randint(1, 8), rng.choice([2, 4])])
        kind = rng.choice(["conv", "dw", "tconv", "pool", "add", "fc"])
        if kind == "conv":
            out = b.conv(x, 4, (1, 1), (1, 1), (1, 1), "SAME")
        elif kind == "dw":
            out = b.dwconv(x, (3, 3), (1, 1), (1, 1), "SAME")
        elif kind == "tconv":
            out = b.transpose_conv(x, 4, (2, 2), (2, 2), "SAME") if dtype != "int16" else b.conv(x, 4, (1, 1), (1, 1), (1, 1), "SAME")
        elif kind == "pool":
            out = b.pool(x, "MAX_POOL_2D", (2, 2), (1, 1), "SAME")
        elif kind == "add":
            out = b.binary("ADD", x, x)
        else:
            xt = b.t(x)
            out = b.fc(b.reshape(x, [1, int(np.prod(xt.shape))]), 4)
        if out is not None:
            t = b.t(rng.choice([x, out]))
            n = t.shape[-1]
            t.scales, t.zps, t.qdim = [0.01 * (i + 1) for i in range(n)], [0] * n, len(t.shape) - 1
    elif fam == "lut_any":
        kind = rng.choice(["EXP", "LOG", "SQRT", "RSQRT", "GELU", "LOGISTIC", "TANH", "HARD_SWISH", "LEAKY_RELU"])
        lo, hi = netgen._qrange(dtype)
        zp = 0 if dtype == "int16" else rng.choice([lo, hi, 0 if dtype == "int8" else 128, rng.randint(lo, hi)])
        scale = float(np.float32(rng.choice([2.0 ** rng.randint(-16, 4), rng.uniform(1e-4, 8.0)])))
        shape = rng.choice([[1, 4, 4, 8], [13], [1, 5], [2, 3, 4], [1, 1, 1, 1]])
        x = b.input(shape, scale=scale, zp=zp)
        o = b.fm(shape, dtype, scale=float(np.float32(rng.choice([2.0 ** rng.randint(-16, 2), 0.05]))), zp=zp if rng.random() < 0.5 else netgen.rand_zp(rng, dtype))
        o_opts = ("GeluOptions", dict(Approximate=rng.random() < 0.5)) if kind == "GELU" else (
            ("LeakyReluOptions", dict(Alpha=float(rng.choice([0.1, 0.0, 1.5, -0.5])))) if kind == "LEAKY_RELU" else None)
        b.net.ops.append(Op(kind, [pre(x)], [o], o_opts))
        out = o
    elif fam == "resize_extreme":
        h, w, c = rng.choice([1, 1, 2, 3, 7]), rng.choice([1, 2, 3, 12]), rng.choice([1, 3, 4, 8, 20])
        x = b.input([1, h, w, c])
        kind = rng.choice(["RESIZE_BILINEAR", "RESIZE_NEAREST_NEIGHBOR"])
        al, hp = rng.choice([(False, False), (True, False), (True, False), (False, True), (True, True)])
        f = rng.choice([1, 2, 4, 8, 3])
        oh, ow = ((h - 1) * f + 1, (w - 1) * f + 1) if al else (h * f, w * f)
        if rng.random() < 0.25:
            oh, ow = rng.choice([(oh, ow + 1), (oh + 1, ow), (1, 1), (oh * 2, ow)])
        xt = b.t(x)
        xin = pre(x)
        st = b.const([2], "int32", [oh, ow])
        o = b.fm([1, oh, ow, c], dtype, scale=xt.scales[0], zp=xt.zps[0])
        on = "ResizeBilinearOptions" if kind == "RESIZE_BILINEAR" else "ResizeNearestNeighborOptions"
        b.net.ops.append(Op(kind, [xin, st], [o], (on, dict(AlignCorners=al, HalfPixelCenters=hp))))
        out = o
    elif fam == "pad_mean":
        h, w, c = rng.choice([1, 4, 9, 70]), rng.choice([1, 4, 10, 70]), rng.choice([1, 4, 16])
        x = b.input([1, h, w, c])
        pads = [[0, 0], [rng.randint(0, 2), rng.randint(0, 2)], [rng.randint(0, 2), rng.randint(0, 2)], [0, rng.choice([0, 0, 1])]]
        p = b.pad(pre(x), pads)
        post = rng.choice(["mean", "mean", "avg", "conv", "dw", "quantize"])
        if post == "mean":
            out = b.mean_hw(p, rng.random() < 0.7)
        elif post == "avg":
            out = b.pool(p, "AVERAGE_POOL_2D", (rng.choice([1, 2, 3]),) * 2, (1, 1), "VALID")
        elif post == "conv":
            out = b.conv(p, 4, (3, 3), (rng.choice([1, 2]),) * 2, (1, 1), "VALID")
        elif post == "dw":
            out = b.dwconv(p, (3, 3), (1, 1), (1, 1), "VALID")
        else:
            out = b.quantize(p, dtype)
    elif fam == "mean_axes":
        rank = rng.choice([2, 3, 4, 4])
        shape = [rng.choice([1, 1, 2, 4, 8]) for _ in range(rank)]
        if rank == 4 and rng.random() < 0.8:
            shape[0] = 1
        x = b.input(shape)
        axes = sorted(rng.sample(range(rank), rng.randint(1, rank)))
        keep = rng.random() < 0.5
        oshape = [1 if i in axes else d for i, d in enumerate(shape)] if keep else [d for i, d in enumerate(shape) if i not in axes]
        if not oshape and rng.random() < 0.7:
            oshape = [1]
        ax = b.const([len(axes)] if rng.random() < 0.9 or len(axes) > 1 else [], "int32", axes)
        o = b.fm(oshape, dtype)
        b.net.ops.append(Op("MEAN", [pre(x), ax], [o], ("ReducerOptions", dict(KeepDims=keep))))
        out = o
    elif fam == "transpose_any":
        rank = rng.choice([2, 3, 4])
        dims = [rng.choice([1, 2, 4, 6, 8]) for _ in range(rank)]
        dt = rng.choice(["int8", "uint8", "int16", "int32"])
        quant = rng.random() < 0.5 and dt != "int32"
        x = b.fm(dims, dt, name="input_x") if quant else b.net.add(T("input_x", dims, dt))
        b.net.inputs.append(x)
        perm = list(range(rank))
        rng.shuffle(perm)
        od = [dims[p] for p in perm]
        o = b.fm(od, dt, scale=b.t(x).scales[0], zp=b.t(x).zps[0]) if quant else b.net.add(T("out", od, dt))
        pt = b.const([rank], "int32", perm)
        b.net.ops.append(Op("TRANSPOSE", [x, pt], [o], ("TransposeOptions", {})))
        out = o
    elif fam == "split_axis":
        c = rng.choice([4, 8])
        x = b.input([1, rng.randint(1, 6), rng.randint(1, 6), c])
        xt = b.t(x)
        axis = rng.choice([3, 3, -1, 2, 1])
        num = 2
        shape = list(xt.shape)
        if shape[axis] % num:
            axis = 3
        shape[axis] //= num
        ax = b.const(rng.choice([[], [1]]), "int32", [axis])
        outs = [b.fm(shape, dtype, scale=xt.scales[0], zp=xt.zps[0]) for _ in range(num)]
        b.net.ops.append(Op("SPLIT", [ax, pre(x)], outs, ("SplitOptions", dict(NumSplits=num))))
        out = [b.unary("RELU", o) if rng.random() < 0.5 else o for o in outs]
    elif fam == "tiny_arena":
        c = rng.choice([16, 32, 96])
        x = b.input([1, rng.choice([4, 8, 16]), rng.choice([4, 8, 16]), c])
        cur = x
        for _ in range(rng.randint(1, 5)):
            how = rng.choice(["conv1", "conv3", "dw", "pool", "add"])
            if how == "conv1":
                new = b.conv(cur, rng.choice([8, 32, 128]), (1, 1), (1, 1), (1, 1), "SAME", act=rng.choice([0, 1]))
            elif how == "conv3":
                new = b.conv(cur, rng.choice([8, 32]), (3, 3), rng.choice([(1, 1), (2, 2)]), (1, 1), "SAME")
            elif how == "dw":
                new = b.dwconv(cur, (3, 3), (1, 1), (1, 1), "SAME")
            elif how == "pool":
                new = b.pool(cur, rng.choice(["MAX_POOL_2D", "AVERAGE_POOL_2D"]), (2, 2), (1, 1), "SAME")
            else:
                new = b.binary("ADD", cur, cur)
            cur = new if new is not None else cur
        out = cur if cur != x else b.unary("RELU", x)
    else:  # cpu_between: an operator that stays on the CPU between accelerated ones, with an extra network input
        x = b.input([1, 4, 4, 8])
        x1 = b.conv(x, 8, (1, 1), (1, 1), (1, 1), "SAME", per_channel=False)
        how = rng.choice(["concat_bad", "concat_bad0", "custom3", "cpu_op"])
        if how in ("concat_bad", "concat_bad0"):
            y = b.input([1, 4, 5, 8])
            o = b.concat([x1, y] if how == "concat_bad" else [y, x1], 3)
            b.t(o).shape = [1, 4, 4, 16]
        elif how == "custom3":
            y, z = b.input([1, 4, 4, 8]), b.input([1, 4, 4, 8])
            o = b.fm([1, 4, 4, 8], dtype)
            ins = [y, z, x1]
            rng.shuffle(ins)
            b.net.ops.append(Op("CUSTOM", ins, [o], None, custom_code="ThirdPartyOp", custom_options=b"\x01"))
        else:
            o = b.cpu_op(x1)
        ot = b.t(o)
        out = b.conv(o, 8, (1, 1), (1, 1), (1, 1), "SAME", per_channel=False) if (len(ot.shape) == 4 and ot.dtype == dtype and ot.scales) else o
    if out is None:
        x = b.input([1, 4, 4, 4])
        out = b.unary("RELU", x)
    net = b.finish(out if isinstance(out, list) else [out])
    net.desc.append(f"c13x family={fam} dtype={dtype}")
    return net, opts, fam


def compile_one(job):
    import netgen
    import pipe_common
    import pipeline

    seed, idx = job
    out = {"idx": idx, "profile": "c13x:" + FAMILIES[idx % len(FAMILIES)], "seed": seed}
    try:
        net, opts, fam = gen(seed, idx)
        data = netgen.serialize(net)
        out.update(desc=net.describe(), opts=opts, src_ops=[o.kind for o in net.ops])
        res = pipeline.compile_net(data, opts, name=f"x{idx}")
        out.update(status=res.status, exc=(type(res.exc).__name__ + ": " + str(res.exc))[:300] if res.exc is not None else "",
                   tb=res.tb[-1500:], ret=res.ret, exc_site=pipe_common.exc_site(res.tb, res.exc))
        out["wrote_output"] = res.out_model is not None
        out["printed_error"] = any(l.startswith("Error:") or l.startswith("'Error:") for l in res.stdout.split("\n"))
        out["stdout_tail"] = res.stdout[-400:]
        pipeline.reset_process_state()
    except BaseException:  # noqa: B902  harness failure, reported as such
        out["harness_exception"] = traceback.format_exc()[-1500:]
    return out


def run(seed, n, jobs=None):
    import multiprocessing
    from concurrent.futures import ProcessPoolExecutor

    import pipeline

    pipeline.load_vela()
    ctx = multiprocessing.get_context("fork")
    with ProcessPoolExecutor(jobs or min(16, os.cpu_count() or 4), mp_context=ctx) as ex:
        return list(ex.map(compile_one, [(seed, i) for i in range(n)], chunksize=2))


if __name__ == "__main__":
    import collections
    import sys

    common.setup_repo_path()
    seed, n = int(sys.argv[1]), int(sys.argv[2])
    outs = run(seed, n)
    c = collections.Counter()
    ex = {}
    for o in outs:
        if "harness_exception" in o:
            c["HARNESS"] += 1
            ex.setdefault("HARNESS", (o["idx"], o["profile"], o["harness_exception"][-400:]))
            continue
        k = o["status"] if o["status"] in ("ok", "vela-error") else o["exc_site"]
        c[(o["profile"], k)] += 1
        if o["status"] not in ("ok", "vela-error"):
            ex.setdefault((o["profile"], k), (o["idx"], o["src_ops"], o["desc"]["inputs"], o["opts"]))
    for k, v in sorted(c.items(), key=str):
        print(v, k)
    for k, v in ex.items():
        print("EX", k, v)
