/* Harness-side observer of the MLW encoder's plan (check_C07, stage "writer model").

   Compiled together with the encoder of the tree under test, which is #included unchanged:
       gcc -O1 -DNDEBUG -DMLW_ENCODE_C='"<repo>/ethosu/mlw_codec/mlw_encode.c"' -I<repo>/ethosu/mlw_codec c07_plan_shim.c
   Being in the same translation unit gives access to the static functions.  What is observed:

   * the stream: the real `mlw_encode(inbuf, n, &out, verbose=1)`;
   * the slices: `encode_slice` itself prints, with verbose&1, the header fields it is about to write
     ("slice: ... slicelen zdiv wdiv wtrunc newpal palbits palsize"); `printf` is redirected into this file;
   * the sections and palettes: `search_palette_sections` and `find_palette` are pure functions of the input,
     they are called again here exactly as `mlw_encode` calls them.

   Protocol: one job per input line, `<n> v0 v1 ... v(n-1)`; one answer line,
       `<plan> <hex of the stream>`        plan in the format of the Lean handler `mlwenc`
       `rejected`                           mlw_encode returned -1
       `shim-error <what>`                  the observations do not fit together
*/
#include <stdio.h>
#include <stdlib.h>
#include <stdint.h>
#include <stdbool.h>
#include <string.h>
#include <assert.h>
#include <math.h>
#include <stdarg.h>

typedef struct { int len, zdiv, wdiv, wtrunc, newpal, palbits, palsize; } shim_slice_t;
static shim_slice_t *shim_slices = NULL;
static int shim_nslices = 0, shim_cap = 0;

static int shim_printf(const char *fmt, ...) {
    char line[512];
    va_list ap;
    va_start(ap, fmt);
    int n = vsnprintf(line, sizeof line, fmt, ap);
    va_end(ap);
    shim_slice_t s;
    int bitoffset;
    if (sscanf(line, "slice: bitoffset %d slicelen %d zdiv %d wdiv %d wtrunc %d newpal %d palbits %d palsize %d",
               &bitoffset, &s.len, &s.zdiv, &s.wdiv, &s.wtrunc, &s.newpal, &s.palbits, &s.palsize) == 8) {
        if (shim_nslices == shim_cap) {
            shim_cap = shim_cap ? shim_cap * 2 : 64;
            shim_slices = realloc(shim_slices, shim_cap * sizeof(shim_slice_t));
            if (!shim_slices) { fputs("out of memory\n", stderr); exit(2); }
        }
        shim_slices[shim_nslices++] = s;
    }
    return n;
}

#define printf shim_printf
#include MLW_ENCODE_C
#undef printf

static void emit_job(int16_t *in, int n) {
    uint8_t *out = NULL;
    shim_nslices = 0;
    int size = mlw_encode(in, n, &out, 1);
    if (size < 0) { puts("rejected"); if (out) free(out); return; }

    int *restart = NULL;
    int n_restarts = n > 0 ? search_palette_sections(in, n, &restart) : 0;
    int n_newpal = 0, i, j;
    for (i = 0; i < shim_nslices; i++) n_newpal += shim_slices[i].newpal;
    if (n_newpal != n_restarts || (shim_nslices > 0 && !shim_slices[0].newpal)) {
        printf("shim-error sections=%d slices-with-newpal=%d\n", n_restarts, n_newpal);
        free(restart); mlw_free_outbuf(out); return;
    }
    if (n_restarts == 0) fputs("-", stdout);
    int k = 0;   /* next slice */
    for (i = 0; i < n_restarts; i++) {
        palette_t p;
        memset(&p, 0, sizeof p);
        int pos = restart[i];
        int sz = (i < n_restarts - 1 ? restart[i + 1] : n) - pos;
        find_palette(in + pos, sz, &p);
        if (i) putchar('|');
        printf("%d;", sz);
        if (p.palsize == 0) putchar('-');
        for (j = 0; j < p.palsize; j++) printf(j ? ",%d" : "%d", (int)p.lut[j]);
        printf(";%d;%d;%d;%d;%d;", p.palbits, p.use_zero_runs, p.only_palette, p.direct_offset, p.only_zeros);
        int first = 1;
        do {
            shim_slice_t *s = &shim_slices[k];
            if (s->palbits != p.palbits || s->palsize != p.palsize ||
                (s->zdiv != ZDIV_DISABLE) != (p.use_zero_runs != 0)) {
                printf(" shim-error slice %d does not belong to the palette of section %d\n", k, i);
                free(restart); mlw_free_outbuf(out); return;
            }
            int wcfg = s->wdiv == WDIV_UNCOMPRESSED ? 12 : s->wdiv + 6 * s->wtrunc;
            int zcfg = s->zdiv == ZDIV_DISABLE ? 0 : s->zdiv;
            printf(first ? "%d:%d:%d" : "/%d:%d:%d", s->len, wcfg, zcfg);
            first = 0;
            k++;
        } while (k < shim_nslices && !shim_slices[k].newpal);
    }
    putchar(' ');
    if (size == 0) putchar('-');
    for (i = 0; i < size; i++) printf("%02x", out[i]);
    putchar('\n');
    free(restart);
    mlw_free_outbuf(out);
}

int main(void) {
    int n;
    while (scanf("%d", &n) == 1) {
        int16_t *in = malloc((n > 0 ? n : 1) * sizeof(int16_t));
        int i, v;
        for (i = 0; i < n; i++) {
            if (scanf("%d", &v) != 1) return 2;
            in[i] = (int16_t)v;
        }
        emit_job(in, n);
        fflush(stdout);
        free(in);
    }
    return 0;
}
