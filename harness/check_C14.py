#!/venv/bin/python
"""C14 — compilation is deterministic and independent of process history.

Observation of the real compiler, judged by the Lean specification Spec/Determinism.lean:

 (1) *scenarios*: sequences of compilations run inside ONE interpreter (a freshly forked process per scenario):
     B alone vs A;B, A;A, A;B;A;B', the same network under several accelerators, mixed entry points
     (`main` with the options `convert`/`convert_bytes` hard-code, `convert`, `convert_bytes`), a crashing
     compilation first, `--enable-debug-db` twice; `main` with and without vela's own reset between runs;
 (2) *hash seeds*: the command line in subprocesses under 4 (quick) / 16 (thorough) PYTHONHASHSEED values.

Every run of the same (model bytes, effective options) lands in one equivalence class; a class is handed to
Lean as `detclass <status|size|sha256|figures> ...` and must come back `1`. Separate classes compare the
summary CSV (only `main` writes one) and the debug database XML.

A class that disagrees is a violation with the exact scenario as replay. The five history / iteration-order
dependences found in the first round (stale weight-cache hits, stale tensor addresses, debug database not cleaned by
main, greedy allocator and writer sorting a set with ties) are repaired in /repo (known_findings.txt: `fixed:` lines);
nothing is attributed to a known finding any more. The harness-side instrumentation that used to attribute them is
kept as evidence counters (a cross-compilation hit of the weight cache must not happen at all now).

 (4) the hill-climb allocator called repeatedly in one process on live ranges that need its randomised search.
 (5) *caller-owned buffers* (harness/c14_buffers.py): in one fresh interpreter main, convert, convert_bytes(bytearray copy),
     convert_bytes(read-only memoryview), convert_bytes(writable memoryview) and ONE bytearray handed to convert_bytes three times,
     on networks whose constants the graph optimiser rewrites in place (detnets kind pad_edit) and on ordinary ones: one
     `detclass` over all calls, and `bufkept` (Spec/Determinism.lean `inputKept`) over the buffer contents before / after each call.
 (3) the greedy allocator on live ranges it cannot tell apart, re-created at different heap addresses: the addresses it
     hands out must depend on the creation order only.
"""
import csv
import hashlib
import io
import json
import os
import pickle
import random
import re
import shutil
import subprocess
import sys
import tempfile
import traceback
import zlib
from concurrent.futures import ProcessPoolExecutor
import multiprocessing

import common
import fbwalk
import pipe_common
import pipeline
import detnets
import c14_buffers
from common import Check, main_wrapper

# summary CSV columns that are NOT compared: constant label, and the network name (derived from the file name)
CSV_SKIP = ("experiment", "network")


# ------------------------------------------------------------------------------------------------
# tables shared with the Lean side (what convert/convert_bytes hard-code, read from the tree under test)

def entry_options():
    sys.path.insert(0, os.path.join(common.HERE))
    from tables import caches as tcaches

    info = tcaches.scan(common.REPO)
    hc = dict(info["convert_hardcoded"])
    opts = []
    if "accelerator_config" in hc:
        opts += ["--accelerator-config", hc["accelerator_config"]]
    if "tensor_allocator" in hc:
        opts += ["--tensor-allocator", hc["tensor_allocator"]]
    if "optimization_strategy" in hc:
        opts += ["--optimise", hc["optimization_strategy"]]
    if "arena_cache_size" in hc:
        opts += ["--arena-cache-size", str(hc["arena_cache_size"])]
    return opts, info


# ------------------------------------------------------------------------------------------------
# instrumentation (harness side only; never changes what the wrapped functions return)

class Instr:
    def __init__(self):
        from ethosu.vela import weight_compressor as wc, tensor as tn

        self.memo_ids = set()
        self.stale_hits = []
        self.stale_addr = []
        self.own_hits = 0
        self.stale_tensors = set()
        self.stale_addr_keys = set()
        self.wc, self.tn = wc, tn
        orig_memo = tn.create_equivalence_id

        instr = self

        class _Memo:
            """transparent wrapper: records the identities handed out, forwards everything else (cache_clear, cache_info, ...)"""

            def __call__(self_, key):
                u = orig_memo(key)
                instr.memo_ids.add(u)
                return u

            def __getattr__(self_, name):
                return getattr(orig_memo, name)

        memo = _Memo()

        for m in list(sys.modules.values()):
            if m is not None and getattr(m, "__name__", "").startswith("ethosu.vela") and \
                    getattr(m, "create_equivalence_id", None) is orig_memo:
                m.create_equivalence_id = memo
        cw = getattr(wc, "CompressedWeightCache", None)
        if cw is not None and hasattr(cw, "get_tensor_with_same_compression"):
            orig_get = cw.get_tensor_with_same_compression

            def get(wcc):
                t = orig_get(wcc)
                if t is not None and id(t) in self.stale_tensors:
                    self.stale_hits.append(getattr(wcc, "weight_value_id", None) in self.memo_ids)
                elif t is not None:
                    self.own_hits += 1
                return t

            cw.get_tensor_with_same_compression = staticmethod(get)
        tam = getattr(tn, "TensorAddressMap", None)
        if tam is not None and hasattr(tam, "set_address_for_tens"):
            orig_set = tam.set_address_for_tens.__func__

            def set_(cls, tens_id, mem_type, address):
                if (tens_id, mem_type) in self.stale_addr_keys:
                    prev = cls.address_map[tens_id].get(mem_type) if tens_id in cls.address_map else None
                    if prev is not None:
                        self.stale_addr.append((tens_id in self.memo_ids, address is not None and prev != address))
                return orig_set(cls, tens_id, mem_type, address)

            tam.set_address_for_tens = classmethod(set_)
        self.greedy_ties = 0
        try:
            from ethosu.vela import greedy_allocation as ga

            orig_alloc = ga.GreedyAllocator.allocate_live_ranges

            def alloc(self_, alignment):
                seen = {}
                for lr in self_.live_ranges.lrs:
                    k = (lr.start_time, lr.end_time, lr.size, lr.name)
                    seen[k] = seen.get(k, 0) + 1
                if any(v > 1 for v in seen.values()):
                    self.greedy_ties += 1
                return orig_alloc(self_, alignment)

            ga.GreedyAllocator.allocate_live_ranges = alloc
        except Exception:
            pass

    def begin_step(self):
        self.stale_hits, self.stale_addr = [], []
        self.greedy_ties = 0
        self.own_hits = 0
        cw = getattr(self.wc, "CompressedWeightCache", None)
        cache = getattr(cw, "cache", None)
        self.stale_tensors = {id(t) for t in cache.values()} if isinstance(cache, dict) else set()
        tam = getattr(self.tn, "TensorAddressMap", None)
        amap = getattr(tam, "address_map", None)
        self.stale_addr_keys = set()
        if isinstance(amap, dict):
            for k, d in amap.items():
                for mt, a in d.items():
                    if a is not None:
                        self.stale_addr_keys.add((k, mt))


# ------------------------------------------------------------------------------------------------
# one scenario = a list of steps executed in one (fresh) interpreter

def scrub(text):
    return re.sub(r"/tmp/[A-Za-z0-9_./-]+", "<tmp>", text or "")


def figures_of(csv_text):
    if not csv_text:
        return None
    rows = list(csv.reader(io.StringIO(csv_text)))
    if len(rows) < 2:
        return None
    return [f"{h}={v}" for h, v in zip(rows[0], rows[1]) if h not in CSV_SKIP]


def status_of(res):
    if res.status == "ok":
        return "ok", ""
    if res.status == "internal-exception":
        return "exception:" + pipe_common.exc_site(res.tb, res.exc), ""
    if res.status == "system-exit":
        return f"system-exit:{res.ret}", ""
    msg = ""
    if res.exc is not None:
        msg = scrub(str(getattr(res.exc, "data", res.exc)))
    else:
        msg = scrub(" ".join(l for l in res.stdout.split("\n") if l.startswith("Error")))
    return "vela-error:" + hashlib.sha256(msg.encode()).hexdigest()[:10], msg[:200]


def run_step(step, instr, nets_cache):
    spec = tuple(step["net"])
    if spec not in nets_cache:
        nets_cache[spec] = detnets.serialize(spec)
    data, net = nets_cache[spec]
    # second generation: the input of the observed compilation is the OUTPUT of compiling the network with `gen_opts[0]` (and that
    # output compiled with `gen_opts[1]`, ...), all in this interpreter, through main
    gen_failed = None
    for g_opts in step.get("gen_opts") or []:
        r0 = pipeline.compile_net(data, g_opts, name="net", reset=bool(step.get("reset")), introspect=False, entry="main")
        if r0.status != "ok" or r0.out_model is None:
            gen_failed = r0
            break
        data = r0.out_model
    if gen_failed is not None:
        st, diag = status_of(gen_failed)
        return {"status": "earlier-generation:" + st, "diag": diag, "size": 0, "digest": "-", "figures": None, "debugdb": None,
                "stale_hits": [], "stale_addr": [], "greedy_ties": 0, "own_hits": 0, "dupnames": detnets.has_duplicate_names(net),
                "src_ops": [o.kind for o in net.ops], "model": None, "tb": gen_failed.tb[-700:]}
    instr.begin_step()
    d = tempfile.mkdtemp(prefix="velaverif_c14_")
    try:
        res = pipeline.compile_net(data, step["opts"], name="net", keep_dir=d, reset=bool(step.get("reset")),
                                   introspect=False, entry=step["entry"])
        dbg = None
        outdir = os.path.join(d, "out")
        if os.path.isdir(outdir):
            for fn in os.listdir(outdir):
                if fn.endswith("_debug.xml"):
                    txt = open(os.path.join(outdir, fn), encoding="utf-8", errors="replace").read()
                    txt = re.sub(r'<debug [^>]*>', "<debug>", txt)
                    dbg = hashlib.sha256(txt.encode()).hexdigest() + ":" + str(len(txt))
    finally:
        shutil.rmtree(d, ignore_errors=True)
    st, diag = status_of(res)
    obs = {
        "status": st, "diag": diag,
        "size": len(res.out_model) if res.out_model else 0,
        "digest": hashlib.sha256(res.out_model).hexdigest() if res.out_model else "-",
        "figures": figures_of(res.csv) if step["entry"] == "main" else None,
        "debugdb": dbg,
        "stale_hits": list(instr.stale_hits), "stale_addr": list(instr.stale_addr), "greedy_ties": instr.greedy_ties, "own_hits": instr.own_hits,
        "dupnames": detnets.has_duplicate_names(net),
        "src_ops": [o.kind for o in net.ops],
        "model": res.out_model if step.get("keep_model") else None,
        "tb": res.tb[-700:],
    }
    return obs


def api_probe():
    """What a user of the external API (ethosu.vela.api) sees after the scenario: the default architecture objects
    (`architecture_features.default_arch_cache`) must be a function of the accelerator alone."""
    from ethosu.vela import architecture_features as af, driver_actions
    from ethosu.vela.api import NpuAccelerator

    parts = []
    for acc in af.Accelerator:
        arch = af.create_default_arch(acc)
        attrs = []
        for k, v in sorted(vars(arch).items()):
            if isinstance(v, (int, float, str, bool, type(None))) or (isinstance(v, (list, tuple)) and all(isinstance(x, (int, float, str)) for x in v)):
                attrs.append(f"{k}={v!r}")
            elif hasattr(v, "name") and hasattr(v, "value"):
                attrs.append(f"{k}={v.name}")
        parts.append(acc.name + ":" + ";".join(attrs))
    for npu_acc in NpuAccelerator:
        parts.append(npu_acc.name + ":" + driver_actions.npu_create_driver_payload([0x0001_0000, 0x0002_4000], npu_acc).hex())
    text = "\n".join(parts)
    return {"status": "ok", "diag": "", "size": len(text), "digest": hashlib.sha256(text.encode()).hexdigest(), "figures": None,
            "debugdb": None, "stale_hits": [], "stale_addr": [], "greedy_ties": 0, "dupnames": False, "src_ops": [], "model": None, "tb": "",
            "text": text}


def run_scenario(scn):
    pipeline.load_vela()
    instr = Instr()
    nets_cache = {}
    obs = [run_step(s, instr, nets_cache) for s in scn["steps"]]
    try:
        obs.append(api_probe())
    except BaseException as e:  # noqa: B902
        obs.append({"status": "exception:" + type(e).__name__, "diag": str(e)[:200], "size": 0, "digest": "-", "figures": None,
                    "debugdb": None, "stale_hits": [], "stale_addr": [], "greedy_ties": 0, "dupnames": False, "src_ops": [], "model": None,
                    "tb": traceback.format_exc()[-600:], "text": ""})
    return obs


def _in_fresh_process(scn):
    """Fork, run the scenario in the child (which has imported the compiler but never compiled), return its observations."""
    r, w = os.pipe()
    pid = os.fork()
    if pid == 0:
        code = 0
        try:
            os.close(r)
            try:
                out = {"obs": run_scenario(scn)}
            except BaseException:  # noqa: B902
                out = {"harness_exception": traceback.format_exc()[-2000:]}
            with os.fdopen(w, "wb") as f:
                pickle.dump(out, f)
        except BaseException:  # noqa: B902
            code = 3
        finally:
            os._exit(code)
    os.close(w)
    with os.fdopen(r, "rb") as f:
        data = f.read()
    os.waitpid(pid, 0)
    if not data:
        return {"harness_exception": "scenario process died without an answer (crash of the interpreter?)"}
    return pickle.loads(data)


def _cli_job(job):
    """One command-line run in a subprocess under a given PYTHONHASHSEED."""
    spec, opts, hseed, ext_dir = job[:4]
    gen_opts = job[4] if len(job) > 4 else []
    data, net = detnets.serialize(tuple(spec))
    d = tempfile.mkdtemp(prefix="velaverif_c14cli_")
    try:
        path = os.path.join(d, "net.tflite")
        with open(path, "wb") as f:
            f.write(data)
        env = dict(os.environ)
        env["PYTHONPATH"] = ext_dir + os.pathsep + common.REPO
        env["PYTHONHASHSEED"] = str(hseed)
        # second generation: every earlier generation is its own command-line process; the observed run compiles the last output
        for gi, g_opts in enumerate(gen_opts):
            gd = os.path.join(d, "gen%d" % gi)
            r0 = subprocess.run([common.PY, "-m", "ethosu.vela", path, "--output-dir", gd] + list(g_opts),
                                env=env, cwd=d, capture_output=True, text=True, timeout=600)
            prev = os.path.join(gd, "net_vela.tflite")
            if not os.path.exists(prev):
                # never compile the SOURCE in place of a missing earlier output: the observation says what happened instead
                # (a process killed by a signal is the machine's doing, not the compiler's: harness failure)
                if r0.returncode < 0:
                    raise common.InfraError(f"earlier generation {gi} of a command-line chain was killed by signal {-r0.returncode}")
                return {"status": f"earlier-generation:{gi}:rc={r0.returncode}", "diag": (r0.stderr or r0.stdout)[-200:], "size": 0, "digest": "-",
                        "figures": None, "debugdb": None, "stale_hits": [], "stale_addr": [], "greedy_ties": 0,
                        "dupnames": detnets.has_duplicate_names(net), "src_ops": [o.kind for o in net.ops], "model": None,
                        "tb": (r0.stderr or "")[-500:]}
            os.replace(prev, path)          # same file name for every generation: the name is part of the summary only
        r = subprocess.run([common.PY, "-m", "ethosu.vela", path, "--output-dir", os.path.join(d, "out")] + list(opts),
                           env=env, cwd=d, capture_output=True, text=True, timeout=600)
        outp = os.path.join(d, "out", "net_vela.tflite")
        model = open(outp, "rb").read() if os.path.exists(outp) else None
        csvt = None
        if os.path.isdir(os.path.join(d, "out")):
            for fn in os.listdir(os.path.join(d, "out")):
                if fn.endswith(".csv") and "summary" in fn:
                    csvt = open(os.path.join(d, "out", fn)).read()
        if r.returncode == 0 and model is not None:
            st, diag = "ok", ""
        elif "Traceback (most recent call last)" in r.stderr:
            frames = re.findall(r'File "([^"]+)", line \d+, in (\S+)', r.stderr)
            inner = [(f, fn) for f, fn in frames if "/ethosu/" in f]
            last = r.stderr.strip().split("\n")[-1]
            et = last.split(":")[0].split(".")[-1]
            st = "exception:" + (f"{et}@{os.path.splitext(os.path.basename(inner[-1][0]))[0]}.{inner[-1][1]}" if inner else et + "@?")
            diag = last[:200]
        else:
            msg = scrub(" ".join(l for l in r.stdout.split("\n") if l.startswith("Error")))
            st, diag = "vela-error:" + hashlib.sha256(msg.encode()).hexdigest()[:10], msg[:200]
        return {"status": st, "diag": diag, "size": len(model) if model else 0,
                "digest": hashlib.sha256(model).hexdigest() if model else "-", "figures": figures_of(csvt),
                "debugdb": None, "stale_hits": [], "stale_addr": [], "greedy_ties": 0, "dupnames": detnets.has_duplicate_names(net),
                "src_ops": [o.kind for o in net.ops], "model": model if detnets.has_duplicate_names(net) else None,
                "tb": r.stderr[-500:]}
    finally:
        shutil.rmtree(d, ignore_errors=True)


# ------------------------------------------------------------------------------------------------
# scenario generation

U55 = ["ethos-u55-32", "ethos-u55-64", "ethos-u55-128", "ethos-u55-256"]
U65 = ["ethos-u65-256", "ethos-u65-512"]


def opt_key(opts, hardcoded):
    """Canonical form of the effective options: pairs sorted, the pairs equal to main's defaults dropped."""
    pairs, i = [], 0
    while i < len(opts):
        if i + 1 < len(opts) and not opts[i + 1].startswith("--"):
            pairs.append((opts[i], opts[i + 1]))
            i += 2
        else:
            pairs.append((opts[i], ""))
            i += 1
    hc = {(hardcoded[j], hardcoded[j + 1]) for j in range(0, len(hardcoded), 2)}
    return " ".join(f"{a}={b}" for a, b in sorted(p for p in pairs if p not in hc))


def with_acc(opts, acc):
    out = list(opts)
    i = out.index("--accelerator-config")
    out[i + 1] = acc
    # system configs are accelerator specific: drop an explicit configuration when switching family
    if "--system-config" in out:
        j = out.index("--system-config")
        fam_ok = ("u65" in acc) == ("U65" in out[j + 1])
        if not fam_ok:
            for flag in ("--config", "--system-config", "--memory-mode"):
                k = out.index(flag)
                del out[k:k + 2]
    return out


def net_key(s, hardcoded):
    """identity of the model bytes a step compiles: the network spec, plus the options of the earlier generations when the step
    compiles an output (a deterministic compiler gives the same bytes for the same spec and options - that is judged in the
    first generation's own class)"""
    g = s.get("gen_opts") or []
    return tuple(s["net"]) + ((("gen",) + tuple(opt_key(o, hardcoded) for o in g)) if g else ())


def make_scenarios(rng, n, hardcoded):
    kinds_w = (["shared_w"] * 3 + ["shared_w_dtype"] * 2 + ["mean"] * 3 + ["pad"] * 2 + ["lut2"] * 3 + ["dupnames"] * 2 +
               ["lut"] * 2 + ["cascade"] * 2 + ["cascade_chain"] + ["cpu"] * 2 + ["mixed"] * 3 + ["weights"] * 2 + ["elementwise"])
    pool_size = max(12, n // 3)
    pool = []
    for _ in range(pool_size):
        kind = rng.choice(kinds_w)
        spec = (kind, rng.randrange(1 << 20))
        prof = kind if kind in pipe_common.PROFILES else "mixed"
        opts = pipe_common.sample_config(rng, prof)
        pool.append((spec, opts))
    # dedicated pools: twins (same network, one attribute flipped) and models with several third-party custom operators
    twins = []
    for _ in range(max(6, n // 12)):
        sd = rng.randrange(1 << 20)
        opts = pipe_common.sample_config(rng, "mixed")
        twins.append(((("twin0", sd), opts), (("twin1", sd), opts)))
    customs = [(("custom_codes", rng.randrange(1 << 20)), pipe_common.sample_config(rng, "mixed")) for _ in range(max(4, n // 40))]
    pool += customs
    crashers = [(("weird", rng.randrange(1 << 20)), pipe_common.sample_config(rng, "mixed")) for _ in range(max(4, n // 10))]

    def step(p, entry="main", reset=False, opts=None, keep=False, gen=None):
        spec, o = p
        o = o if opts is None else opts
        if entry != "main":
            o = []
        st = {"net": list(spec), "opts": list(o), "entry": entry, "reset": reset, "keep_model": keep or spec[0] == "dupnames"}
        if gen:
            st["gen_opts"] = [list(g) for g in gen]
        return st

    scns = []
    shapes = ["AB", "AA", "ABAB2", "accel", "entries", "entries", "crash_first", "debugdb", "AB", "AA", "mixed_reset", "twin", "gen2"]
    for i in range(n):
        shape = shapes[i % len(shapes)]
        a, b_ = rng.choice(pool), rng.choice(pool)
        reset = rng.random() < 0.4
        if shape == "twin":
            t0, t1 = rng.choice(twins)
            if rng.random() < 0.5:
                t0, t1 = t1, t0
            how = rng.choice(["main", "main_reset", "convert_bytes", "convert", "mixed"])
            if how == "main":
                steps = [step(t0), step(t1), step(t0)]
            elif how == "main_reset":
                steps = [step(t0, reset=True), step(t1, reset=True)]
            elif how == "mixed":
                steps = [step(t0, entry="convert_bytes"), step(t1, opts=hardcoded), step(t0, entry="convert")]
            else:
                steps = [step(t0, entry=how), step(t1, entry=how), step(t0, entry=how)]
        elif shape == "gen2":
            # second generation: compile the OUTPUT of (a, its options) again - with the same or with b's options - alone, after
            # another compilation, twice in a row, as a third generation
            other = a[1] if rng.random() < 0.6 else b_[1]
            how = rng.choice(["alone", "after_b", "twice", "third", "after_first"])
            g2 = step(a, reset=reset, opts=other, gen=[a[1]])
            if how == "alone":
                steps = [g2]
            elif how == "after_b":
                steps = [step(b_, reset=reset), g2]
            elif how == "twice":
                steps = [g2, dict(g2)]
            elif how == "third":
                steps = [step(a, reset=reset, opts=other, gen=[a[1], a[1]]), g2]
            else:
                steps = [step(a, reset=reset), g2]
        elif shape == "AB":
            steps = [step(a, reset=reset), step(b_, reset=reset)]
        elif shape == "AA":
            steps = [step(a, reset=reset), step(a, reset=reset)]
        elif shape == "ABAB2":
            acc = b_[1][1]
            other = rng.choice([x for x in U55 + U65 if x != acc])
            steps = [step(a, reset=reset), step(b_, reset=reset), step(a, reset=reset),
                     step(b_, reset=reset, opts=with_acc(b_[1], other)), step(b_, reset=reset)]
        elif shape == "accel":
            a1, a2 = rng.choice(U55), rng.choice(U65)
            if rng.random() < 0.5:
                a1, a2 = a2, a1
            steps = [step(a, reset=reset, opts=with_acc(a[1], a1)), step(a, reset=reset, opts=with_acc(a[1], a2)),
                     step(a, reset=reset, opts=with_acc(a[1], a1))]
        elif shape == "entries":
            ents = [("main", hardcoded if rng.random() < 0.7 else []), ("convert", []), ("convert_bytes", [])]
            rng.shuffle(ents)
            steps = [step(a, entry=e, opts=o, reset=False) for e, o in ents]
            if rng.random() < 0.5:
                steps.insert(rng.randint(1, 2), step(b_, entry=rng.choice(["main", "convert", "convert_bytes"]), reset=False))
            if rng.random() < 0.5:
                steps.append(step(a, entry=rng.choice(["convert", "convert_bytes"])))
        elif shape == "crash_first":
            steps = [step(rng.choice(crashers), reset=False), step(a, reset=False),
                     step(rng.choice(crashers), entry=rng.choice(["main", "convert_bytes"])), step(b_, reset=False)]
        elif shape == "debugdb":
            steps = [step(a, opts=a[1] + ["--enable-debug-db"]), step(b_, opts=b_[1] + ["--enable-debug-db"]),
                     step(a, opts=a[1] + ["--enable-debug-db"])]
        else:  # mixed_reset: main without reset, then the library entry points, then main again
            steps = [step(a), step(b_, entry="convert_bytes"), step(a), step(b_, entry="convert"), step(b_, opts=hardcoded)]
        scns.append({"id": i, "shape": shape, "steps": steps})
    # every (network, options, entry) met anywhere also runs alone in a fresh interpreter: the reference of its class
    seen, alone = set(), []
    for sc in scns:
        for s in sc["steps"]:
            k = (net_key(s, hardcoded), opt_key(s["opts"], hardcoded))
            if k not in seen:
                seen.add(k)
                s1 = dict(s, entry="main", reset=False)
                alone.append({"id": len(scns) + len(alone), "shape": "alone", "steps": [s1]})
    return [{"id": -1, "shape": "nothing", "steps": []}] + alone + scns, pool


# ------------------------------------------------------------------------------------------------
# classification of a disagreement (attribution to a recorded finding needs the mechanism, not just the network)

def canon_tensor_multiset(model_bytes):
    """The output model with the tensors of each subgraph as a multiset and references replaced by tensor content:
    two models equal under this form differ only by a permutation of same-content-class tensors."""
    m = fbwalk.parse(model_bytes)
    out = []
    for sg in m["subgraphs"]:
        def rec(i):
            if i < 0:
                return "none"
            t = sg["tensors"][i]
            buf = m["buffers"][t["buffer"]] if t["buffer"] < len(m["buffers"]) else None
            return repr((t["name"], t["shape"], t["type"], hashlib.sha256(buf or b"").hexdigest()[:16], t["quant"], t["is_variable"]))
        tens = sorted(rec(i) for i in range(len(sg["tensors"])))
        ops = [(o["opcode_index"], [rec(i) for i in o["inputs"]], [rec(i) for i in o["outputs"]], o["options_raw"], o["custom_options"])
               for o in sg["operators"]]
        out.append((tens, ops, sorted(rec(i) for i in sg["inputs"]), [rec(i) for i in sg["outputs"]], sg["name"]))
    meta = sorted((k, len(m["buffers"][v] or b"")) for k, v in m["metadata"].items())
    return repr((out, m["operator_codes"], meta, m["description"]))


# ------------------------------------------------------------------------------------------------
# the writer's sort expression (text taken from the tree under test) against the Lean model `emitOrder`

class _FakeTensor:
    def __init__(self, name, pos):
        self.name, self.pos = name, pos

    def __lt__(self, other):            # the real Tensor orders by equivalence_id (a random uuid)
        raise TypeError("sort fell through to comparing tensors")


def writer_sort_correspondence(ck, info):
    exprs = [e for e in info["writer_sorts"] if "tensor_set" in e and "tens.name" in e]
    if len(exprs) != 1:
        ck.violation("tflite_writer no longer sorts the tensor set by name before emitting (expected one sorted(...) over tensor_set)",
                     {"correspondence": "writer_sorts table vs Model/Caches.emitOrder", "found": info["writer_sorts"]}, found_input=False)
        return 0
    expr = exprs[0]
    rng = ck.rng
    cases, lines = [], []
    for _ in range(400 if not ck.thorough else 4000):
        n = rng.choice([0, 1, 2, 2, 3, 3, 4, 5, 6, 8, 12])
        keys = [rng.randint(0, rng.choice([1, 2, 4, 20])) for _ in range(n)]
        cases.append(keys)
        lines.append("emitorder " + " ".join(map(str, keys)))
    outs = ck.model(lines, parallel=False)
    bad = None
    for keys, out in zip(cases, outs):
        tensor_set = [_FakeTensor(f"t{k:04d}", i) for i, k in enumerate(keys)]
        try:
            got = [t.pos for (_n, _i, t) in eval(expr, {"sorted": sorted, "enumerate": enumerate, "set": set}, {"tensor_set": tensor_set})]
        except Exception as e:  # noqa: B902
            got = "error:" + type(e).__name__
        want = [int(x) for x in out.split()] if out else []
        ck.count("writer_sort_cases")
        if len(set(keys)) < len(keys):
            ck.count("writer_sort_cases_with_duplicate_names")
        if got != want and bad is None:
            bad = (keys, got, want)
    if bad is not None:
        # failing-input search: does the real expression give different name sequences for two iteration orders of
        # a set with UNIQUE names (the Spec: emitted order independent of the permutation)?
        found = None
        for _ in range(2000):
            n = rng.randint(2, 7)
            keys = rng.sample(range(50), n)
            perm = keys[:]
            rng.shuffle(perm)

            def names(order):
                ts = [_FakeTensor(f"t{k:04d}", i) for i, k in enumerate(order)]
                try:
                    return [x[-1].name if isinstance(x, tuple) else getattr(x, "name", x) for x in eval(expr, {"sorted": sorted, "enumerate": enumerate, "set": set}, {"tensor_set": ts})]
                except Exception as e:  # noqa: B902
                    return "error:" + type(e).__name__
            if names(keys) != names(perm):
                found = (keys, perm, names(keys), names(perm))
                break
        if found:
            ck.violation(f"the writer's tensor order depends on the iteration order even for unique names: {found[0]} vs {found[1]}",
                         {"expression": expr, "order_1": found[0], "order_2": found[1], "emitted_1": found[2], "emitted_2": found[3]})
        else:
            ck.violation(f"writer sort expression and Model/Caches.emitOrder disagree on keys {bad[0]}: code {bad[1]}, model {bad[2]}",
                         {"correspondence": "tflite_writer sorted(...) over tensor_set vs emitOrder", "expression": expr, "keys": bad[0],
                          "code": bad[1], "model": bad[2]}, found_input=False)
    return len(cases)



# ------------------------------------------------------------------------------------------------
# the greedy allocator on indistinguishable live ranges

def greedy_tie_probe(ck):
    """Same list of live ranges (with ties in start, end, size, name), objects re-created at different heap addresses:
    the address given to the i-th live range must be the same every time. Judged by `detclass`."""
    from ethosu.vela import greedy_allocation, live_range

    class PLR(live_range.LiveRange):
        def set_address(self, address):
            self.got = address
            return address

    rng = ck.rng
    nspecs = 60 if ck.thorough else 12
    trials = 24
    lines, specs, results = [], [], []
    junk = []
    for _ in range(nspecs):
        n = rng.randint(3, 8)
        base = [(rng.randint(0, 3), rng.randint(4, 8), 16 * rng.randint(1, 4), rng.choice(["w", "w", "b", "t"])) for _ in range(n)]
        spec = base + [rng.choice(base) for _ in range(rng.randint(1, 3))]      # ties
        rng.shuffle(spec)
        toks, addrs_all = [], []
        for _t in range(trials):
            junk.append([object() for _ in range(rng.randint(1, 40))])             # move the heap
            graph = live_range.LiveRangeGraph()
            for (st, en, sz, nm) in spec:
                lr = PLR(None, 16)
                lr.start_time, lr.end_time, lr.size, lr.name = st, en, sz, nm
                graph.lrs.append(lr)
            try:
                total = greedy_allocation.allocate_live_ranges(graph, 16)
                addrs = [getattr(lr, "got", None) for lr in graph.lrs] + [total]
                status = "ok"
            except Exception as e:  # noqa: B902
                addrs, status = [], "exception:" + type(e).__name__
            addrs_all.append(addrs)
            toks.append(f"{status}|{len(addrs)}|{hashlib.sha256(repr(addrs).encode()).hexdigest()[:24]}|")
        lines.append("detclass " + " ".join(toks))
        specs.append(spec)
        results.append(addrs_all)
        ck.count("greedy_tie_cases")
    for spec, res, v in zip(specs, results, ck.model(lines, parallel=False)):
        if v != "1":
            distinct = []
            for a in res:
                if a not in distinct:
                    distinct.append(a)
            ck.violation(f"GreedyAllocator gives different addresses to the same list of live ranges {spec} depending on where the "
                         f"objects live in memory: {distinct[:2]}",
                         {"live_ranges_start_end_size_name": spec, "addresses_seen": distinct[:4], "alignment": 16,
                          "how": "greedy_allocation.allocate_live_ranges on a LiveRangeGraph whose lrs are re-created between trials"})
            break
    return nspecs * trials


# ------------------------------------------------------------------------------------------------
# the hill-climb allocator called repeatedly in one process

def hillclimb_repeat_probe(ck):
    """allocate(A); allocate(B); allocate(A); allocate(A) on live-range sets whose first-fit order is not optimal (so that the
    randomised search runs): the three results for A must be identical. Judged by `detclass`."""
    from ethosu.vela import hillclimb_allocation as hc

    class LR:
        def __init__(self, st, en, sz):
            self.start_time, self.end_time, self.size = st, en, sz

        def get_alignment(self):
            return 16

    searched = [0]
    orig_search = hc.HillClimbAllocator.search

    def search(self_, indices):
        searched[0] += 1
        return orig_search(self_, indices)

    hc.HillClimbAllocator.search = search
    rng = ck.rng
    ncases = 400 if ck.thorough else 60
    lines, cases, outs = [], [], []

    def gen():
        n = rng.randint(6, 22)
        t = rng.randint(4, 12)
        out = []
        for _ in range(n):
            a = rng.randint(0, t - 1)
            out.append((a, min(t, a + rng.randint(0, 4)), 16 * rng.choice([1, 2, 3, 5, 8, 13, 21])))
        return out

    def alloc(spec):
        try:
            return list(hc.allocate_live_ranges([LR(*x) for x in spec], 3000, 1 << 30))
        except Exception as e:  # noqa: B902
            return "exception:" + type(e).__name__

    try:
        for _ in range(ncases):
            a, b_ = gen(), gen()
            before = searched[0]
            r1 = alloc(a)
            used_search = searched[0] > before
            alloc(b_)
            r2, r3 = alloc(a), alloc(a)
            ck.count("hillclimb_repeat_cases")
            if used_search:
                ck.count("hillclimb_repeat_cases_reaching_the_random_search")
            toks = [f"{'ok' if isinstance(r, list) else r}|{len(r) if isinstance(r, list) else 0}|{hashlib.sha256(repr(r).encode()).hexdigest()[:24]}|"
                    for r in (r1, r2, r3)]
            lines.append("detclass " + " ".join(toks))
            cases.append((a, b_))
            outs.append((r1, r2, r3))
    finally:
        hc.HillClimbAllocator.search = orig_search
    for (a, b_), (r1, r2, r3), v in zip(cases, outs, ck.model(lines, parallel=False)):
        if v != "1":
            ck.violation(f"HillClimb allocator gives different addresses to the same live ranges when called again in the same process: "
                         f"first {r1}, after another allocation {r2}, then {r3} (live ranges (start, end, size): {a})",
                         {"live_ranges_A": a, "live_ranges_B": b_, "sequence": "allocate(A); allocate(B); allocate(A); allocate(A)",
                          "results_for_A": [r1, r2, r3], "max_iterations": 3000, "alignment": 16})
            break
    return 4 * ncases


def obs_token(o, what):
    st = re.sub(r"[^A-Za-z0-9_.:@<>=-]", "_", o["status"])
    if what == "bytes":
        return f"{st}|{o['size']}|{o['digest']}|"
    if what == "figures":
        figs = ",".join(re.sub(r"[ ,|]", "_", f) for f in (o["figures"] or []))
        return f"{st}|0|-|{figs}"
    return f"{st}|0|{o['debugdb'] or '-'}|"


def main():
    ck = Check("C14", "other")
    ck.lean_stage(["VelaVerif.Props.C14", "VelaVerif.Props.C11Writer"])     # write_deterministic: the writer's only unordered collection
    pipeline.load_vela()
    hardcoded, info = entry_options()
    if ck.replay_arg:
        rp = json.load(open(ck.replay_arg))["replay"]
        scns = [{"id": -1, "shape": "nothing", "steps": []}]
        cli_jobs = []
        st = rp.get("step")
        if st:
            scns.append({"id": 0, "shape": "alone", "steps": [dict(st, entry="main", reset=False, keep_model=True)]})
        if rp["scenario"]["shape"] == "buffers":
            # caller-owned buffers (harness/c14_buffers.py): the recorded scenario alone, in a fresh interpreter
            st_b = c14_buffers.stage(ck, hardcoded, status_of, only=[rp["scenario"]])
            ck.finish(dict(st_b, evaluations=st_b["buffer_calls"], distinct_nontrivial=1, rule="replay"))
        if rp["scenario"]["shape"] == "cli":
            cli_jobs = [(st["net"], st["opts"], st.get("hashseed", 0), common._ext_dir, st.get("gen_opts") or [])]
        else:
            scns.append(dict(rp["scenario"], id=1))
    else:
        n = 2400 if ck.thorough else 360
        scns, pool = make_scenarios(ck.rng, n, hardcoded)
        nseeds = 16 if ck.thorough else 4
        ncli = 48 if ck.thorough else 14
        customs = [p for p in pool if p[0][0] == "custom_codes"]
        ncust = 6 if ck.thorough else 3
        cli_nets = customs[:ncust] + [pool[i % len(pool)] for i in range(ncli - min(ncust, len(customs)))]
        hseeds = [0, 1] + [ck.rng.randrange(2, 1 << 32) for _ in range(nseeds - 2)]
        cli_jobs = [(list(spec), opts, hs, common._ext_dir) for spec, opts in cli_nets for hs in hseeds]
        # second generation on the command line: every generation in its own process (the truly fresh reference of a gen2 class)
        g2steps, g2seen = [], set()
        for sc in scns:
            for st_ in sc["steps"]:
                k_ = (net_key(st_, hardcoded), opt_key(st_["opts"], hardcoded))
                if st_.get("gen_opts") and k_ not in g2seen:
                    g2seen.add(k_)
                    g2steps.append(st_)
        for st_ in g2steps[:(12 if ck.thorough else 4)]:
            for hs in hseeds[:2]:
                cli_jobs.append((list(st_["net"]), st_["opts"], hs, common._ext_dir, st_["gen_opts"]))
    # (5) caller-owned buffers: every entry point, read-only / writable views, one bytearray compiled two and three times
    buf_stats = c14_buffers.stage(ck, hardcoded, status_of) if not ck.replay_arg else {"buffer_scenarios": 0, "buffer_calls": 0, "buffer_disagreements": 0}
    nsort = writer_sort_correspondence(ck, info)
    ngreedy = greedy_tie_probe(ck)
    nhill = hillclimb_repeat_probe(ck)
    jobs = min(16, os.cpu_count() or 4)
    ctx = multiprocessing.get_context("fork")
    with ProcessPoolExecutor(jobs, mp_context=ctx) as ex:
        fut_cli = [ex.submit(_cli_job, j) for j in cli_jobs]
        results = list(ex.map(_in_fresh_process, scns, chunksize=1))
        cli_results = [f.result() for f in fut_cli]

    # ---- equivalence classes -------------------------------------------------------------------
    classes = {}          # (net spec, option key) -> list of (obs, where)

    def add(spec, opts, obs, where):
        classes.setdefault((net_key(where["step"], hardcoded) if where["step"].get("gen_opts") else tuple(spec), opt_key(opts, hardcoded)), []).append((obs, where))

    nsteps = 0
    probes = []
    for sc, r in zip(scns, results):
        if "harness_exception" in r:
            raise common.InfraError("scenario worker failed:\n" + r["harness_exception"])
        probes.append((r["obs"][-1], sc))
        for j, (s, o) in enumerate(zip(sc["steps"], r["obs"][:-1])):
            nsteps += 1
            ck.count("entry_" + s["entry"])
            ck.count("status_" + o["status"].split(":")[0])
            ck.count("kind_" + s["net"][0])
            if s.get("gen_opts"):
                ck.count("second_generation_steps")
                ck.count("generation_%d_steps" % (len(s["gen_opts"]) + 1))
            if s["net"][0] in ("twin0", "twin1", "custom_codes"):
                ck.count(s["net"][0].rstrip("01") + "_" + o["status"].split("@")[0][:40])
            if o["stale_hits"]:
                ck.count("runs_with_cross_compilation_weight_cache_hit")
            if o["stale_addr"]:
                ck.count("runs_assigning_an_address_to_an_identity_left_by_an_earlier_run")
            if o.get("own_hits"):
                ck.count("runs_with_weight_cache_hit_inside_the_compilation")
            if o.get("greedy_ties"):
                ck.count("runs_with_indistinguishable_live_ranges_in_the_greedy_allocator")
            add(s["net"], s["opts"], o, {"scenario": sc, "step_index": j, "step": s, "fresh": j == 0})
        ck.count("shape_" + sc["shape"])
    for job, o in zip(cli_jobs, cli_results):
        ck.count("cli_subprocess_runs")
        cstep = {"net": job[0], "opts": job[1], "entry": "cli", "hashseed": job[2]}
        if len(job) > 4 and job[4]:
            cstep["gen_opts"] = job[4]
            ck.count("cli_second_generation_runs")
        add(job[0], job[1], o, {"scenario": {"shape": "cli", "steps": [cstep]}, "step_index": 0, "step": cstep, "fresh": True})

    lines, owners = [], []
    for key, members in classes.items():
        # reference first: a run that was first in its interpreter
        members.sort(key=lambda m: (not m[1]["fresh"], m[1]["scenario"]["shape"] != "alone"))
        for what in ("bytes", "figures", "debugdb"):
            if what == "bytes":
                sel = members
            elif what == "figures":
                sel = [m for m in members if m[0]["figures"] is not None or (m[1]["step"]["entry"] in ("main", "cli") and m[0]["status"] != "ok")]
                sel = [m for m in sel if m[1]["step"]["entry"] in ("main", "cli")]
            else:
                sel = [m for m in members if "--enable-debug-db" in m[1]["step"]["opts"]]
            if len(sel) >= 1:
                lines.append("detclass " + " ".join(obs_token(m[0], what) for m in sel))
                owners.append((key, what, sel))
    # the API probe: one class over all scenarios, reference = an interpreter that compiled nothing
    probes.sort(key=lambda p: len(p[1]["steps"]))
    probe_line = "detclass " + " ".join(obs_token(p[0], "bytes") for p in probes)
    verdicts = ck.model(lines + [probe_line], parallel=False)
    pv = verdicts.pop()
    if pv != "1":
        ref = probes[0][0]
        for o, sc in probes[1:]:
            if obs_token(o, "bytes") != obs_token(ref, "bytes"):
                diff = [(a, b) for a, b in zip(ref.get("text", "").split("\n"), o.get("text", "").split("\n")) if a != b][:2]
                ck.violation("the external API (create_default_arch / npu_create_driver_payload) answers differently after the compilations "
                             + "; ".join(f"{s['entry']}({s['net'][0]}#{s['net'][1]} {' '.join(s['opts'])})" for s in sc["steps"])
                             + f" than in an interpreter that compiled nothing: {str(diff)[:600]}",
                             {"scenario": {"shape": sc["shape"], "steps": sc["steps"]}, "compared": "api_probe", "step": None,
                              "first_differences": diff, "lean_request": "detclass " + obs_token(ref, "bytes") + " " + obs_token(o, "bytes")})
                break

    nontrivial = 0
    disagreeing = 0
    for (key, what, sel), v in zip(owners, verdicts):
        histories = {(m[1]["scenario"]["shape"], m[1]["step_index"], m[1]["step"]["entry"], m[1]["step"].get("hashseed")) for m in sel}
        if what == "bytes" and len(histories) >= 2:
            nontrivial += 1
        ck.count(f"classes_{what}")
        if v == "1":
            continue
        if not v.startswith("0"):
            raise common.InfraError("Lean judge answered " + v)
        disagreeing += 1
        ref = sel[0][0]
        tok0 = obs_token(ref, what)
        reported = set()
        for o, where in sel[1:]:
            if obs_token(o, what) == tok0:
                continue
            k = None
            sig = (k, o["status"], where["scenario"]["shape"])
            if sig in reported:
                continue
            reported.add(sig)
            sc = where["scenario"]
            hist = "; ".join(f"{s['entry']}({s['net'][0]}#{s['net'][1]}{' OUTPUT-OF-' + str(s['gen_opts']) if s.get('gen_opts') else ''} {' '.join(s['opts'])}{' +reset' if s.get('reset') else ''})" for s in sc["steps"][:where["step_index"] + 1])
            ck.violation(
                f"{what} of the same model and options differ: run #{where['step_index']} of [{hist}] gives {o['status']} "
                f"size={o['size']} sha={o['digest'][:12]} but alone in a fresh interpreter it gives {ref['status']} size={ref['size']} sha={ref['digest'][:12]}"
                f" (ops={o['src_ops']})",
                {"scenario": {"shape": sc["shape"], "steps": sc["steps"][:where["step_index"] + 1]}, "step": where["step"],
                 "compared": what, "reference": {k2: ref[k2] for k2 in ("status", "diag", "size", "digest", "figures", "debugdb")},
                 "observed": {k2: o[k2] for k2 in ("status", "diag", "size", "digest", "figures", "debugdb", "stale_hits", "stale_addr", "greedy_ties", "tb")},
                 "lean_request": "detclass " + tok0 + " " + obs_token(o, what),
                 "how_to_replay": "./check C14 --replay <this file>  (runs the reference alone and the scenario, each in a fresh interpreter)"},
                key=k)
    for (key, what, sel), v in list(zip(owners, verdicts))[:3]:
        ck.sample({"class": [key[0][0], key[0][1], key[1]], "compared": what, "runs": len(sel), "verdict": v,
                   "first": obs_token(sel[0][0], what)[:160]})

    # the TFLite writer alone, on generated graphs, under other hash seeds (harness/writer_stage.py; the model side is C11's)
    n_whash = 0
    if not ck.replay_arg:
        import writer_stage

        _wstats, wcases = writer_stage.function_stage(ck, 1500 if ck.thorough else 260, 0)
        n_whash = writer_stage.hashseed_stage(ck, wcases, [1, 2, 3, 4, 5, 6, 7, 8] if ck.thorough else [11, 12, 13], 300 if ck.thorough else 60)

    ck.finish({
        **buf_stats,
        "writer_hashseed_cases": n_whash,
        "explanation": "Sequences of compilations are run inside one interpreter (fresh fork per sequence) through main / convert / "
                       "convert_bytes, plus command-line subprocesses under several PYTHONHASHSEED values; all runs of the same (model, "
                       "effective options) form a class whose (ending, output size, SHA-256, summary columns, debug database) the Lean "
                       "judge Determinism.agree must find identical. Props/C14 proves when the abstract process-state model is history "
                       "independent and exhibits the witnesses where the unchanged code is not.",
        "evaluations": nsteps + len(cli_results) + nsort + ngreedy + nhill + n_whash + buf_stats["buffer_calls"],
        "greedy_tie_trials": ngreedy,
        "hillclimb_repeat_allocations": nhill,
        "compilations_observed": nsteps + len(cli_results),
        "writer_sort_cases": nsort,
        "distinct_nontrivial": nontrivial,
        "rule": "case = equivalence class (network spec, canonical effective options); non-trivial when it holds runs with at least two "
                "different histories (position in a sequence / entry point / hash seed)",
        "classes": len(classes),
        "scenarios": len(scns),
        "disagreeing_classes": disagreeing,
        "hash_seeds": sorted({j[2] for j in cli_jobs}),
        "compared_csv_columns": "all columns of <name>_summary_<system config>.csv except " + ", ".join(CSV_SKIP) + " (the file holds no wall-clock field)",
        "entry_point_options": hardcoded,
        "trusted_base_extra": ["fork() of an interpreter that imported ethosu.vela but never compiled stands for a fresh process (the CLI "
                               "subprocess runs are the cross-check)"],
    }, assumptions=["determinism of CPython, NumPy and the C extension themselves (same binary, same inputs) is outside the property",
                    "uuid4 collisions are outside the model",
                    "generated models are structurally valid TFLite (netgen)"])


main_wrapper(main)
