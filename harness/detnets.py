"""Networks for the determinism / history-independence check (C14).

A network is named by a *spec* `(kind, seed)` so that a scenario replays from plain data:
    build(("shared_w", 7)) -> netgen.Net
Kinds that are netgen/pipe_common profiles are passed through; the others are aimed at the process-wide
state the property is about:

  shared_w        two or three convolutions consuming ONE weight tensor (the compressed-weight cache hits
                  inside one compilation)
  shared_w_dtype  the same int8 weight tensor consumed by an int8 convolution and, behind a QUANTIZE, by an
                  int16 convolution (IFM bit depth is not part of the cache key)
  mean            MEAN over H,W: the optimiser creates all-ones weights and a zero bias whose value_id /
                  equivalence_id come from the process-wide memo `create_equivalence_id`
  pad             PAD kept as its own operator: constant border tensors with memoised equivalence ids
  pad_edit        PAD operators whose paddings constant the graph optimiser REWRITES IN PLACE (tflite_graph_optimiser
                  convert_pad_to_concat: `pad_tensor.values[axis, :] = 0`, split_pad_to_sub_pad: `pad_tensor.values[3] = [0, 0]`):
                  channel + spatial padding, batch + channel, channel only, rank 3, one paddings constant shared by two PADs
                  (seed mod 8 selects the variant, variant 0 with seed < 8 is the network of seeded change C14-r6m2)
  lut2            two or three LUT activations, possibly with identical tables (equivalence id memo + SHRAM slots)
  dupnames        several tensors of the output model share one name (the writer sorts tensors by name)
  custom_codes    three to five DIFFERENT third-party CUSTOM operators (same version) left on the CPU: the writer's
                  operator-code table is built from a set of (type, custom code, version) triples whose iteration
                  order follows the string hash, i.e. PYTHONHASHSEED
  twin0 / twin1   two networks that are identical (structure, shapes, every scale and zero point, weights) except for ONE
                  operator attribute that only the table/kernel generator reads: GELU approximate true/false, LEAKY_RELU
                  alpha, LOGISTIC vs TANH with forced equal quantisation; int8 and int16. Compiled one after the other
                  they expose any process-wide memo whose key leaves that attribute out.
"""
import random
import zlib


import netgen
import pipe_common

OWN_KINDS = ["shared_w", "shared_w_dtype", "mean", "pad", "pad_edit", "lut2", "dupnames", "custom_codes", "twin0", "twin1"]
PROFILE_KINDS = ["mixed", "cascade", "weights", "elementwise", "cpu", "cascade_chain", "lut", "weird"]


def spec_rng(spec):
    kind, seed = spec
    if kind in ("twin0", "twin1"):
        kind = "twin"               # the two variants draw exactly the same random numbers
    return random.Random((int(seed) << 16) ^ zlib.crc32(kind.encode()))


def build(spec):
    kind, seed = spec
    rng = spec_rng(spec)
    if kind in PROFILE_KINDS:
        return pipe_common.make_net(rng, seed % 100000, kind)
    if kind in ("twin0", "twin1"):
        return _twin(rng, seed, int(kind[-1]))
    return globals()["_" + kind](rng, seed)


def _shared_w(rng, seed):
    dtype = rng.choice(["int8", "int8", "uint8", "int16"])
    b = netgen.B(rng, f"shw{seed % 1000}", dtype)
    c = rng.choice([8, 16, 32])
    x = b.input([1, rng.randint(4, 12), rng.randint(4, 12), c])
    k = rng.choice([(1, 1), (3, 3), (3, 3), (2, 2)])
    first = b.conv(x, c, k, (1, 1), (1, 1), "SAME", per_channel=False)
    wt = b.net.ops[-1].inputs[1]
    cur = first
    b.net.desc.append(f"shared_w dtype={dtype} c={c} k={k}")
    for _ in range(rng.randint(1, 2)):
        # another convolution with its own bias and quantisation but the SAME weight tensor
        xt = b.t(cur)
        new = b.conv(cur, c, k, (1, 1), rng.choice([(1, 1), (1, 1), (2, 2)]), "SAME", per_channel=False)
        op = b.net.ops[-1]
        op.inputs[1] = wt
        if rng.random() < 0.5:
            op.inputs[2] = b.net.ops[0].inputs[2]      # shared bias as well
            b.t(op.inputs[2]).scales = [xt.scales[0] * b.t(wt).scales[0]]
        cur = new
    if rng.random() < 0.4:
        cur = b.binary("ADD", cur, first)
    return b.finish([cur])


def _shared_w_dtype(rng, seed):
    b = netgen.B(rng, f"shwd{seed % 1000}", "int8")
    c = rng.choice([8, 16])
    x = b.input([1, rng.randint(4, 10), rng.randint(4, 10), c])
    k = rng.choice([(1, 1), (3, 3)])
    y8 = b.conv(x, c, k, (1, 1), (1, 1), "SAME", per_channel=False)
    wt = b.net.ops[-1].inputs[1]
    x16 = b.quantize(y8, "int16")
    b.t(x16).zps = [0]
    y16 = b.conv(x16, c, k, (1, 1), (1, 1), "SAME", per_channel=False)
    b.net.ops[-1].inputs[1] = wt
    b.net.desc.append(f"shared_w_dtype c={c} k={k}")
    return b.finish([y16, y8])


def _mean(rng, seed):
    dtype = rng.choice(["int8", "int8", "uint8"])
    b = netgen.B(rng, f"mean{seed % 1000}", dtype)
    # few distinct element counts so that two networks often create ones-weights of equal length
    h, w, c = rng.choice([(4, 4, 8), (8, 8, 16), (8, 8, 16), (4, 8, 16), (8, 4, 16), (6, 6, 8)])
    x = b.input([1, h, w, c])
    cur = x
    if rng.random() < 0.5:
        cur = b.conv(cur, c, (1, 1), (1, 1), (1, 1), "SAME")
    cur = b.mean_hw(cur, True)
    if rng.random() < 0.3:
        cur = b.conv(cur, 8, (1, 1), (1, 1), (1, 1), "SAME")
    b.net.desc.append(f"mean dtype={dtype} hwc={(h, w, c)}")
    return b.finish([cur])


def _pad(rng, seed):
    dtype = rng.choice(["int8", "uint8"])
    b = netgen.B(rng, f"pad{seed % 1000}", dtype)
    c = rng.choice([4, 8, 16])
    x = b.input([1, rng.randint(3, 9), rng.randint(3, 9), c], zp=rng.choice([0, 0, 3]) if dtype == "int8" else 128)
    cur = x
    if rng.random() < 0.5:
        cur = b.conv(cur, c, (3, 3), (1, 1), (1, 1), "SAME")
    pads = [[0, 0], [rng.randint(0, 2), rng.randint(0, 2)], [rng.randint(1, 2), rng.randint(0, 2)], [0, 0]]
    cur = b.pad(cur, pads)
    cur = b.pool(cur, "MAX_POOL_2D", (2, 2), (1, 1), "VALID")     # keeps PAD as its own operator
    b.net.desc.append(f"pad dtype={dtype} pads={pads}")
    return b.finish([cur])


PAD_EDIT_VARIANTS = ["chan_spatial", "chan_spatial_rand", "batch_chan", "shared_pads", "chan_only", "rank3", "chan_left_spatial", "spatial_then_chan"]


def _pad_edit(rng, seed):
    variant = PAD_EDIT_VARIANTS[seed % len(PAD_EDIT_VARIANTS)]
    dtype = rng.choice(["int8", "int8", "uint8", "int16"])
    b = netgen.B(rng, f"padedit{seed % 1000}", dtype)
    c = rng.choice([4, 8, 16])
    h, w = rng.randint(3, 9), rng.randint(3, 9)
    if variant == "chan_spatial" and seed < 8:
        dtype, h, w, c = "int8", 8, 8, 8
        b.dtype = dtype
    shape = [1, h, w, c]
    x = b.input(shape if variant != "rank3" else shape[1:], zp=(rng.choice([0, 0, 3]) if dtype == "int8" else 128 if dtype == "uint8" else 0))
    cur = x
    if variant not in ("rank3", "chan_spatial") and rng.random() < 0.4:
        cur = b.conv(cur, c, (3, 3), (1, 1), (1, 1), "SAME")
    cpad = [rng.randint(0, 8), rng.randint(1, 8)]
    sp = lambda: [rng.randint(0, 2), rng.randint(1, 2)]
    if variant == "chan_spatial":
        pads = [[0, 0], [1, 1], [1, 1], [0, 8]] if seed < 8 else [[0, 0], sp(), sp(), [0, rng.choice([4, 8, 16])]]
    elif variant in ("chan_spatial_rand", "shared_pads", "spatial_then_chan"):
        pads = [[0, 0], sp(), sp(), cpad]
    elif variant == "chan_left_spatial":
        pads = [[0, 0], sp(), [0, 0], [rng.randint(1, 8), 0]]
    elif variant == "batch_chan":
        pads = [[rng.randint(0, 1), 1], [0, 0], [0, 0], cpad]
    elif variant == "chan_only":
        pads = [[0, 0], [0, 0], [0, 0], cpad]
    else:
        pads = [sp(), sp(), cpad]
    if variant == "rank3":
        pt = b.const([3, 2], "int32", pads, name=b.fresh("pads"))
        xt = b.t(cur)
        o = b.fm([d + p[0] + p[1] for d, p in zip(xt.shape, pads)], xt.dtype, scale=xt.scales[0], zp=xt.zps[0])
        b.net.ops.append(netgen.Op("PAD", [cur, pt], [o], ("PadOptions", {})))
        cur = o
    elif variant == "spatial_then_chan":
        cur = b.pad(cur, [[0, 0], sp(), sp(), [0, 0]])
        cur = b.pad(cur, pads)
    else:
        cur = b.pad(cur, pads)
    outs = [cur]
    if variant == "shared_pads":
        # a second PAD of another tensor with the SAME paddings constant
        pt = b.net.ops[-1].inputs[1]
        y = b.unary("RELU", x) if rng.random() < 0.5 else b.input(shape)
        yt = b.t(y)
        o = b.fm([d + p[0] + p[1] for d, p in zip(yt.shape, pads)], yt.dtype, scale=yt.scales[0], zp=yt.zps[0])
        b.net.ops.append(netgen.Op("PAD", [y, pt], [o], ("PadOptions", {})))
        outs.append(o)
    tail = rng.choice(["none", "pool", "conv", "none"])
    if variant not in ("rank3", "batch_chan") and tail != "none":
        t = b.pool(outs[0], "MAX_POOL_2D", (2, 2), (1, 1), "VALID") if tail == "pool" else b.conv(outs[0], 8, (1, 1), (1, 1), (1, 1), "SAME")
        if t is not None:
            outs[0] = t
    b.net.desc.append(f"pad_edit variant={variant} dtype={dtype} pads={pads} tail={tail}")
    return b.finish(outs)


def _lut2(rng, seed):
    dtype = rng.choice(["int8", "int8", "uint8", "int16"])
    b = netgen.B(rng, f"lutt{seed % 1000}", dtype)
    c = rng.choice([8, 16])
    # fixed scales so that different networks build the *same* tables
    x = b.input([1, rng.randint(2, 8), rng.randint(2, 8), c], scale=1 / 16, zp=0 if dtype != "uint8" else 128)
    cur = x
    kinds = [rng.choice(["LOGISTIC", "TANH", "LOGISTIC"]) for _ in range(rng.randint(1, 3))]
    for kd in kinds:
        if rng.random() < 0.6:
            cur = b.conv(cur, rng.choice([8, 16, 24]), (1, 1), (1, 1), (1, 1), "SAME", out_scale=1 / 16)
            b.t(cur).zps = [0 if dtype != "uint8" else 128]
        cur = b.unary(kd, cur)
        if rng.random() < 0.5:
            # bring the scale back so that the next table equals the previous one
            cur = b.conv(cur, c, (1, 1), (1, 1), (1, 1), "SAME", out_scale=1 / 16)
            b.t(cur).zps = [0 if dtype != "uint8" else 128]
    b.net.desc.append(f"lut2 dtype={dtype} kinds={kinds}")
    return b.finish([cur])


def _dupnames(rng, seed):
    b = netgen.B(rng, f"dupn{seed % 1000}", rng.choice(["int8", "uint8"]))
    c = rng.choice([4, 8, 16])
    x = b.input([1, rng.randint(3, 9), rng.randint(3, 9), c])
    outs = []
    cur = x
    for _ in range(rng.randint(2, 4)):
        how = rng.choice(["conv", "conv3", "relu", "cpu"])
        if how == "conv":
            new = b.conv(cur, rng.choice([4, 8, 16]), (1, 1), (1, 1), (1, 1), "SAME")
        elif how == "conv3":
            new = b.conv(x, rng.choice([4, 8]), (3, 3), (1, 1), (1, 1), "SAME")
        elif how == "relu":
            new = b.unary("RELU", cur)
        else:
            new = b.cpu_op(cur, "custom")
        outs.append(new)
        cur = new
    name = rng.choice(["dup", "Identity", "t"])
    for t in outs:
        b.t(t).name = name
    if rng.random() < 0.3:
        b.t(x).name = name
    b.net.desc.append(f"dupnames n={len(outs)} name={name}")
    return b.finish(outs)


CUSTOM_CODES = ["ThirdPartyOp", "AcmeFFT", "my_custom_nms", "Zeta", "vendor.op.v2", "TFLite_Detection_PostProcess", "a", "B"]


def _custom_codes(rng, seed):
    b = netgen.B(rng, f"cust{seed % 1000}", rng.choice(["int8", "uint8", "int16"]))
    x = b.input([1, rng.randint(2, 8), rng.randint(2, 8), rng.choice([4, 8, 16])])
    codes = rng.sample(CUSTOM_CODES, rng.randint(3, 5))
    cur = x
    if rng.random() < 0.5:
        cur = b.conv(cur, 8, (1, 1), (1, 1), (1, 1), "SAME")
    for code in codes:
        xt = b.t(cur)
        o = b.fm(xt.shape, xt.dtype, scale=xt.scales[0], zp=xt.zps[0])
        b.net.ops.append(netgen.Op("CUSTOM", [cur], [o], None, custom_code=code,
                                   custom_options=bytes(rng.getrandbits(8) for _ in range(rng.randint(1, 8)))))
        cur = o
        if rng.random() < 0.3:
            cur = b.unary("RELU", cur)
    b.net.desc.append(f"custom_codes {codes}")
    return b.finish([cur])


def _twin(rng, seed, variant):
    dtype = rng.choice(["int8", "int8", "int16"])
    b = netgen.B(rng, f"twin{seed % 1000}", dtype)
    c = rng.choice([4, 8, 16])
    # few quantisations, so that twins of different seeds collide as well
    in_scale = rng.choice([1 / 16, 1 / 32, 0.05]) if dtype == "int8" else rng.choice([1 / 4096, 1 / 8192])
    out_scale = rng.choice([1 / 16, 1 / 32]) if dtype == "int8" else 1 / 8192
    zp_in = rng.choice([0, 0, -3]) if dtype == "int8" else 0
    zp_out = rng.choice([0, -128]) if dtype == "int8" else 0
    x = b.input([1, rng.randint(2, 8), rng.randint(2, 8), c], scale=in_scale, zp=zp_in)
    cur = x
    if rng.random() < 0.4:
        cur = b.conv(cur, c, (1, 1), (1, 1), (1, 1), "SAME", out_scale=in_scale)
        b.t(cur).zps = [zp_in]
    what = rng.choice(["gelu", "gelu", "gelu", "lrelu", "sigm_tanh"])
    xt = b.t(cur)
    o = b.fm(xt.shape, dtype, scale=out_scale, zp=zp_out)
    if what == "gelu":
        b.net.ops.append(netgen.Op("GELU", [cur], [o], ("GeluOptions", dict(Approximate=bool(variant)))))
    elif what == "lrelu":
        b.net.ops.append(netgen.Op("LEAKY_RELU", [cur], [o], ("LeakyReluOptions", dict(Alpha=[0.1, 0.3][variant]))))
    else:
        b.net.ops.append(netgen.Op(["LOGISTIC", "TANH"][variant], [cur], [o]))
    cur = o
    if rng.random() < 0.3:
        cur = b.conv(cur, 8, (1, 1), (1, 1), (1, 1), "SAME")
    b.net.desc.append(f"twin {what} variant={variant} dtype={dtype} in=({in_scale},{zp_in}) out=({out_scale},{zp_out})")
    return b.finish([cur])


def has_duplicate_names(net):
    names = [t.name for t in net.tensors]
    return len(set(names)) != len(names)


def serialize(spec):
    net = build(spec)
    return netgen.serialize(net), net
