"""Networks for the determinism / history-independence check (C14).

A network is named by a *spec* `(kind, seed)` so that a scenario replays from plain data:
    build(("shared_w", 7)) -> netgen.Net
Kinds that are netgen/pipe_common profiles are passed through; the others are aimed at the process-wide
state the property is about:

  shared_w        two or three convolutions consuming ONE weight tensor (the compressed-weight cache hits
                  inside one compilation)
  shared_w_dtype  the same int8 weight tensor consumed by an int8 convolution and, behind a QUANTIZE, by an
                  int16 convolution (IFM bit depth is not part of the cache key)
  mean            MEAN over H,W: the optimiser creates all-ones weights and a zero bias whose value_id /
                  equivalence_id come from the process-wide memo `create_equivalence_id`
  pad             PAD kept as its own operator: constant border tensors with memoised equivalence ids
  lut2            two or three LUT activations, possibly with identical tables (equivalence id memo + SHRAM slots)
  dupnames        several tensors of the output model share one name (the writer sorts tensors by name)
"""
import random
import zlib


import netgen
import pipe_common

OWN_KINDS = ["shared_w", "shared_w_dtype", "mean", "pad", "lut2", "dupnames"]
PROFILE_KINDS = ["mixed", "cascade", "weights", "elementwise", "cpu", "cascade_chain", "lut", "weird"]


def spec_rng(spec):
    kind, seed = spec
    return random.Random((int(seed) << 16) ^ zlib.crc32(kind.encode()))


def build(spec):
    kind, seed = spec
    rng = spec_rng(spec)
    if kind in PROFILE_KINDS:
        return pipe_common.make_net(rng, seed % 100000, kind)
    return globals()["_" + kind](rng, seed)


def _shared_w(rng, seed):
    dtype = rng.choice(["int8", "int8", "uint8", "int16"])
    b = netgen.B(rng, f"shw{seed % 1000}", dtype)
    c = rng.choice([8, 16, 32])
    x = b.input([1, rng.randint(4, 12), rng.randint(4, 12), c])
    k = rng.choice([(1, 1), (3, 3), (3, 3), (2, 2)])
    first = b.conv(x, c, k, (1, 1), (1, 1), "SAME", per_channel=False)
    wt = b.net.ops[-1].inputs[1]
    cur = first
    b.net.desc.append(f"shared_w dtype={dtype} c={c} k={k}")
    for _ in range(rng.randint(1, 2)):
        # another convolution with its own bias and quantisation but the SAME weight tensor
        xt = b.t(cur)
        new = b.conv(cur, c, k, (1, 1), rng.choice([(1, 1), (1, 1), (2, 2)]), "SAME", per_channel=False)
        op = b.net.ops[-1]
        op.inputs[1] = wt
        if rng.random() < 0.5:
            op.inputs[2] = b.net.ops[0].inputs[2]      # shared bias as well
            b.t(op.inputs[2]).scales = [xt.scales[0] * b.t(wt).scales[0]]
        cur = new
    if rng.random() < 0.4:
        cur = b.binary("ADD", cur, first)
    return b.finish([cur])


def _shared_w_dtype(rng, seed):
    b = netgen.B(rng, f"shwd{seed % 1000}", "int8")
    c = rng.choice([8, 16])
    x = b.input([1, rng.randint(4, 10), rng.randint(4, 10), c])
    k = rng.choice([(1, 1), (3, 3)])
    y8 = b.conv(x, c, k, (1, 1), (1, 1), "SAME", per_channel=False)
    wt = b.net.ops[-1].inputs[1]
    x16 = b.quantize(y8, "int16")
    b.t(x16).zps = [0]
    y16 = b.conv(x16, c, k, (1, 1), (1, 1), "SAME", per_channel=False)
    b.net.ops[-1].inputs[1] = wt
    b.net.desc.append(f"shared_w_dtype c={c} k={k}")
    return b.finish([y16, y8])


def _mean(rng, seed):
    dtype = rng.choice(["int8", "int8", "uint8"])
    b = netgen.B(rng, f"mean{seed % 1000}", dtype)
    # few distinct element counts so that two networks often create ones-weights of equal length
    h, w, c = rng.choice([(4, 4, 8), (8, 8, 16), (8, 8, 16), (4, 8, 16), (8, 4, 16), (6, 6, 8)])
    x = b.input([1, h, w, c])
    cur = x
    if rng.random() < 0.5:
        cur = b.conv(cur, c, (1, 1), (1, 1), (1, 1), "SAME")
    cur = b.mean_hw(cur, True)
    if rng.random() < 0.3:
        cur = b.conv(cur, 8, (1, 1), (1, 1), (1, 1), "SAME")
    b.net.desc.append(f"mean dtype={dtype} hwc={(h, w, c)}")
    return b.finish([cur])


def _pad(rng, seed):
    dtype = rng.choice(["int8", "uint8"])
    b = netgen.B(rng, f"pad{seed % 1000}", dtype)
    c = rng.choice([4, 8, 16])
    x = b.input([1, rng.randint(3, 9), rng.randint(3, 9), c], zp=rng.choice([0, 0, 3]) if dtype == "int8" else 128)
    cur = x
    if rng.random() < 0.5:
        cur = b.conv(cur, c, (3, 3), (1, 1), (1, 1), "SAME")
    pads = [[0, 0], [rng.randint(0, 2), rng.randint(0, 2)], [rng.randint(1, 2), rng.randint(0, 2)], [0, 0]]
    cur = b.pad(cur, pads)
    cur = b.pool(cur, "MAX_POOL_2D", (2, 2), (1, 1), "VALID")     # keeps PAD as its own operator
    b.net.desc.append(f"pad dtype={dtype} pads={pads}")
    return b.finish([cur])


def _lut2(rng, seed):
    dtype = rng.choice(["int8", "int8", "uint8", "int16"])
    b = netgen.B(rng, f"lutt{seed % 1000}", dtype)
    c = rng.choice([8, 16])
    # fixed scales so that different networks build the *same* tables
    x = b.input([1, rng.randint(2, 8), rng.randint(2, 8), c], scale=1 / 16, zp=0 if dtype != "uint8" else 128)
    cur = x
    kinds = [rng.choice(["LOGISTIC", "TANH", "LOGISTIC"]) for _ in range(rng.randint(1, 3))]
    for kd in kinds:
        if rng.random() < 0.6:
            cur = b.conv(cur, rng.choice([8, 16, 24]), (1, 1), (1, 1), (1, 1), "SAME", out_scale=1 / 16)
            b.t(cur).zps = [0 if dtype != "uint8" else 128]
        cur = b.unary(kd, cur)
        if rng.random() < 0.5:
            # bring the scale back so that the next table equals the previous one
            cur = b.conv(cur, c, (1, 1), (1, 1), (1, 1), "SAME", out_scale=1 / 16)
            b.t(cur).zps = [0 if dtype != "uint8" else 128]
    b.net.desc.append(f"lut2 dtype={dtype} kinds={kinds}")
    return b.finish([cur])


def _dupnames(rng, seed):
    b = netgen.B(rng, f"dupn{seed % 1000}", rng.choice(["int8", "uint8"]))
    c = rng.choice([4, 8, 16])
    x = b.input([1, rng.randint(3, 9), rng.randint(3, 9), c])
    outs = []
    cur = x
    for _ in range(rng.randint(2, 4)):
        how = rng.choice(["conv", "conv3", "relu", "cpu"])
        if how == "conv":
            new = b.conv(cur, rng.choice([4, 8, 16]), (1, 1), (1, 1), (1, 1), "SAME")
        elif how == "conv3":
            new = b.conv(x, rng.choice([4, 8]), (3, 3), (1, 1), (1, 1), "SAME")
        elif how == "relu":
            new = b.unary("RELU", cur)
        else:
            new = b.cpu_op(cur, "custom")
        outs.append(new)
        cur = new
    name = rng.choice(["dup", "Identity", "t"])
    for t in outs:
        b.t(t).name = name
    if rng.random() < 0.3:
        b.t(x).name = name
    b.net.desc.append(f"dupnames n={len(outs)} name={name}")
    return b.finish(outs)


def has_duplicate_names(net):
    names = [t.name for t in net.tensors]
    return len(set(names)) != len(names)


def serialize(spec):
    net = build(spec)
    return netgen.serialize(net), net
