"""C14, caller-owned buffers (round 6, seeded change C14-r6m2).

`vela.convert_bytes` is handed a buffer the caller owns.  One *buffer scenario* runs, in ONE fresh interpreter, every entry
point on the same model:

    main (options convert/convert_bytes hard-code), convert, convert_bytes(bytearray copy), convert_bytes(memoryview of
    bytes = read-only), convert_bytes(memoryview of a bytearray = writable), and ONE caller-owned bytearray handed to
    convert_bytes two (three) times in a row

and records (a) the observation of every call (status, output size, SHA-256) - one equivalence class, judged by Lean
`detclass` (Spec/Determinism.lean `agree`: same request => same ending and bytes); (b) the content of the caller's buffer
before and after every convert_bytes call, judged by Lean `bufkept` (`inputKept`: the input buffer is not modified).
"""
import contextlib
import hashlib
import io
import os
import shutil
import sys
import tempfile
import traceback

import detnets
import pipeline


def _digest(b):
    return f"{len(b)}|{hashlib.sha256(bytes(b)).hexdigest()}"


def call_convert_bytes(arg):
    """vela.convert_bytes(arg) with the console captured; returns a pipeline.CompileResult"""
    from ethosu.vela import vela
    from ethosu.vela.errors import VelaError

    res = pipeline.CompileResult()
    d = tempfile.mkdtemp(prefix="velaverif_c14b_")
    out = io.StringIO()
    sys.stdout.flush()
    cap_f = open(os.path.join(d, "stdout.txt"), "w+")
    saved_fd = os.dup(1)
    os.dup2(cap_f.fileno(), 1)
    cwd = os.getcwd()
    try:
        os.chdir(d)
        with contextlib.redirect_stdout(out), contextlib.redirect_stderr(out):
            try:
                buf = vela.convert_bytes(arg)
                res.ret, res.status, res.out_model = 0, "ok", bytes(buf)
            except VelaError as e:
                res.status, res.exc = "vela-error", e
            except SystemExit as e:
                res.status, res.exc, res.ret = "system-exit", e, e.code
            except BaseException as e:  # noqa: B902
                res.status, res.exc, res.tb = "internal-exception", e, traceback.format_exc()
    finally:
        try:
            sys.stdout.flush()
        except Exception:
            pass
        os.dup2(saved_fd, 1)
        os.close(saved_fd)
        cap_f.seek(0)
        res.stdout = out.getvalue() + cap_f.read()
        cap_f.close()
        os.chdir(cwd)
        shutil.rmtree(d, ignore_errors=True)
    return res


def run_buffer_scenario(scn, status_of):
    """-> {"calls": [(how, status, diag, size, digest, tb)], "buffers": [(how, before, after)]}"""
    pipeline.load_vela()
    data, net = detnets.serialize(tuple(scn["net"]))
    calls, bufs = [], []

    def note(how, res):
        st, diag = status_of(res)
        calls.append({"how": how, "status": st, "diag": diag, "size": len(res.out_model) if res.out_model else 0,
                      "digest": hashlib.sha256(res.out_model).hexdigest() if res.out_model else "-", "tb": (res.tb or "")[-600:]})

    shared = bytearray(data)            # THE caller-owned buffer of the history A;A(;A)
    for how in scn["order"]:
        if how == "main":
            note(how, pipeline.compile_net(data, scn["hardcoded"], name="net", introspect=False, entry="main"))
        elif how == "convert":
            note(how, pipeline.compile_net(data, [], name="net", introspect=False, entry="convert"))
        else:
            if how == "bytes_copy":
                arg = owner = bytearray(data)
            elif how == "bytes_mv_ro":
                owner = bytes(data)
                arg = memoryview(owner)
            elif how == "bytes_mv_rw":
                owner = bytearray(data)
                arg = memoryview(owner)
            else:                        # bytes_shared: the same object every time
                arg = owner = shared
            before = _digest(owner)
            res = call_convert_bytes(arg)
            after = _digest(owner)
            note(how, res)
            bufs.append({"how": how, "before": before, "after": after})
    return {"calls": calls, "buffers": bufs, "src_ops": [o.kind for o in net.ops], "desc": net.desc, "model_digest": _digest(data)}


# ------------------------------------------------------------------------------------------------
# the stage (called from check_C14.main)

_STATUS_OF = None
HOWS = ["main", "convert", "bytes_copy", "bytes_mv_ro", "bytes_mv_rw", "bytes_shared", "bytes_shared", "bytes_shared"]
OTHER_KINDS = ["pad", "mean", "shared_w", "lut2", "mixed", "cpu", "weights", "elementwise", "dupnames", "cascade"]


def _fresh(scn):
    """fork; run the scenario in the child (compiler imported, nothing compiled yet); return what it observed"""
    import pickle

    r, w = os.pipe()
    pid = os.fork()
    if pid == 0:
        code = 0
        try:
            os.close(r)
            try:
                out = run_buffer_scenario(scn, _STATUS_OF)
            except BaseException:  # noqa: B902
                out = {"harness_exception": traceback.format_exc()[-2000:]}
            with os.fdopen(w, "wb") as f:
                pickle.dump(out, f)
        except BaseException:  # noqa: B902
            code = 3
        finally:
            os._exit(code)
    os.close(w)
    with os.fdopen(r, "rb") as f:
        data = f.read()
    os.waitpid(pid, 0)
    if not data:
        return {"harness_exception": "buffer scenario process died without an answer"}
    return pickle.loads(data)


def make_scenarios(rng, thorough, hardcoded):
    nv = len(detnets.PAD_EDIT_VARIANTS)
    specs = [("pad_edit", v) for v in range(nv)]                                        # fixed instances (variant 0 = the seeded demo)
    specs += [("pad_edit", nv * rng.randrange(1, 1 << 16) + v) for v in range(nv) for _ in range(4 if thorough else 1)]
    specs += [(k, rng.randrange(1 << 20)) for k in OTHER_KINDS for _ in range(4 if thorough else 1)]
    scns = []
    for i, spec in enumerate(specs):
        order = list(HOWS)
        if i % 3 == 1:
            rng.shuffle(order)
        elif i % 3 == 2:
            order = ["bytes_shared", "bytes_shared", "bytes_mv_ro", "main", "bytes_mv_rw", "convert", "bytes_copy", "bytes_shared"]
        scns.append({"shape": "buffers", "net": list(spec), "order": order, "hardcoded": list(hardcoded)})
    return scns


def stage(ck, hardcoded, status_of, only=None):
    """run the buffer scenarios, hand every class / buffer list to Lean; returns statistics"""
    import multiprocessing
    import re
    from concurrent.futures import ProcessPoolExecutor

    import common

    global _STATUS_OF
    _STATUS_OF = status_of
    scns = only if only is not None else make_scenarios(ck.rng, ck.thorough, hardcoded)
    with ProcessPoolExecutor(min(16, os.cpu_count() or 4), mp_context=multiprocessing.get_context("fork")) as ex:
        results = list(ex.map(_fresh, scns, chunksize=1))
    lines, owners = [], []
    ncalls = 0
    for sc, r in zip(scns, results):
        if "harness_exception" in r:
            raise common.InfraError("buffer scenario worker failed:\n" + r["harness_exception"])
        ck.count("buffer_scenarios")
        ck.count("buffer_kind_" + sc["net"][0])
        for c in r["calls"]:
            ncalls += 1
            ck.count("buffer_call_" + c["how"])
            ck.count("buffer_status_" + c["status"].split(":")[0])
        toks = [re.sub(r"[^A-Za-z0-9_.:@<>=-]", "_", c["status"]) + f"|{c['size']}|{c['digest']}|" for c in r["calls"]]
        lines.append("detclass " + " ".join(toks))
        lines.append("bufkept " + " ".join(f"{b['before']}|{b['after']}" for b in r["buffers"]))
        owners.append((sc, r, toks))
    verdicts = ck.model(lines, parallel=False) if lines else []
    bad = 0
    for k, (sc, r, toks) in enumerate(owners):
        vd, vb = verdicts[2 * k], verdicts[2 * k + 1]
        for v in (vd, vb):
            if not (v == "1" or v.startswith("0")):
                raise common.InfraError("Lean judge answered " + v)
        net = f"{sc['net'][0]}#{sc['net'][1]} ops={r['src_ops']} {' '.join(map(str, r['desc']))[:160]}"
        if vb != "1":
            bad += 1
            i = int(vb.split()[1])
            b = r["buffers"][i]
            ck.violation(f"convert_bytes modified the caller's buffer: call {i} of the convert_bytes calls ({b['how']}) in [{', '.join(sc['order'])}] "
                         f"left size|sha256 {b['after'][:24]} where the caller had put {b['before'][:24]} ({net})",
                         {"scenario": sc, "buffers": r["buffers"], "calls": r["calls"], "lean_request": lines[2 * k + 1],
                          "how_to_replay": "./check C14 --replay <this file>"})
        if vd != "1":
            bad += 1
            i = int(vd.split()[1])
            c0, c = r["calls"][0], r["calls"][i]
            ck.violation(f"the same model gives different results through different entry points / on the second compilation of one "
                         f"caller-owned buffer: call {i} ({c['how']}) of [{', '.join(sc['order'])}] gives {c['status']} size={c['size']} "
                         f"sha={c['digest'][:12]} {c['diag'][:120]}, call 0 ({c0['how']}) gave {c0['status']} size={c0['size']} sha={c0['digest'][:12]} ({net})",
                         {"scenario": sc, "calls": r["calls"], "buffers": r["buffers"], "lean_request": "detclass " + toks[0] + " " + toks[i],
                          "how_to_replay": "./check C14 --replay <this file>"})
    for (sc, r, toks) in owners[:2]:
        ck.sample({"buffer_scenario": sc["net"], "order": sc["order"], "calls": [(c["how"], c["status"], c["size"]) for c in r["calls"]],
                   "buffers_kept": all(b["before"] == b["after"] for b in r["buffers"])})
    return {"buffer_scenarios": len(scns), "buffer_calls": ncalls, "buffer_disagreements": bad}
