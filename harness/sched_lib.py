"""Scheduler memory bookkeeping: correspondence and Lean Spec on the real values (stage of ./check C12; design.d/SchedMem.md).

install()           wrap, in the harness process before the workers fork (no /repo hooks, read-only on real objects):
                    CascadeBuilder.build_cascades, Scheduler.build_cascades_for_min_schedule / optimize_sub_schedule /
                    estimate_schedule_memory_usage / update_op_memory_snapshot / use_fast_storage_for_feature_maps /
                    propose_operator_buffering / propose_weight_buffering, LiveRangeGraph.get_temporal_memory_usage,
                    FastStorageComponentAllocator.evict / keep / allocate_component, tensor_allocation.allocate_tensors
extra(res)          worker side, after one compilation: the recorded calls as protocol lines (model requests with the real
                    outcome, Spec requests on the real values)
corpus(ck, n)       compile n networks of harness/sched_nets.py (cascade-heavy, small SRAM targets, Dedicated_Sram)
stage(ck, outs)     check side: run the Lean model and the Lean Spec, compare, report
"""
import traceback
import types

_installed = False
_rec = []            # records of the current compilation: dicts {"kind", "line", "real", ...}
_spec = []           # Spec requests on real values: dicts {"kind", "line", "what", ...}
_errors = []
_ctx = {"stack": []}
_built = {}          # id(CascadeInfo) -> (CascadeInfo, info dict): how the builder accounted for the cascade
_meta = {}
_pending_build = []


def _i(x):
    v = int(x)
    if v != x:
        raise ValueError(f"non-integral value {x!r}")
    return v


def _shp(s):
    return ".".join(str(_i(v)) for v in (s.as_list() if hasattr(s, "as_list") else list(s)))


def _tens(st):
    from ethosu.vela.tensor import TensorFormat

    return f"{_shp(st.shape)}.{_i(st.dtype.size_in_bytes())}.{int(st.format == TensorFormat.NHCWB16)}"


_probe = types.SimpleNamespace(stripe=types.SimpleNamespace(height=-1))


def _op_text(builder, so):
    from ethosu.vela import cascade_builder as cb

    static = bool(builder._is_cascadable(so, _probe))          # the real function; the stripe conjunct is true for the probe
    deps = "/".join(str(_i(d.index)) for d in so.get_dependants())
    return ":".join([str(_i(so.index)), _tens(so.ifm), "-" if so.ifm2 is None else _tens(so.ifm2), _tens(so.ofm),
                     str(int(bool(so.requires_full_ifm))), str(int(bool(so.requires_full_ofm))),
                     str(int(bool(so.parent_op.type.is_binary_elementwise_op()))), str(int(bool(cb.ofm_can_reuse_ifm(so)))),
                     str(int(static)), deps, str(_i(cb.ifm_box_overread(so)))])


def _cost_text(ci):
    wb = ".".join(str(_i(t.storage_size())) for t in ci.buffered_weight_tensors)
    return f"{_shp(ci.stripe)}~{_shp(ci.stripe_input)}~{wb}~{_i(ci.cascade)}"


def _cost_map_text(cost_map):
    return ",".join(f"{_i(so.index)}@{_cost_text(ci)}" for so, ci in cost_map.items())


def _real_build(schedule):
    cost = ",".join(f"{_i(so.index)}@{_i(ci.stripe.height)}.{_i(ci.stripe_input.height)}.{_i(ci.cascade)}."
                    f"{sum(_i(t.storage_size()) for t in ci.buffered_weight_tensors)}" for so, ci in schedule.cost_map.items())
    casc = ";".join(f"{_i(c.start)}:{_i(c.end)}:{_i(c.mem_usage)}:" + "/".join(f"{_i(o.index)}={_shp(s)}" for o, s in c.buffers.items())
                    for c in schedule.cascades.values())
    return f"cost={cost} casc={casc}"


def _ranges_text(lrs):
    """`start:end:size` of the marked ranges (an unmarked range is alive at no tick)"""
    out = []
    for lr in lrs:
        if lr.end_time < 0 or lr.start_time > lr.end_time:
            continue
        out.append(f"{_i(lr.start_time)}:{_i(lr.end_time)}:{_i(lr.size)}")
    return ",".join(out)


def install():
    global _installed
    if _installed:
        return
    _installed = True
    from ethosu.vela import cascade_builder as cb, compiler_driver, live_range, scheduler as sc, tensor_allocation as ta
    from ethosu.vela import weight_compressor as wc
    from ethosu.vela.operation import Op
    from ethosu.vela.tensor import MemType

    def guarded(fn):
        def g(*a, **kw):
            try:
                return fn(*a, **kw)
            except Exception:
                _errors.append(traceback.format_exc()[-1500:])
        return g

    # ---- CascadeBuilder.build_cascades ---------------------------------------------------------------------------
    orig_bc = cb.CascadeBuilder.build_cascades

    @guarded
    def before_build(self, ref_schedule, fallback_schedule, limit):
        nl = ",".join(f"{_i(o.index)}:{_i(v)}" for o, v in self.non_local_mem_usage.items())
        line = (f"bcasc spill={int(bool(self.spilling))} limit={_i(limit)} NL={nl} OPS={';'.join(_op_text(self, so) for so in self.sched_ops)} "
                f"REF={_cost_map_text(ref_schedule.cost_map)} FB={_cost_map_text(fallback_schedule.cost_map)}")
        keys_in_ops = all(any(o is so for so in self.sched_ops) for o in ref_schedule.cost_map)
        return {"kind": "bcasc", "line": line, "ref_keys_in_ops": keys_in_ops, "label": ref_schedule.label,
                "ref_text": _cost_map_text(ref_schedule.cost_map)}

    @guarded
    def after_build(self, rec, r, limit):
        rec["real"] = _real_build(r)
        _rec.append(rec)
        by_index = {_i(so.index): so for so in self.sched_ops}
        for ci in r.cascades.values():
            first = by_index[_i(ci.start)]
            wb0 = sum(_i(t.storage_size()) for i in range(_i(ci.start), _i(ci.end) + 1) for t in r.cost_map[by_index[i]].buffered_weight_tensors)
            info = {"nl": _i(self.non_local_mem_usage.get(first, 0)), "limit": _i(limit), "spill": bool(self.spilling), "wb0": wb0,
                    "label": r.label}
            _built[id(ci)] = (ci, info)
            # (c) on the real values: the buffer of every (producer, consumer) pair of the cascade against the stripes of THIS cost map
            for cons, shape in ci.buffers.items():
                prod = by_index[_i(cons.index) - 1]
                ps, cs = r.cost_map[prod].stripe, r.cost_map[cons].stripe_input
                _spec.append({"kind": "buffer", "line": f"smbuf {_i(ps.height)} {_i(ps.width)} {_i(ps.depth)} {_i(cs.height)} {_i(cs.width)} "
                                                        f"{_i(cb.ifm_box_overread(cons))} {_i(shape.height)} {_i(shape.width)} {_i(shape.depth)}",
                              "what": f"rolling buffer {_shp(shape)} between operations {_i(prod.index)} and {_i(cons.index)} of cascade "
                                      f"{_i(ci.start)}..{_i(ci.end)} ({r.label}): producer stripe {_shp(ps)}, consumer stripe input {_shp(cs)}"})
            if self.spilling:
                cache = _i(getattr(self.sched_ops[0].arch, "arena_cache_size", limit))
                # Dedicated SRAM: the limit the builder works with is the size of the SRAM cache at most. This judges the CALLER
                # (schedule_passes); calls the harness makes itself on generated operator chains (label stubref*) choose their own
                # limit and are not judged by it
                if not str(r.label).startswith("stubref"):
                  _spec.append({"kind": "guide_limit", "line": f"smle {_i(limit)} {cache}",
                                "what": f"Dedicated SRAM: build_cascades ({r.label}) accepted cascade {_i(ci.start)}..{_i(ci.end)} under the limit "
                                        f"{_i(limit)}, arena cache size {cache}"})
                # Dedicated SRAM: the buffers of an accepted cascade fit the limit the builder was given
                _spec.append({"kind": "spill_limit", "line": f"smle {_i(ci.mem_usage) + info['nl']} {_i(limit)}",
                              "what": f"cascade {_i(ci.start)}..{_i(ci.end)} ({r.label}) accepted with buffers of {_i(ci.mem_usage) + info['nl']} bytes, limit {_i(limit)}"})

    def build_cascades(self, ref_schedule, fallback_schedule, guiding_mem_limit):
        rec = before_build(self, ref_schedule, fallback_schedule, guiding_mem_limit)
        del _pending_build[:]
        if rec is not None:
            _pending_build.append(rec)
        top = _ctx["stack"][-1] if _ctx["stack"] else None
        if top is not None and top["kind"] == "minsched" and rec is not None:
            guarded(_min_nl_record)(top, self, ref_schedule)
        r = orig_bc(self, ref_schedule, fallback_schedule, guiding_mem_limit)
        if rec is not None:
            after_build(self, rec, r, guiding_mem_limit)
            if top is not None and top["kind"] == "optsub":
                top["proposals"].append(rec["ref_text"])
                top["ncasc"].append(len(r.cascades))
                top["schedules"].append(r)
                top["builder"] = self
        return r

    cb.CascadeBuilder.build_cascades = build_cascades

    # ---- SchedulerOperation.create_scheduler_info: the stripe input -------------------------------------------------
    from ethosu.vela import architecture_allocator as aa

    orig_csi = sc.SchedulerOperation.create_scheduler_info

    def create_scheduler_info(self, nng, stripe):
        r = orig_csi(self, nng, stripe)
        try:
            k = self.kernel
            line = (f"sinfo {_shp(self.ofm.shape)} {_shp(stripe)} {_shp(self.ifm.shape)} {'-' if self.ifm2 is None else _shp(self.ifm2.shape)} "
                    f"{_i(k.stride.y)} {_i(k.stride.x)} {_i(k.area_height())} {_i(k.area_width())} {_i(aa.to_upscale(self.resampling_mode))} "
                    f"{int(bool(aa.is_nearest(self.resampling_mode)))}")
            _rec.append({"kind": "sinfo", "line": line,
                         "real": f"{_shp(r.stripe_input)} {'-' if r.stripe_input2 is None else _shp(r.stripe_input2)}"})
        except Exception:
            _errors.append(traceback.format_exc()[-1500:])
        return r

    sc.SchedulerOperation.create_scheduler_info = create_scheduler_info

    # ---- build_cascades_for_min_schedule: the non-local usage ------------------------------------------------------
    def _min_nl_record(top, builder, min_schedule):
        sched = top["scheduler"]
        ops = sched.sched_ops
        sn, scr = [], []
        for so in ops:
            t = min_schedule.cost_map[so].time_index
            sn.append(str(_i(min_schedule.memory_snapshot[t])))
            ifm = so.ifm.connection.parent_tens
            scr.append(str(int(ifm.mem_type in (MemType.Scratch, MemType.Scratch_fast))))
        line = (f"minnl spill={int(bool(sched.arch.is_spilling_enabled()))} OPS={';'.join(_op_text(builder, so) for so in ops)} "
                f"SN={'/'.join(sn)} SC={'/'.join(scr)}")
        _rec.append({"kind": "minnl", "line": line, "real": "ok " + " ".join(str(_i(builder.non_local_mem_usage[so])) for so in ops)})

    orig_min = sc.Scheduler.build_cascades_for_min_schedule

    def build_cascades_for_min_schedule(self, min_schedule, max_template, memory_limit):
        _ctx["stack"].append({"kind": "minsched", "scheduler": self})
        try:
            return orig_min(self, min_schedule, max_template, memory_limit)
        finally:
            _ctx["stack"].pop()

    sc.Scheduler.build_cascades_for_min_schedule = build_cascades_for_min_schedule

    # ---- optimize_sub_schedule -----------------------------------------------------------------------------------
    orig_opt = sc.Scheduler.optimize_sub_schedule
    orig_est = sc.Scheduler.estimate_schedule_memory_usage

    def estimate_schedule_memory_usage(self, schedule, non_local_mem_usage):
        r = orig_est(self, schedule, non_local_mem_usage)
        top = _ctx["stack"][-1] if _ctx["stack"] else None
        if top is not None and top["kind"] == "optsub":
            top["usage"].append(r)
        return r

    sc.Scheduler.estimate_schedule_memory_usage = estimate_schedule_memory_usage

    @guarded
    def optsub_record(self, top, cascade_info, ref_schedule, max_template, memory_limit, best, snap_t, ci_mem):
        builder = top.get("builder")
        if builder is None:
            return            # no proposal was looked at
        ops = self.sched_ops[cascade_info.start:cascade_info.end + 1]
        multi = len(ops[0].ifm.connection.consumers) > 1
        line = (f"optsub spill={int(bool(self.arch.is_spilling_enabled()))} limit={_i(memory_limit)} snap={snap_t} cimem={ci_mem} "
                f"cistart={_i(cascade_info.start)} ciend={_i(cascade_info.end)} multi={int(multi)} "
                f"OPS={';'.join(_op_text(builder, so) for so in ops)} FB={_cost_map_text(max_template.cost_map)} P={'|'.join(top['proposals'])}")
        nl = ",".join(f"{_i(o.index)}:{_i(v)}" for o, v in builder.non_local_mem_usage.items())
        bi = "-"
        for k, s in enumerate(top["schedules"]):
            if s is best:
                bi = str(k)
        real = (f"ok nl={nl} best={bi} seen={len(top['proposals'])} usage={'/'.join(str(_i(u)) for u in top['usage'])} "
                f"casc={'/'.join(map(str, top['ncasc']))}")
        _rec.append({"kind": "optsub", "line": line, "real": real, "accepted": bi != "-", "nprop": len(top["proposals"])})
        # acceptance against the limit, on the real values: the estimate of the accepted proposal does not exceed the limit
        if bi != "-":
            _spec.append({"kind": "accept_limit", "line": f"smle {_i(top['usage'][int(bi)])} {_i(memory_limit)}",
                          "what": f"optimize_sub_schedule accepted proposal {bi} of cascade {_i(cascade_info.start)}..{_i(cascade_info.end)} "
                                  f"with estimate {_i(top['usage'][int(bi)])}, limit {_i(memory_limit)}"})

    def optimize_sub_schedule(self, cascade_info, ref_schedule, max_template, memory_limit):
        top = {"kind": "optsub", "proposals": [], "usage": [], "ncasc": [], "schedules": []}
        snap_t = ci_mem = None
        try:
            t = ref_schedule.cost_map[self.sched_ops[cascade_info.start]].time_index
            snap_t, ci_mem = _i(ref_schedule.memory_snapshot[t]), _i(cascade_info.mem_usage)
        except Exception:
            _errors.append(traceback.format_exc()[-1500:])
        _ctx["stack"].append(top)
        try:
            best = orig_opt(self, cascade_info, ref_schedule, max_template, memory_limit)
        finally:
            _ctx["stack"].pop()
        optsub_record(self, top, cascade_info, ref_schedule, max_template, memory_limit, best, snap_t, ci_mem)
        return best

    sc.Scheduler.optimize_sub_schedule = optimize_sub_schedule

    orig_os = sc.Scheduler.optimize_schedule

    def optimize_schedule(self, schedule, max_sched, max_template):
        line = None
        try:
            line = f"maxfits {_i(max_sched.fast_storage_peak_usage)} {_i(self.sram_limit)} {int(bool(self.arch.is_spilling_enabled()))}"
        except Exception:
            _errors.append(traceback.format_exc()[-1500:])
        r = orig_os(self, schedule, max_sched, max_template)
        if line is not None:
            _rec.append({"kind": "maxfits", "line": line, "real": str(int(r is max_sched))})
        return r

    sc.Scheduler.optimize_schedule = optimize_schedule

    # ---- get_temporal_memory_usage / update_op_memory_snapshot ----------------------------------------------------
    orig_tu = live_range.LiveRangeGraph.get_temporal_memory_usage

    @guarded
    def tusage_record(self, target_mem_area, usage):
        lrs = []
        for lr in self.lrs:
            stop = _i(lr.end_time) + 1
            start = _i(lr.start_time)
            if start < 0 or stop < 0:
                raise ValueError("negative live range time")
            lrs.append(f"{start}:{stop}:{_i(lr.size)}:{int(lr.mem_area == target_mem_area)}")
        _rec.append({"kind": "tusage", "line": f"tusage ct={_i(self.current_time)} L={','.join(lrs)}",
                     "real": f"ok peak={_i(max(usage, default=0))} u={'/'.join(str(_i(u)) for u in usage)}"})
        _meta["max_usage_seen"] = max(_meta.get("max_usage_seen", 0), _i(max(usage, default=0)))

    def get_temporal_memory_usage(self, target_mem_area):
        usage = orig_tu(self, target_mem_area)
        tusage_record(self, target_mem_area, usage)
        top = _ctx["stack"][-1] if _ctx["stack"] else None
        if top is not None and top["kind"] in ("snapshot", "fast") and "graph" not in top:
            top["graph"] = self
            top["area"] = target_mem_area
        return usage

    live_range.LiveRangeGraph.get_temporal_memory_usage = get_temporal_memory_usage

    orig_up = sc.Scheduler.update_op_memory_snapshot

    @guarded
    def snapshot_record(self, schedule, top):
        g = top.get("graph")
        if g is None:
            return
        rtxt = _ranges_text([lr for lr in g.lrs if lr.mem_area == top["area"]])
        snap = [_i(x) for x in schedule.memory_snapshot]
        # (d) on the real values: every entry of the snapshot is the number of bytes in use at that tick
        _spec.append({"kind": "snapshot", "line": f"smusage R={rtxt} S={'/'.join(map(str, snap))}",
                      "what": f"memory snapshot of schedule {schedule.label}"})
        # (a) on the real values: what the builder attributed to a cascade against the bytes in use at its time index
        for ci in schedule.cascades.values():
            ent = _built.get(id(ci))
            if ent is None:
                continue
            info = ent[1]
            ops = self.sched_ops[ci.start:ci.end + 1]
            t = _i(schedule.cost_map[ops[0]].time_index)
            wb = sum(_i(x.storage_size()) for o in ops for x in schedule.cost_map[o].buffered_weight_tensors)
            est = _i(ci.mem_usage) + info["nl"] + wb - info["wb0"]
            _spec.append({"kind": "estimate", "line": f"smest est={est} t={t} R={rtxt}", "exact": est,
                          "what": f"cascade {_i(ci.start)}..{_i(ci.end)} built for {info['label']} (mem_usage {_i(ci.mem_usage)} + non-local {info['nl']} "
                                  f"+ weight buffers added later {wb - info['wb0']}) at time index {t} of schedule {schedule.label}"})

    def update_op_memory_snapshot(self, schedule):
        top = {"kind": "snapshot"}
        _ctx["stack"].append(top)
        try:
            r = orig_up(self, schedule)
        finally:
            _ctx["stack"].pop()
        snapshot_record(self, schedule, top)
        return r

    sc.Scheduler.update_op_memory_snapshot = update_op_memory_snapshot

    # ---- use_fast_storage_for_feature_maps -----------------------------------------------------------------------
    FA = sc.FastStorageComponentAllocator
    orig_evict, orig_keep, orig_comp = FA.evict, FA.keep, FA.allocate_component

    def evict(lr, max_mem_usage, scratched_fms):
        top = _ctx["stack"][-1] if _ctx["stack"] else None
        if top is not None and top["kind"] == "fast":
            top["evicted"].append(lr)
        return orig_evict(lr, max_mem_usage, scratched_fms)

    def keep(lr, base_mem_usage):
        top = _ctx["stack"][-1] if _ctx["stack"] else None
        if top is not None and top["kind"] == "fast":
            top["kept"].append(lr)
        return orig_keep(lr, base_mem_usage)

    def allocate_component(self, lrs, max_mem, min_mem, scratched_fms, competing_tens_access, evicted_fms):
        top = _ctx["stack"][-1] if _ctx["stack"] else None
        if top is not None and top["kind"] == "fast":
            top["scores"] = competing_tens_access
        return orig_comp(self, lrs, max_mem, min_mem, scratched_fms, competing_tens_access, evicted_fms)

    FA.evict = staticmethod(evict)
    FA.keep = staticmethod(keep)
    FA.allocate_component = allocate_component

    orig_fast = sc.Scheduler.use_fast_storage_for_feature_maps

    @guarded
    def fast_before(self, schedule):
        rows = []
        for so in self.sched_ops:
            cost = schedule.cost_map[so]
            t = so.ofm.connection.parent_tens
            rows.append({"op": _i(so.index), "cascade": _i(cost.cascade), "ndeps": len(so.get_dependants()),
                         "outside": any(c is None for c in t.consumer_list),
                         "varwrite": so.parent_op.memory_function is Op.VariableTensorWrite,
                         "tens": t, "before": (t.mem_area, t.mem_type), "known": t in self.scratched_fms})
        return rows

    @guarded
    def fast_record(self, schedule, limit, top, rows, raised):
        fast_area, fast_type = self.arch.fast_storage_mem_area, MemType.Scratch_fast
        g = top.get("graph")
        evicted_t = {id(t) for lr in top["evicted"] for t in lr.tensors}
        writers = {}
        for row in rows or []:
            writers[id(row["tens"])] = writers.get(id(row["tens"]), 0) + 1
        for row in rows or []:
            t = row["tens"]
            if writers[id(t)] > 1:
                continue            # several operations write this tensor (concatenation): which of them moved it is not observable
            # the loop "Force all OFMs to fast-storage": moved = the tensor was entered into scratched_fms / placed in fast storage
            moved = (not row["known"] and t in self.scratched_fms) or \
                (row["known"] and row["before"] != (fast_area, fast_type) and ((t.mem_area, t.mem_type) == (fast_area, fast_type) or id(t) in evicted_t))
            if row["known"] and row["before"] == (fast_area, fast_type):
                moved = None        # it was there already: the loop's assignment is not observable
            if moved is not None:
                _rec.append({"kind": "ffast", "line": f"ffast {row['cascade']} {row['ndeps']} {int(row['outside'])} {int(row['varwrite'])}",
                             "real": str(int(moved)), "op": row["op"]})
                _spec.append({"kind": "move", "line": f"smmove {int(moved)} {int(row['outside'])} {int(row['varwrite'])}",
                              "what": f"output of operation {row['op']} ({t.name}) placed in fast storage by use_fast_storage_for_feature_maps "
                                      f"although it is read outside the NPU subgraph or written as a variable"})
        if g is None:
            return
        scores = top.get("scores") or {}
        lrs = []
        for lr in g.lrs:
            scratched = any(t in self.scratched_fms for t in lr.tensors)
            sc_ = scores.get(lr.tensors[0], 0) if lr.tensors else 0
            if _i(lr.start_time) > _i(lr.end_time):
                raise ValueError("unmarked live range in the fast storage graph")
            lrs.append(f"{_i(lr.start_time)}:{_i(lr.end_time)}:{_i(lr.size)}:{int(lr.mem_area == top['area'])}:{int(scratched)}:{_i(sc_)}")
        pos = {id(lr): i for i, lr in enumerate(g.lrs)}
        ev = "/".join(str(pos[id(lr)]) for lr in top["evicted"])
        kp = "/".join(str(pos[id(lr)]) for lr in top["kept"])
        fms = "/".join(str(pos[id(lr)]) for lr in self.evicted_fms)
        line = f"fast ct={_i(g.current_time)} limit={_i(limit)} L={','.join(lrs)}"
        real = "err:assert" if raised == "AssertionError" else (f"err:{raised}" if raised else f"evicted={ev} kept={kp} fms={fms}")
        _rec.append({"kind": "fast", "line": line, "real": real, "n": len(g.lrs), "competing": bool(scores)})
        if not raised:
            ev_ids = {id(lr) for lr in top["evicted"]}
            rs = []
            for lr in g.lrs:
                if lr.mem_area != top["area"]:
                    continue
                movable = any(t in self.scratched_fms for t in lr.tensors)
                rs.append(f"{_i(lr.start_time)}:{_i(lr.end_time)}:{_i(lr.size)}:{int(movable)}:{int(id(lr) not in ev_ids)}")
            # (b) on the real values
            _spec.append({"kind": "fast_fits", "line": f"smfast limit={_i(limit)} T={_i(g.current_time) + 2} R={','.join(rs)}",
                          "what": f"use_fast_storage_for_feature_maps(limit {_i(limit)}) of schedule {schedule.label}: what is kept in fast "
                                  f"storage exceeds the limit at a tick where movable feature maps are kept"})

    def use_fast_storage_for_feature_maps(self, schedule, staging_limit):
        rows = fast_before(self, schedule)
        top = {"kind": "fast", "evicted": [], "kept": []}
        _ctx["stack"].append(top)
        raised = None
        try:
            return orig_fast(self, schedule, staging_limit)
        except BaseException as e:  # noqa: B902
            raised = type(e).__name__
            raise
        finally:
            _ctx["stack"].pop()
            fast_record(self, schedule, staging_limit, top, rows, raised)

    sc.Scheduler.use_fast_storage_for_feature_maps = use_fast_storage_for_feature_maps

    # ---- propose_operator_buffering / propose_weight_buffering ----------------------------------------------------
    orig_pwb = sc.Scheduler.propose_weight_buffering
    orig_pob = sc.Scheduler.propose_operator_buffering
    orig_enc = wc.encode_weight_and_scale_tensor

    def encode_weight_and_scale_tensor(*a, **kw):
        r = orig_enc(*a, **kw)
        top = _ctx["stack"][-1] if _ctx["stack"] else None
        if top is not None and top["kind"] == "pwb":
            top["last_enc"] = r[0]
        return r

    wc.encode_weight_and_scale_tensor = encode_weight_and_scale_tensor

    def propose_operator_buffering(self, sched_op, prev_op, buffered_schedule, ref_schedule, staging_limit_bytes):
        top = {"kind": "pob"}
        try:
            if sched_op not in buffered_schedule.cost_map:
                top["snapshot"] = "/".join(str(_i(x)) for x in ref_schedule.memory_snapshot)
                top["t"] = _i(ref_schedule.cost_map[sched_op].time_index)
                top["limit"] = _i(staging_limit_bytes)
                top["ev"] = _i(sched_op.evicted_fms_size)
        except Exception:
            _errors.append(traceback.format_exc()[-1500:])
        _ctx["stack"].append(top)
        try:
            return orig_pob(self, sched_op, prev_op, buffered_schedule, ref_schedule, staging_limit_bytes)
        finally:
            _ctx["stack"].pop()

    sc.Scheduler.propose_operator_buffering = propose_operator_buffering

    @guarded
    def pwb_entry(self, top, sched_op, prev_op, buffered_schedule, ref_schedule, buffer_limit_bytes, weight_tensor):
        cost = buffered_schedule.cost_map[sched_op]
        prev_cost = buffered_schedule.cost_map.get(prev_op)
        top["slack0"] = _i(cost.slack_buffering_memory)
        top["limit"] = _i(buffer_limit_bytes)
        top["prev"] = _i(prev_cost.slack_buffering_memory) if prev_cost else 0
        top["ref_list"] = ref_schedule.cost_map[sched_op].buffered_weight_tensors
        top["decides"] = not (sched_op.op_type == Op.FullyConnected or not self.weights_needs_dma(weight_tensor))
        top["cascade"] = _i(ref_schedule.cost_map[sched_op].cascade)
        outer = _ctx["stack"][-2] if len(_ctx["stack"]) >= 2 else None
        if outer is not None and outer["kind"] == "pob" and "snapshot" in outer:
            _rec.append({"kind": "opbuf", "line": f"opbuf t={outer['t']} limit={outer['limit']} ev={outer['ev']} S={outer['snapshot']}",
                         "real": f"{top['slack0']} {top['limit']}"})

    @guarded
    def pwb_exit(self, top, sched_op, buffered_schedule):
        if not top.get("decides") or "last_enc" not in top:
            return
        cost = buffered_schedule.cost_map[sched_op]
        enc = top["last_enc"]
        buffered = cost.buffered_weight_tensors is not top["ref_list"]
        line = (f"wbuf limit={top['limit']} len={len(enc.buffer)} db0={_i(enc.double_buffer_sizes[0])} db1={_i(enc.double_buffer_sizes[1])} "
                f"ns={len(cost.ofm_depth_slices) if buffered else 2} casc={top['cascade']} prev={top['prev']}")
        if buffered:
            sizes = "/".join(str(_i(t.shape[-1])) for t in cost.buffered_weight_tensors)
            from ethosu.vela.tensor import TensorSubPurpose

            dbl = cost.buffered_weight_tensors[0].sub_purpose == TensorSubPurpose.DoubleBuffer
            pre = bool(cost.buffered_weight_tensors[0].pre_buffer)
            real = f"ok b={sizes} dbl={int(dbl)} pre={int(pre)} used={top['slack0'] - _i(cost.slack_buffering_memory)}"
            # sizing on the real values: the buffers fit the slack the operator had
            _spec.append({"kind": "wbuf_fits", "line": f"smle {sum(_i(t.storage_size()) for t in cost.buffered_weight_tensors)} {top['limit']}",
                          "what": f"weight buffers of operation {_i(sched_op.index)} ({sizes} bytes) exceed the buffer limit {top['limit']}"})
        else:
            real = "none"
        _rec.append({"kind": "wbuf", "line": line, "real": real, "buffered": buffered})

    def propose_weight_buffering(self, weight_tensor, scale_tensor, sched_op, prev_op, buffered_schedule, ref_schedule, buffer_limit_bytes):
        top = {"kind": "pwb"}
        _ctx["stack"].append(top)
        pwb_entry(self, top, sched_op, prev_op, buffered_schedule, ref_schedule, buffer_limit_bytes, weight_tensor)
        try:
            r = orig_pwb(self, weight_tensor, scale_tensor, sched_op, prev_op, buffered_schedule, ref_schedule, buffer_limit_bytes)
        finally:
            _ctx["stack"].pop()
        pwb_exit(self, top, sched_op, buffered_schedule)
        return r

    sc.Scheduler.propose_weight_buffering = propose_weight_buffering

    # ---- the allocation the schedule leads to ----------------------------------------------------------------------
    orig_at = ta.allocate_tensors

    def allocate_tensors(nng, sg, arch, mem_area, mem_type_set, *a, **kw):
        before = dict(sg.memory_used_per_type)
        r = orig_at(nng, sg, arch, mem_area, mem_type_set, *a, **kw)
        try:
            if sg == nng.get_root_subgraph() and not kw.get("dry_test"):
                mt = sorted(m.name for m in mem_type_set)
                tot = max((_i(sg.memory_used_per_type.get(m, 0)) - _i(before.get(m, 0)) for m in mem_type_set), default=0)
                _meta.setdefault("alloc", []).append({"area": mem_area.name, "types": mt, "total": tot})
                _meta["cache"] = _i(arch.arena_cache_size)
                _meta["spilling"] = bool(arch.is_spilling_enabled())
        except Exception:
            _errors.append(traceback.format_exc()[-1500:])
        return r

    ta.allocate_tensors = allocate_tensors
    sc.tensor_allocation.allocate_tensors = allocate_tensors

    orig_sched = sc.schedule_passes

    def schedule_passes(nng, arch, options, scheduler_options):
        _meta["sram_target"] = _i(scheduler_options.optimization_sram_limit)
        _meta["strategy"] = str(scheduler_options.optimization_strategy)
        return orig_sched(nng, arch, options, scheduler_options)

    sc.schedule_passes = schedule_passes
    if getattr(compiler_driver, "scheduler", None) is sc:
        pass        # compiler_driver calls scheduler.schedule_passes through the module attribute

    orig_driver = compiler_driver.compiler_driver

    def wrap_driver(*a, **kw):
        _reset()
        return orig_driver(*a, **kw)

    compiler_driver.compiler_driver = wrap_driver


def _reset():
    del _rec[:]
    del _spec[:]
    del _errors[:]
    _built.clear()
    _meta.clear()
    _ctx["stack"] = []


def extra(res):
    """worker side, after one compilation"""
    out = {"records": [], "spec": [], "errors": list(_errors), "meta": dict(_meta)}
    seen = set()
    for r in _rec:
        k = (r["line"], r.get("real"))
        if k in seen:
            continue
        seen.add(k)
        out["records"].append({k2: v for k2, v in r.items() if k2 not in ("tens",)})
    seen = set()
    for s in _spec:
        if s["line"] in seen:
            continue
        seen.add(s["line"])
        out["spec"].append(s)
    _reset()
    return out


# ------------------------------------------------------------------------------------------------
def _worker(job):
    import random
    import zlib

    import netgen
    import pipeline
    import sched_nets

    seed, idx = job
    rng = random.Random((seed << 20) ^ (idx * 15485863) ^ zlib.crc32(b"sched_nets"))
    out = {"idx": idx, "profile": "sched_nets", "seed": seed}
    try:
        net = sched_nets.build(rng, idx)
        opts = sched_nets.config(rng, net)
        data = netgen.serialize(net)
        out.update(desc=net.describe(), opts=opts, family=net.name.split("_", 1)[-1])
        _reset()
        res = pipeline.compile_net(data, opts, name=f"s{idx}")
        out["status"] = res.status
        out["exc"] = (type(res.exc).__name__ + ": " + str(res.exc))[:300] if res.exc is not None else ""
        out["tb"] = res.tb[-1200:]
        out["error_line"] = next((l for l in res.stdout.split("\n") if l.startswith("Error:")), "")[:300]
        out["sched"] = extra(res)
        import sys

        if "serial_lib" in sys.modules:          # serialisation stage of ./check C12 (design.d/Serialise.md), when installed
            out["serial"] = sys.modules["serial_lib"].extra(res)
        if res.status == "ok" and res.out_model is not None:
            ext, _m = pipeline.extents_from_output(res.out_model)
            out["extents"] = ext
        pipeline.reset_process_state()
    except BaseException:  # noqa: B902
        out["harness_exception"] = traceback.format_exc()[-1500:]
    return out


def corpus(ck, n):
    """compile `n` networks of harness/sched_nets.py (replay: `sched_lib._worker((seed, index))`)"""
    import multiprocessing
    import os
    from concurrent.futures import ProcessPoolExecutor

    import common
    import pipeline

    pipeline.load_vela()
    install()
    jobs = [(ck.seed, i) for i in range(n)]
    ctx = multiprocessing.get_context("fork")
    with ProcessPoolExecutor(min(16, os.cpu_count() or 4), mp_context=ctx) as ex:
        outs = list(ex.map(_worker, jobs, chunksize=1))
    for o in outs:
        if "harness_exception" in o:
            raise common.InfraError("sched_nets worker failed:\n" + o["harness_exception"])
        ck.count("sched_nets_status_" + str(o.get("status")))
    return outs


class _O:
    """attribute bag, hashable by identity"""

    def __init__(self, **kw):
        self.__dict__.update(kw)


def stub_fast(rng, n):
    """n generated live-range sets through the REAL use_fast_storage_for_feature_maps / FastStorageComponentAllocator (stub
    scheduler object, real Tensor / LiveRange / LiveRangeGraph objects; the extraction is replaced by the generated ranges, the
    access estimate by generated scores).  Reaches what compiled networks rarely do: many competing ranges, several components,
    components of MAX_EXHAUSTIVE_ITEMS ranges, removal of long ranges, ranges that can never fit next to kept ones."""
    from ethosu.vela import live_range, scheduler as sc
    from ethosu.vela.data_type import DataType
    from ethosu.vela.tensor import MemArea, MemType, Tensor

    install()
    outs = []
    orig_extract = sc.live_range.extract_live_ranges_from_schedule
    for k in range(n):
        _reset()
        T = rng.choice([2, 4, 6, 10, 16, 30, 60])
        big = rng.random() < 0.15
        nlr = rng.randint(21, 34) if big else rng.randint(1, 12)
        tensors, lrs, ops = [], [], []
        scratched = {}
        scores = {}
        for i in range(nlr):
            t = Tensor([1, 1, 1, 16], DataType.int8, f"t{k}_{i}")
            t.mem_area, t.mem_type = MemArea.Sram, MemType.Scratch_fast
            a = rng.randint(0, T)
            length = rng.choice([0, 1, 1, 3, 3, 5, rng.randint(0, T), 25 if big else 2])
            b = min(a + length, T + 1)
            lr = live_range.LiveRange(t, 16)
            lr.start_time, lr.end_time = a, b
            lr.size = 16 * rng.randint(1, 40)
            if rng.random() < 0.8:
                scratched[t] = (MemArea.Dram, MemType.Scratch)
            lrs.append(lr)
            tensors.append(t)
            scores[t] = rng.choice([0, 1, 5, 100, rng.randint(0, 10000)])
            conn = types.SimpleNamespace(parent_tens=t)
            other = types.SimpleNamespace(parent_tens=Tensor([1, 1, 1, 16], DataType.int8, f"o{k}_{i}"))
            ops.append(_O(ifm=types.SimpleNamespace(connection=conn), ifm2=None,
                          ofm=types.SimpleNamespace(connection=other, shape=types.SimpleNamespace(depth=16)),
                          index=i, get_dependants=lambda: [], parent_op=types.SimpleNamespace(memory_function=None)))
        peak = [0] * (T + 2)
        for lr in lrs:
            for x in range(lr.start_time, min(lr.end_time, T + 1) + 1):
                peak[x] += lr.size
        limit = int(max(peak) * rng.choice([0.3, 0.5, 0.7, 0.9, 1.0, 1.2])) // 16 * 16

        def fake_extract(sg, mem_area, mem_type_set, lr_graph, *a, **kw):
            lr_graph.lrs.extend(lrs)
            for lr in lrs:
                lr_graph.ranges[lr.tensors[0]] = lr
            lr_graph.current_time = T
            return lr_graph

        cost = types.SimpleNamespace(cascade=1, block_config=None)
        schedule = types.SimpleNamespace(cost_map={op: cost for op in ops}, label=f"stub{k}")
        me = types.SimpleNamespace(arch=types.SimpleNamespace(fast_storage_mem_area=MemArea.Sram), sched_ops=ops, sg=None,
                                   scratched_fms=scratched, evicted_fms=[],
                                   estimate_element_access=lambda so, bc, depth: types.SimpleNamespace(
                                       ifm_read=[scores[so.ifm.connection.parent_tens]], ofm_write=0))
        sc.live_range.extract_live_ranges_from_schedule = fake_extract
        try:
            try:
                sc.Scheduler.use_fast_storage_for_feature_maps(me, schedule, limit)
            except Exception:  # noqa: B902  recorded by the wrapper as the outcome of the call
                pass
        finally:
            sc.live_range.extract_live_ranges_from_schedule = orig_extract
        out = {"idx": k, "profile": "stub_fast", "seed": -1, "opts": [], "desc": f"generated live ranges T={T} n={nlr} limit={limit}",
               "sched": extra(None)}
        outs.append(out)
    return outs


def stub_builder(rng, n):
    """n generated operator chains through the REAL CascadeBuilder.build_cascades (SchedulerOperation objects made with
    object.__new__ and filled with the attributes the builder, `_is_cascadable`, `ofm_can_reuse_ifm` and `ifm_box_overread` read;
    real Tensor / Kernel / Shape4D objects, real size methods).  Reaches what compiled networks rarely do: branches and gaps in
    the chain, dependants outside the builder's operations, full-feature-map flags in the middle, non-cascadable block types,
    binary elementwise operators, read offsets, weight buffers in the reference cost, non-zero / negative non-local usage, both
    memory modes with limits around the sizes involved, reference costs without an entry."""
    from ethosu.vela import cascade_builder as cb, scheduler as sc
    from ethosu.vela.data_type import DataType
    from ethosu.vela.operation import Kernel, Op, Padding
    from ethosu.vela.shape4d import Shape4D
    from ethosu.vela.tensor import MemArea, MemType, Tensor, TensorFormat, TensorPurpose

    install()
    outs = []
    for k in range(n):
        _reset()
        nops = rng.randint(2, 7)
        h, w = rng.choice([8, 12, 16, 33, 40, 64]), rng.choice([4, 8, 16, 32])
        dt = rng.choice([DataType.int8, DataType.int8, DataType.int16])
        arch = types.SimpleNamespace(arena_cache_size=rng.choice([2048, 16384, 65536, 1 << 20]))

        def tensor(name, shape, fmt):
            t = Tensor(list(shape), dt, name)
            t.format = fmt
            t.purpose, t.mem_area, t.mem_type = TensorPurpose.FeatureMap, MemArea.Sram, MemType.Scratch
            t.consumer_list = [None]
            t.ops = [types.SimpleNamespace(type=Op.Conv2DBias)]
            return t

        c_prev = rng.choice([4, 8, 16])
        cur_shape = [1, h, w, c_prev]
        cur_t = tensor(f"x{k}_0", cur_shape, TensorFormat.NHWC)
        ops = []
        gap = [0]
        for i in range(nops):
            kind = rng.choice([Op.Conv2DBias] * 5 + [Op.AvgPool, Op.Add, Op.Add, Op.FullyConnected, Op.DepthwiseConv2DBias])
            kh = rng.choice([1, 3, 3, 5]) if kind != Op.Add else 1
            sy = rng.choice([1, 1, 1, 2]) if kind != Op.Add else 1
            co = rng.choice([4, 8, 16, 24, 32]) if kind in (Op.Conv2DBias, Op.FullyConnected) else cur_shape[3]
            oh = max(1, cur_shape[1] // sy)
            out_shape = [1, oh, cur_shape[2], co]
            fmt = rng.choice([TensorFormat.NHCWB16, TensorFormat.NHCWB16, TensorFormat.NHWC])
            out_t = tensor(f"x{k}_{i + 1}", out_shape, fmt)
            ifm_shape = list(cur_shape)
            if rng.random() < 0.03:
                ifm_shape[1] += 1          # producer OFM shape != consumer IFM shape: the chain breaks here
            so = object.__new__(sc.SchedulerOperation)
            so.arch = arch
            if rng.random() < 0.04:
                gap[0] += 1                                        # a gap in the indices: "requires reordering"
            so.index = i + gap[0]
            so.name = f"op{k}_{i}"
            so.op_type = kind
            so.kernel = Kernel(kh, kh, sy, sy, 1, rng.choice([1, 1, 2]) if kh > 1 else 1)
            so.ifm = sc.SchedulerTensor(Shape4D(ifm_shape), dt, MemArea.Sram, cur_t.format)
            so.ofm = sc.SchedulerTensor(Shape4D(out_shape), dt, MemArea.Sram, fmt)
            so.ifm2 = None
            ifm2_t = None
            if kind == Op.Add:
                ifm2_t = tensor(f"c{k}_{i}", cur_shape if rng.random() < 0.6 else [1, 1, 1, cur_shape[3]], TensorFormat.NHWC)
                if rng.random() < 0.7:
                    ifm2_t.ops = [types.SimpleNamespace(type=Op.Const)]
                so.ifm2 = sc.SchedulerTensor(Shape4D(ifm2_t.shape), dt, MemArea.Sram, TensorFormat.NHWC)
            so.requires_full_ifm = (i == 0 and rng.random() < 0.8) or rng.random() < 0.04
            so.requires_full_ifm2 = False
            so.requires_full_ofm = (i == nops - 1 and rng.random() < 0.8) or rng.random() < 0.04
            attrs = {}
            if kh > 1 and rng.random() < 0.8:
                top = (kh - 1) // 2
                attrs["skirt"] = (top, 0, kh - 1 - top + rng.choice([0, 0, 1, 2]), 0)
            if rng.random() < 0.04:
                attrs["padding"] = Padding.TILE
            so.parent_op = types.SimpleNamespace(
                type=kind, attrs=attrs, read_offsets=[None if rng.random() < 0.95 else Shape4D([0, 1, 0, 0]), None],
                ifm=cur_t, ifm2=ifm2_t, ofm=out_t, memory_function=None,
                ifm_shapes=[Shape4D(ifm_shape)] + ([Shape4D(ifm2_t.shape)] if ifm2_t is not None and len(ifm2_t.shape) == 4 else []),
                ofm_shapes=[Shape4D(out_shape)])
            so.ofm.connection = types.SimpleNamespace(consumers=[])
            ops.append(so)
            cur_shape, cur_t = out_shape, out_t
        outside = object.__new__(sc.SchedulerOperation)
        outside.index = 99
        for i, so in enumerate(ops):
            r = rng.random()
            if i + 1 < len(ops) and r < 0.85:
                so.ofm.connection.consumers = [ops[i + 1]]
            elif i + 1 < len(ops) and r < 0.92:
                so.ofm.connection.consumers = [ops[i + 1], ops[min(i + 2, len(ops) - 1)]]
            elif r < 0.96:
                so.ofm.connection.consumers = [outside]
        builder_ops = ops if rng.random() < 0.85 else ops[rng.randint(0, 1):rng.randint(len(ops) - 1, len(ops))]

        def cost_for(so, full):
            oh = _i(so.ofm.shape.height)
            sh = oh if full else rng.choice([1, 1, 2, 3, 4, max(1, oh // 2), oh if rng.random() < 0.3 else 2])
            kd = so.kernel.area_height()
            ih = min(_i(so.ifm.shape.height), (sh - 1) * so.kernel.stride.y + kd) if sh != oh else _i(so.ifm.shape.height)
            ci = types.SimpleNamespace(stripe=so.ofm.shape.with_height(sh), stripe_input=so.ifm.shape.with_height(max(ih, 0 if rng.random() < 0.01 else 1)),
                                       cascade=0, buffered_weight_tensors=[])
            if not full and so.op_type in (Op.Conv2DBias, Op.DepthwiseConv2DBias) and rng.random() < 0.5:
                for j in range(rng.choice([1, 1, 2])):
                    ci.buffered_weight_tensors.append(Tensor([1, 1, 1, 16 * rng.randint(1, 200)], DataType.uint8, f"w{k}_{j}"))
            return ci

        ref = types.SimpleNamespace(cost_map={so: cost_for(so, False) for so in builder_ops if rng.random() < 0.985}, cascades={}, label=f"stubref{k}")
        fb = types.SimpleNamespace(cost_map={so: cost_for(so, True) for so in ops if rng.random() < 0.995}, cascades={}, label=f"stubfb{k}")
        spilling = rng.random() < 0.4
        nl = {so: rng.choice([0, 0, 1024, 4096, -512, 100000]) for so in builder_ops if rng.random() < 0.5}
        sizes = [so.ofm_size_in_bytes() for so in ops]
        est = 8 * w * 32 * (2 if dt == DataType.int16 else 1)        # about one rolling buffer
        limit = int(rng.choice([0, 0, est // 2, est, 2 * est, 4 * est, min(sizes), min(sizes), max(sizes), sum(sizes) // 2, 1 << 30])
                    * rng.choice([0.5, 1, 1, 1.5]))
        outcome = None
        try:
            cb.CascadeBuilder(builder_ops, spilling, nl).build_cascades(ref, fb, limit)
        except KeyError:
            outcome = "err:key"
        except ZeroDivisionError:
            outcome = "err:value"
        except AssertionError:
            outcome = "err:assert"
        out = {"idx": k, "profile": "stub_builder", "seed": -1, "opts": [], "desc": f"generated chain of {nops} operations, spilling={spilling} limit={limit}"}
        if outcome is not None and _rec == []:
            # the call raised: the wrapper's `before` record is the request, the exception the real outcome
            out["sched"] = {"records": [dict(_pending_build[0], real=outcome)] if _pending_build else [], "spec": [], "errors": list(_errors), "meta": {}}
        else:
            out["sched"] = extra(None)
        outs.append(out)
    return outs


def stub_tusage(rng, n):
    """n generated LiveRange lists through the REAL LiveRangeGraph.get_temporal_memory_usage: unmarked ranges, ranges of another
    memory area, ranges ending at / beyond the last tick (clipped slice, the assertion)"""
    from ethosu.vela import live_range
    from ethosu.vela.data_type import DataType
    from ethosu.vela.tensor import MemArea, Tensor

    install()
    outs = []
    for k in range(n):
        _reset()
        g = live_range.LiveRangeGraph()
        g.current_time = rng.choice([0, 2, 4, 10, 30])
        for i in range(rng.randint(0, 12)):
            t = Tensor([1, 1, 1, 16], DataType.int8, f"u{k}_{i}")
            t.mem_area = rng.choice([MemArea.Sram] * 5 + [MemArea.Dram])
            lr = live_range.LiveRange(t, 16)
            if rng.random() < 0.85:
                a = rng.randint(0, g.current_time + 1)
                lr.start_time, lr.end_time = a, a + rng.choice([0, 1, 1, 3, g.current_time + 2 - a, g.current_time + 3 - a])
            lr.size = rng.choice([16, 1024, 65536, (1 << 30) + 16, 2147483632])
            g.lrs.append(lr)
        outcome = None
        try:
            g.get_temporal_memory_usage(MemArea.Sram)
        except AssertionError:
            outcome = "err:assert"
        out = {"idx": k, "profile": "stub_tusage", "seed": -1, "opts": [], "desc": "generated live ranges"}
        if outcome is not None:
            lrs = ",".join(f"{_i(lr.start_time)}:{_i(lr.end_time) + 1}:{_i(lr.size)}:{int(lr.mem_area == MemArea.Sram)}" for lr in g.lrs)
            out["sched"] = {"records": [{"kind": "tusage", "line": f"tusage ct={_i(g.current_time)} L={lrs}", "real": outcome}], "spec": [],
                            "errors": list(_errors), "meta": {}}
        else:
            out["sched"] = extra(None)
        outs.append(out)
    return outs


def replay(ck):
    """--replay of a violation found on one of the networks of harness/sched_nets.py"""
    import json

    import common

    if not ck.replay_arg:
        return False
    r = json.load(open(ck.replay_arg))
    rp = r.get("replay", r)
    if rp.get("profile") != "sched_nets":
        return False
    out = _worker((rp["seed"], rp["index"]))
    if "harness_exception" in out:
        raise common.InfraError(out["harness_exception"])
    st = stage(ck, [out])
    ck.finish(dict(st, programs=1, evaluations=st["sched_model_requests"] + st["sched_spec_requests"],
                   distinct_nontrivial=st["sched_distinct_nontrivial"], rule="replay of one network of harness/sched_nets.py", exhaustive=False))
    return True


def extra_with(other):
    """combine with another stage's `extra` (the compilations of the check itself)"""
    def f(res):
        return {"sched": extra(res), "other": other(res) if other else None}
    return f


KNOWN_KEYS = {"guide_limit": "dedicated-sram-size-guide-limit-above-arena-cache"}

TITLES = {"buffer": "rolling buffer of an accepted cascade is not sufficient for the stripes of the schedule it belongs to",
          "estimate": "the memory the cascade builder attributed to an accepted cascade is below the bytes in use at its time index",
          "snapshot": "memory snapshot entry differs from the bytes in use at that tick (tick:snapshot:in use)",
          "fast_fits": "fast storage exceeds the staging limit at a tick where movable feature maps are kept (tick:final:fixed)",
          "move": "a feature map that is referred to outside the NPU subgraph was placed in fast storage",
          "spill_limit": "Dedicated SRAM: an accepted cascade's buffers exceed the limit the builder was given",
          "accept_limit": "optimize_sub_schedule accepted a proposal whose estimate exceeds the limit",
          "wbuf_fits": "weight buffers exceed the slack they were sized for",
          "fast_extent": "Dedicated SRAM: fast-scratch extent exceeds the arena cache size",
          "guide_limit": "Dedicated SRAM: the cascade builder's hard limit exceeds the arena cache size"}


def extra_c12(res):
    """want['extra'] of check_C12: its own record (live ranges + in-place chain) with this stage's record added"""
    import inplace_lib

    d = inplace_lib.extra_with_liverange(res)
    d["sched"] = extra(res)
    return d


def stage(ck, outs, prefix="sched_"):
    """outs: worker outputs that carry o['sched'] (own corpus) or o['extra']['sched'] (compilations of the check)."""
    import re
    import time

    import common

    import pending

    for k, what in pending.pending_keys("C12").items():
        if not any(x["key"] == k for x in ck.known):
            ck.known.append({"property": ck.pid, "key": k, "what": what})
    t0 = time.time()
    recs, owners = [], []
    specs, sowners = [], []
    for o in outs:
        s = o.get("sched")
        if s is None and isinstance(o.get("extra"), dict):
            s = o["extra"].get("sched")
        if not s:
            continue
        for e in s["errors"]:
            raise common.InfraError("scheduler-bookkeeping harness failed inside a worker:\n" + e)
        for r in s["records"]:
            recs.append(r)
            owners.append(o)
        for sp in s["spec"]:
            specs.append(sp)
            sowners.append(o)
        meta = s.get("meta") or {}
        # the allocation the schedule leads to, shared SRAM: arena total against the optimisation target (a soft limit: Vela warns)
        if meta.get("spilling") is False and meta.get("alloc"):
            ck.count(prefix + "shared_sram_compilations")
            if meta["alloc"][0]["total"] > meta.get("sram_target", 1 << 62):
                ck.count(prefix + "shared_sram_total_exceeds_target_" + str(meta.get("strategy", "?")).split(".")[-1])
        # the allocation the schedule leads to, Dedicated SRAM: fast-scratch total against the configured cache
        if meta.get("spilling"):
            ck.count(prefix + "dedicated_sram_compilations")
            fast = [a for a in meta.get("alloc", []) if a["types"] == ["Scratch_fast"]]
            if fast:
                over = fast[0]["total"] > meta["cache"]
                if over:
                    ck.count(prefix + "dedicated_fast_total_exceeds_cache")
                    ck.count(prefix + "dedicated_fast_total_exceeds_cache_status_" + str(o.get("status")))
                    if o.get("status") == "ok" and o.get("extents", {}).get(2, 0) > meta["cache"]:
                        specs.append({"kind": "fast_extent", "line": f"smle {o['extents'].get(2, 0)} {meta['cache']}",
                                      "what": f"Dedicated_Sram: published fast-scratch extent {o['extents'].get(2)} exceeds arena cache {meta['cache']}"})
                        sowners.append(o)
    def rp(o, extra_):
        d = {"profile": o["profile"], "seed": o["seed"], "index": o["idx"], "opts": o.get("opts"), "network": o.get("desc")}
        d.update(extra_)
        return d

    answers = ck.model([r["line"] for r in recs]) if recs else []
    sans = ck.model([s["line"] for s in specs]) if specs else []
    # Lean Spec on the real values first: a rejection is a failing input
    rejected = {}
    nspec = {}
    for s, o, a in zip(specs, sowners, sans):
        nspec[s["kind"]] = nspec.get(s["kind"], 0) + 1
        ok = True
        detail = a
        if s["kind"] == "buffer":
            m = re.match(r"suff=(\d) eq=(\d)", a)
            if not m:
                raise common.InfraError("unexpected smbuf answer " + a)
            ok = m.group(1) == "1"
            if ok and m.group(2) != "1":
                ck.count(prefix + "buffer_sufficient_but_not_rolling_buffer_shape")
        elif a.startswith("err"):
            raise common.InfraError(f"Spec request failed: {a}: {s['line'][:300]}")
        else:
            ok = a.split(" ")[0] == "1"
        if s["kind"] == "estimate" and ok:
            if int(a.split("usage=")[1]) == s["exact"]:
                ck.count(prefix + "estimate_exact")
            else:
                ck.count(prefix + "estimate_above_usage")
        if not ok:
            rejected.setdefault((o["profile"], o["idx"], o["seed"]), []).append((s, a))
    for key, lst in rejected.items():
        o = next(o for o in sowners if (o["profile"], o["idx"], o["seed"]) == key)
        by_kind = {}
        for s, a in lst:
            by_kind.setdefault(s["kind"], []).append((s, a))
        for kind, l2 in by_kind.items():
            s, a = l2[0]
            ck.violation(f"scheduler bookkeeping: {TITLES.get(kind, kind)}: {s['what']} -> {a} "
                         f"({len(l2)} rejection(s) in network {o['idx']} {o['profile']} {o.get('opts')})",
                         rp(o, {"spec_request": s["line"][:4000], "verdict": a, "all": [(x["kind"], y) for x, y in lst[:8]]}),
                         found_input=True, key=KNOWN_KEYS.get(kind))
    # a rejection that is a recorded finding does not make a model/code disagreement on the same network a failing input
    rejected = {k: [x for x in v if not (KNOWN_KEYS.get(x[0]["kind"]) and ck.finding_key_known(KNOWN_KEYS[x[0]["kind"]]) is not None)]
                for k, v in rejected.items()}
    rejected = {k: v for k, v in rejected.items() if v}
    # model = real
    disagreements = []
    kinds = {}
    nontrivial = set()
    for r, o, a in zip(recs, owners, answers):
        kinds[r["kind"]] = kinds.get(r["kind"], 0) + 1
        real = r["real"]
        model = a
        if r["kind"] == "bcasc":
            model = re.sub(r"^ok peak=-?\d+ ", "", a)
            if "casc=" in real and real.split("casc=")[1]:
                nontrivial.add(r["line"])
                ck.count(prefix + "build_cascades_with_cascade")
            if not r.get("ref_keys_in_ops", True):
                ck.count(prefix + "ref_cost_keys_outside_builder_ops")
        elif r["kind"] == "fast":
            m = re.match(r"ok wf=(\d) entered=(\d) evicted=(\S*) kept=(\S*) fms=(\S*) ", a)
            if m:
                model = f"evicted={m.group(3)} kept={m.group(4)} fms={m.group(5)}"
                if m.group(1) != "1":
                    ck.count(prefix + "fast_storage_outside_theorem_hypotheses")
                if m.group(2) == "1":
                    ck.count(prefix + "fast_storage_over_limit")
                    nontrivial.add(r["line"])
                if r.get("competing"):
                    ck.count(prefix + "fast_storage_with_competition")
                if r.get("n", 0) > 20 and r.get("competing"):
                    ck.count(prefix + "fast_storage_more_than_20_ranges")
            if real.startswith("err:"):
                ck.count(prefix + "fast_storage_outcome_" + real[4:])
        elif r["kind"] == "optsub":
            if r.get("accepted"):
                ck.count(prefix + "optimize_sub_schedule_accepted")
            ck.count(prefix + "optimize_sub_schedule_proposals", r.get("nprop", 0))
            nontrivial.add(r["line"])
        elif r["kind"] == "wbuf" and r.get("buffered"):
            ck.count(prefix + "weight_buffering_buffered")
        if model != real:
            disagreements.append((r, o, model))
    seen_kind = set()
    for r, o, model in disagreements:
        if r["kind"] in seen_kind:
            continue
        seen_kind.add(r["kind"])
        key = (o["profile"], o["idx"], o["seed"])
        names = {"bcasc": "Model/SchedMem.buildCascades = CascadeBuilder.build_cascades", "optsub": "Model/SchedMem.optimizeSubSchedule / subNonLocal = Scheduler.optimize_sub_schedule",
                 "minnl": "Model/SchedMem.minNonLocal = Scheduler.build_cascades_for_min_schedule", "tusage": "Model/SchedMem.temporalUsage = LiveRangeGraph.get_temporal_memory_usage",
                 "fast": "Model/SchedMem.useFastStorage = Scheduler.use_fast_storage_for_feature_maps", "ffast": "Model/SchedMem.forcedToFast = the loop 'Force all OFMs to fast-storage'",
                 "opbuf": "Model/SchedMem.operatorBuffering = Scheduler.propose_operator_buffering",
                 "maxfits": "Model/SchedMem.maxScheduleFits = the first test of Scheduler.optimize_schedule",
                 "sinfo": "Model/SchedMem.stripeInputs = SchedulerOperation.create_scheduler_info (stripe_input, stripe_input2)", "wbuf": "Model/SchedMem.weightBufferDecision = tail of Scheduler.propose_weight_buffering"}
        same = [x for x in disagreements if x[0]["kind"] == r["kind"]]
        # failing-input search: does the Lean Spec reject the real values of a network on which model and code disagree?
        hit = next((x for x in same if (x[1]["profile"], x[1]["idx"], x[1]["seed"]) in rejected), None)
        if hit is not None:
            r, o, model = hit
            key = (o["profile"], o["idx"], o["seed"])
        ck.violation(f"scheduler bookkeeping: model and code disagree on {r['kind']} ({len(same)} call(s)): model {model[:300]} real {r['real'][:300]} "
                     f"(network {o['idx']} {o['profile']} {o.get('opts')})",
                     rp(o, {"correspondence": names.get(r["kind"]), "request": r["line"][:6000], "real": r["real"][:3000], "model": model[:3000],
                            "spec_rejects_same_network": key in rejected}),
                     found_input=key in rejected)
    stats = {prefix + "stage_s": round(time.time() - t0, 2), prefix + "model_requests": len(recs), prefix + "spec_requests": len(specs),
             prefix + "distinct_nontrivial": len(nontrivial), prefix + "disagreements": len(disagreements),
             prefix + "spec_rejections": sum(len(v) for v in rejected.values()),
             prefix + "requests_by_kind": kinds, prefix + "spec_by_kind": nspec}
    return stats
