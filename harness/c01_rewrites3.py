"""C01, rewrite streams, third part: correspondence of `lean/VelaVerif/Model/Rewrites3.lean` with the REAL rewrites of the graph
optimiser (RESIZE of a 1x1 input -> ADD, AVERAGE_POOL with a wide stride -> CONV_2D, SHAPE -> constant, UNPACK -> reshaped split),
called in-process on operators built from the repo's own classes.

Same scheme as `c01_rewrites2.py`: the real function is called and what it leaves behind is serialised; the Lean model answers the
same request (`rw3_*`); the Lean reference semantics (`rwsem3_*`, `Spec/RewriteSem3.lean`) is applied to the REAL output. Every
verdict is an answer line of the Lean driver."""
import fractions

import numpy as np

from c01_rewrites import Streams, f32bits
from c01_rewrites2 import csv


class Streams3(Streams):
    # ---- 15. RESIZE of a 1x1 input -----------------------------------------------------------------------
    def stream_resize1x1(self, n):
        from ethosu.vela import tflite_graph_optimiser as go
        from ethosu.vela.data_type import DataType
        from ethosu.vela.operation import Op
        from ethosu.vela.shape4d import Shape4D
        from ethosu.vela.tensor import create_const_tensor

        ck, rng = self.ck, self.rng
        rows = []
        for i in range(n):
            bilinear = rng.random() < 0.5
            align = rng.random() < 0.3
            half = (not align) and rng.random() < 0.4
            r = rng.random()
            C = rng.choice([1, 2, 3, 8])
            if r < 0.8:
                H, W = 1, 1
                OH, OW = rng.randint(1, 6), rng.randint(1, 6)
                if (OH, OW) == (1, 1) and rng.random() < 0.7:
                    OW = 2
            elif r < 0.9:
                H, W = rng.randint(1, 4), rng.randint(1, 4)
                OH, OW = H, W
            else:
                H, W = rng.choice([(1, 2), (2, 1), (2, 2), (3, 2)])
                OH, OW = 2 * H, 2 * W
            dt = rng.choice([DataType.int8, DataType.int8, DataType.uint8, DataType.int16])
            lo, hi = self.qrange(dt)
            zp = 0 if dt == DataType.int16 else rng.randint(lo, hi)
            scale = self.rand_scale()
            ifm = self.tens([1, H, W, C], dt, scale, zp, "ifm")
            ofm = self.tens([1, OH, OW, C], dt, scale, zp, "ofm")
            size_t = create_const_tensor("size", [2], DataType.int32, [OH, OW])
            attrs = {"align_corners": align, "half_pixel_centers": half}
            op = self.testutil.create_op(Op.ResizeBilinear if bilinear else Op.ResizeNearestNeighbor, [ifm, size_t], ofm, attrs)
            op.run_on_npu = True
            reshaped = rng.random() < 0.15
            if reshaped:      # a RESHAPE behind the resize has been bypassed: the OFM tensor carries the reshaped shape
                ofm.shape = [1, OH * OW, C]
            called = []
            saved = (go.convert_resize_to_upscale_and_average_pool, go.convert_resizebilinear_to_depthwise_convolutions, go.bypass_memory_only_ops)
            go.convert_resize_to_upscale_and_average_pool = lambda o: called.append("chain") or o
            go.convert_resizebilinear_to_depthwise_convolutions = lambda o: called.append("halfpixel") or o
            go.bypass_memory_only_ops = lambda o, a, g: called.append("identity") or o
            sem = None
            try:
                out = go.fixup_resize(op, self.arch, None)
                if called:
                    real = called[0] if len(called) == 1 else "?routes" + str(called)
                elif out.type == Op.Add:
                    cst = out.inputs[0]
                    vals = np.asarray(cst.values)
                    q = cst.quantization
                    uniform = vals.size > 0 and bool((vals == vals.flat[0]).all())
                    ok_struct = out is op and out.inputs[1] is ifm and len(out.inputs) == 2 and out.outputs[0] is ofm and cst.dtype == dt and \
                        cst.ops and cst.ops[0].type == Op.Const and list(vals.shape) == list(cst.shape) and uniform and \
                        out.original_type in (Op.ResizeBilinear, Op.ResizeNearestNeighbor) and len(out.ifm_shapes) == 2
                    fill = int(vals.flat[0]) if vals.size else 0
                    real = (f"add {csv(cst.shape)} {fill} {f32bits(q.scale_f32)} {int(q.zero_point)} {csv(out.ifm_shapes[0].as_list())} "
                            f"{csv(out.ifm_shapes[1].as_list())} {csv(out.ofm_shapes[0].as_list())}")
                    if not ok_struct:
                        real = "?structure " + real
                    sem = (f"rwsem3_resize1x1 {self.dtname(dt)} {f32bits(ifm.quantization.scale_f32)} {f32bits(ofm.quantization.scale_f32)} "
                           f"{int(ifm.quantization.zero_point)} {int(ofm.quantization.zero_point)} {f32bits(q.scale_f32)} {int(q.zero_point)} {fill}")
                else:
                    real = "?type " + str(out.type)
            except Exception as e:  # noqa: B902
                real = "raises:" + type(e).__name__ + ":" + str(e)[:50]
            finally:
                (go.convert_resize_to_upscale_and_average_pool, go.convert_resizebilinear_to_depthwise_convolutions, go.bypass_memory_only_ops) = saved
            desc = ("bilinear" if bilinear else "nearest", align, half, self.dtname(dt), H, W, C, OH, OW, reshaped, f32bits(scale), zp)
            rows.append((desc, f"rw3_resize1x1 {int(bilinear)} {int(half)} 1,{H},{W},{C} 1,{OH},{OW},{C}", real, sem))
        outs = self.model([r[1] for r in rows])
        sem_outs = iter(self.model([r[3] for r in rows if r[3] is not None]))
        for (desc, rq, real, sq), m in zip(rows, outs):
            self.evaluations += 1
            sm = next(sem_outs) if sq is not None else "not-an-add"
            ck.count("rw3_resize1x1_cases")
            ck.count("rw3_resize1x1_" + m.split()[0])
            self.nontrivial.add(("resize1x1",) + desc)
            if m != real or sm.startswith("fail") or sm.startswith("err"):
                self.disagree("fixup_resize/convert_resize_1x1_to_add", f"kind,align,half,dtype,H,W,C,OH,OW,reshaped,scale,zp={desc}: model '{m}', real '{real}'",
                              {"stream": "resize1x1", "case": desc, "request": rq, "semantic_request": sq}, sm)

    # ---- 16. AVERAGE_POOL with a wide stride ---------------------------------------------------------------
    def stream_avgpool(self, n):
        from ethosu.vela import tflite_graph_optimiser as go
        from ethosu.vela.data_type import DataType
        from ethosu.vela.operation import Op, Padding, RoundingMode
        from ethosu.vela.shape4d import Shape4D

        ck, rng = self.ck, self.rng
        rows = []
        for i in range(n):
            is_avg = rng.random() < 0.92
            kh, kw = rng.choice([(1, 2), (2, 2), (2, 3), (1, 3), (3, 3), (2, 4), (1, 4), (1, 1), (5, 2), (2, 5)])
            sy = rng.choice([1, 1, 2, 3])
            sx = rng.choice([1, 2, 3, 4, 4, 4, 5, 6, 8])
            C = rng.choice([1, 2, 3, 4])
            oh, ow = rng.randint(1, 3), rng.randint(1, 3)
            H, W = (oh - 1) * sy + kh + rng.randint(0, sy - 1), (ow - 1) * sx + kw + rng.randint(0, sx - 1)
            dt = rng.choice([DataType.int8, DataType.uint8])
            lo, hi = self.qrange(dt)
            zp = rng.randint(lo, hi)
            scale = self.rand_scale()
            ifm = self.tens([1, H, W, C], dt, scale, zp, "ifm")
            ofm = self.tens([1, oh, ow, C], dt, scale, zp, "ofm")
            attrs = {"padding": Padding.VALID, "stride_w": sx, "stride_h": sy, "strides": (1, sy, sx, 1), "filter_width": kw, "filter_height": kh,
                     "ksize": (1, kh, kw, 1)}
            op = self.testutil.create_op(Op.AvgPool if is_avg else Op.MaxPool, [ifm], ofm, attrs)
            op.run_on_npu = True
            reshaped = rng.random() < 0.15
            if reshaped:      # a RESHAPE behind the pool has been bypassed: the OFM tensor carries the reshaped shape
                ofm.shape = [1, oh * ow * C]
            sem = None
            try:
                out = go.convert_avg_pool_to_conv2d(op, self.arch, None)
                if out is op and out.type == Op.Conv2DBias:
                    wt = out.inputs[1]
                    wv = np.asarray(wt.values)
                    q = wt.quantization
                    fr = fractions.Fraction(float(q.scale_f32))
                    exact = fr == fractions.Fraction(1.0 / (kh * kw))        # the Python double 1 / (h * w)
                    a = out.attrs
                    ok_struct = len(out.inputs) == 2 and out.inputs[0] is ifm and out.outputs[0] is ofm and out.rounding_mode == RoundingMode.AwayZero and \
                        int(q.zero_point) == 0 and wt.dtype == dt and list(wv.shape) == list(wt.shape) and \
                        (a["dilation_h_factor"], a["dilation_w_factor"], tuple(a["dilation"])) == (1, 1, (1, 1, 1, 1)) and a["padding"] == Padding.VALID and \
                        tuple(a["strides"]) == (1, a["stride_h"], a["stride_w"], 1) and out.ofm_shapes[0] == Shape4D([1, oh, ow, C]) and \
                        out.ifm_shapes[0] == Shape4D([1, H, W, C]) and out.original_type == Op.AvgPool
                    shp = list(wt.shape)
                    den = kh * kw if exact else 0
                    real = f"ok {shp[0]} {shp[1]} {shp[3]} {den} {a['stride_h']} {a['stride_w']}"
                    if not ok_struct or len(shp) != 4 or shp[2] != shp[3]:
                        real = "?structure " + real
                    elif wv.size <= 4000:
                        sem = (f"rwsem3_avgpool {int(dt == DataType.int8)} {H} {W} {C} {kh} {kw} {sy} {sx} 0 {csv(wv.reshape(-1))} {den} {rng.getrandbits(16)}")
                elif out is op and out.type == (Op.AvgPool if is_avg else Op.MaxPool) and len(out.inputs) == 1:
                    real = "none"
                else:
                    real = f"?half-converted type={out.type}"
            except Exception as e:  # noqa: B902
                real = "raises:" + type(e).__name__ + ":" + str(e)[:50]
            desc = (is_avg, self.dtname(dt), H, W, C, kh, kw, sy, sx, reshaped)
            rows.append((desc, f"rw3_avgpool {int(is_avg)} {kh} {kw} {sy} {sx} {C}", real, sem))
        outs = self.model([r[1] for r in rows])
        sem_outs = iter(self.model([r[3] for r in rows if r[3] is not None]))
        for (desc, rq, real, sq), m in zip(rows, outs):
            self.evaluations += 1
            sm = next(sem_outs) if sq is not None else "not-rewritten"
            ck.count("rw3_avgpool_cases")
            ck.count("rw3_avgpool_" + m.split()[0])
            if sm.startswith("ok ties="):
                ck.count("rw3_avgpool_elements_on_a_tie", int(sm.split("=")[1])) if int(sm.split("=")[1]) else None
            self.nontrivial.add(("avgpool",) + desc)
            if m != real or sm.startswith("fail") or sm.startswith("err"):
                self.disagree("convert_avg_pool_to_conv2d", f"is_avg,dtype,H,W,C,kh,kw,sy,sx,reshaped={desc}: model '{m}', real '{real}'",
                              {"stream": "avgpool", "case": desc, "request": rq, "semantic_request": sq}, sm)

    # ---- 17. SHAPE -> constant -------------------------------------------------------------------------
    def stream_shape(self, n):
        from ethosu.vela import tflite_graph_optimiser as go
        from ethosu.vela.data_type import DataType
        from ethosu.vela.operation import Op

        ck, rng = self.ck, self.rng
        rows = []
        for i in range(n):
            rank = rng.choice([1, 2, 3, 4, 4])
            shape = [rng.randint(1, 9) for _ in range(rank)]
            olen = rank if rng.random() < 0.85 else rng.choice([rank + 1, max(rank - 1, 1), 1])
            is_shape = rng.random() < 0.9
            npu = rng.random() < 0.85
            ifm = self.tens(shape, DataType.int8, 0.05, 0, "ifm")
            ofm = self.tens([olen], DataType.int32, 1.0, 0, "ofm")
            # other readers of the IFM, before and after the SHAPE operator in the consumer list
            k_before, k_after = rng.randint(0, 2), rng.randint(0, 2)
            idx = list(range(10, 10 + k_before + k_after + 1))
            rng.shuffle(idx)
            others = []
            for j in range(k_before):
                o = self.testutil.create_op(Op.Relu, [ifm], self.tens(shape, DataType.int8, 0.05, 0, f"r{j}"))
                o.op_index = idx.pop()
                others.append(o)
            op = self.testutil.create_op(Op.Shape if is_shape else Op.Abs, [ifm], ofm, {}, set_ifm_ofm_shapes=False)
            op.op_index = idx.pop()
            op.run_on_npu = npu
            for j in range(k_after):
                o = self.testutil.create_op(Op.Relu, [ifm], self.tens(shape, DataType.int8, 0.05, 0, f"s{j}"))
                o.op_index = idx.pop()
                others.append(o)
            if rng.random() < 0.3:       # the IFM is a subgraph output as well
                ifm.consumer_list.insert(rng.randint(0, len(ifm.consumer_list)), None)
            cons = ["n" if c is None else str(c.op_index) for c in ifm.consumer_list]
            before = list(ifm.consumer_list)
            try:
                out = go.convert_shape_op_to_constant_tensor(op, self.arch, None)
                if out is op and out.type == Op.Const and out.inputs == []:
                    left = ["n" if c is None else str(c.op_index) for c in ifm.consumer_list]
                    vals = [int(v) for v in np.asarray(ofm.values).reshape(-1)]
                    real = f"ok {','.join(left) if left else '-'} {csv(vals)}"
                    if ofm.ops != [op] or any(c is op for c in ifm.consumer_list):
                        real = "?structure " + real
                elif out is op and out.type == (Op.Shape if is_shape else Op.Abs) and out.inputs == [ifm] and ifm.consumer_list == before:
                    real = "none"
                else:
                    real = f"?half-converted type={out.type} inputs={len(out.inputs)}"
            except Exception as e:  # noqa: B902
                real = "raises:" + type(e).__name__ + ":" + str(e)[:50]
            desc = (is_shape, npu, tuple(shape), olen, tuple(cons), op.op_index)
            rows.append((desc, f"rw3_shape {int(is_shape)} {int(npu)} {op.op_index} {csv(shape)} {olen} {','.join(cons) if cons else '-'}", real))
        outs = self.model([r[1] for r in rows])
        for (desc, rq, real), m in zip(rows, outs):
            self.evaluations += 1
            ck.count("rw3_shape_cases")
            ck.count("rw3_shape_" + m.split()[0])
            self.nontrivial.add(("shape",) + desc)
            if m != real:
                self.disagree("convert_shape_op_to_constant_tensor", f"is_shape,npu,shape,ofm len,consumers,op_index={desc}: model '{m}', real '{real}'",
                              {"stream": "shape", "case": desc, "request": rq}, "no-semantic-evaluation")

    # ---- 18. UNPACK ------------------------------------------------------------------------------------
    def stream_unpack(self, n):
        from ethosu.vela import tflite_graph_optimiser as go
        from ethosu.vela.data_type import DataType
        from ethosu.vela.operation import Op

        ck, rng = self.ck, self.rng
        rows = []
        for i in range(n):
            rank = rng.choice([1, 2, 3, 3, 4, 4])
            shape = [rng.randint(1, 5) for _ in range(rank)]
            axis = rng.randint(-rank, rank - 1)
            pos = axis % rank
            num = shape[pos]
            oshape = shape[:pos] + shape[pos + 1:]
            is_unpack = rng.random() < 0.92
            npu = rng.random() < 0.9
            ifm = self.tens(shape, DataType.int8, 0.05, 0, "ifm")
            outs_t = [self.tens(oshape, DataType.int8, 0.05, 0, f"o{j}") for j in range(num)]
            op = self.testutil.create_op(Op.Unpack if is_unpack else Op.Split, [ifm], outs_t[0], {"axis": axis, "num": num}, set_ifm_ofm_shapes=False)
            for t in outs_t[1:]:
                op.add_output_tensor(t) if hasattr(op, "add_output_tensor") else op.outputs.append(t)
                t.ops = [op]
            op.set_ifm_ofm_shapes()
            op.run_on_npu = npu
            shapes_before = [s.as_list() for s in op.ofm_shapes]
            try:
                out = go.rewrite_unpack_output(op, self.arch, None)
                if out is op and out.type == Op.UnpackReshaped:
                    ax = out.attrs["split_axis_4D"]
                    shp = [s.as_list() for s in out.ofm_shapes]
                    ok_struct = len(ax) == num and len(set(ax)) == 1 and len(shp) == num and all(s == shp[0] for s in shp) and \
                        out.inputs == [ifm] and out.outputs == outs_t
                    real = f"ok {int(ax[0])} {csv(shp[0])}"
                    if not ok_struct:
                        real = "?structure " + real
                elif out is op and out.type == (Op.Unpack if is_unpack else Op.Split) and [s.as_list() for s in out.ofm_shapes] == shapes_before \
                        and "split_axis_4D" not in out.attrs:
                    real = "none"
                else:
                    real = f"?half-converted type={out.type}"
            except Exception as e:  # noqa: B902
                real = "raises:" + type(e).__name__ + ":" + str(e)[:50]
            desc = (is_unpack, npu, tuple(shape), axis)
            rows.append((desc, f"rw3_unpack {int(is_unpack)} {int(npu)} {axis} {rank} {csv(oshape)}", real,
                         f"rwsem3_unpack {csv(shape)} {pos} {real.split()[1]} {real.split()[2]}" if real.startswith("ok ") else None))
        outs = self.model([r[1] for r in rows])
        sem_outs = iter(self.model([r[3] for r in rows if r[3] is not None]))
        for (desc, rq, real, sq), m in zip(rows, outs):
            self.evaluations += 1
            sm = next(sem_outs) if sq is not None else "not-rewritten"
            ck.count("rw3_unpack_cases")
            ck.count("rw3_unpack_" + m.split()[0])
            self.nontrivial.add(("unpack",) + desc)
            if m != real or sm.startswith("fail") or sm.startswith("err"):
                self.disagree("rewrite_unpack_output", f"is_unpack,npu,shape,axis={desc}: model '{m}', real '{real}'",
                              {"stream": "unpack", "case": desc, "request": rq, "semantic_request": sq}, sm)

    # ---- 19. PACK (branch of rewrite_concat_ops) ---------------------------------------------------------
    def stream_pack(self, n):
        from ethosu.vela import tflite_graph_optimiser as go
        from ethosu.vela.data_type import DataType
        from ethosu.vela.operation import Op

        ck, rng = self.ck, self.rng
        rows = []
        for i in range(n):
            rank = rng.choice([1, 2, 2, 3, 3])
            shape = [rng.randint(1, 5) for _ in range(rank)]
            axis = rng.randint(-(rank + 1), rank)
            pos = axis % (rank + 1)
            count = rng.randint(1, 4)
            oshape = shape[:pos] + [count] + shape[pos:]
            if rng.random() < 0.06:      # an OFM that does not hold `count` entries along the axis: the function's assertion
                oshape[pos] += 1
            ins = [self.tens(shape, DataType.int8, 0.05, 1, f"in{j}") for j in range(count)]
            ofm = self.tens(oshape, DataType.int8, 0.05, 1, "ofm")
            op = self.testutil.create_op(Op.Pack, ins, ofm, {"axis": axis, "values_count": count})
            op.run_on_npu = True
            sem = None
            try:
                go.rewrite_concat_ops(op, self.arch)
                pools = list(ofm.ops)
                a4 = None
                offs, ok_struct = [], op.type == Op.PackReshaped and len(pools) == count and all(p.inputs[0] is t for p, t in zip(pools, ins))
                wl = [p.write_offset.as_list() for p in pools]
                shp = [s.as_list() for s in op.ifm_shapes[:count]]
                moving = sorted({j for w in wl for j, v in enumerate(w) if v != 0})
                # the 4-D axis is where the write offsets move; with a single input nothing moves: take the model's
                real_axes = moving if moving else None
                if len(moving) > 1 or any(s != shp[0] for s in shp) or any(p.write_shape.as_list() != shp[0] for p in pools):
                    ok_struct = False
                rows_axis = moving[0] if moving else None
                real = (rows_axis, shp[0], wl)
                realtxt = None
            except AssertionError:
                real, realtxt = None, "none"
            except Exception as e:  # noqa: B902
                real, realtxt = None, "raises:" + type(e).__name__ + ":" + str(e)[:50]
            else:
                if not ok_struct:
                    realtxt = f"?structure {real}"
            desc = (tuple(shape), axis, count, tuple(oshape))
            rows.append((desc, f"rw3_pack {axis} {csv(shape)} {count} {csv(oshape)}", real, realtxt))
        outs = self.model([r[1] for r in rows])
        sems, rows2 = [], []
        for (desc, rq, real, realtxt), m in zip(rows, outs):
            sq = None
            if realtxt is None:
                a4 = real[0] if real[0] is not None else (int(m.split()[1]) if m.startswith("ok ") else 0)
                realtxt = f"ok {a4} {csv(real[1])} {csv([w[a4] if 0 <= a4 < 4 else -1 for w in real[2]])}"
                sq = f"rwsem3_unpack {csv(desc[3])} {desc[1] % (len(desc[0]) + 1)} {a4} {csv(real[1])}"
            sems.append(sq)
            rows2.append((desc, rq, real, realtxt))
        rows = rows2
        sem_outs = iter(self.model([q for q in sems if q is not None]))
        for (desc, rq, real, realtxt), m, sq in zip(rows, outs, sems):
            self.evaluations += 1
            sm = next(sem_outs) if sq is not None else "not-rewritten"
            ck.count("rw3_pack_cases")
            ck.count("rw3_pack_" + m.split()[0])
            self.nontrivial.add(("pack",) + desc)
            if m != realtxt or sm.startswith("fail") or sm.startswith("err"):
                self.disagree("rewrite_concat_ops(Pack)", f"shape,axis,count,ofm shape={desc}: model '{m}', real '{realtxt}'",
                              {"stream": "pack", "case": desc, "request": rq, "semantic_request": sq}, sm)

    # ---- driver ------------------------------------------------------------------------------------
    def run(self):
        t = self.ck.thorough
        self.stream_resize1x1(1000 if t else 240)
        self.stream_avgpool(1500 if t else 300)
        self.stream_shape(1500 if t else 300)
        self.stream_unpack(1500 if t else 300)
        self.stream_pack(1000 if t else 240)


def run(ck, base=None):
    s = Streams3(ck)
    s.run()
    if base is not None:       # the totals of check_C01 are read from the first stream object
        base.evaluations += s.evaluations
        base.nontrivial |= s.nontrivial
        base.disagreements += s.disagreements
    return s
