"""C09, stream E: the "same quantisation" predicate of ethosu/vela/tensor.py.

`QuantizationParameters.is_scaling_equal` / `check_quantized_tens_scaling_equal` decide whether a requantising
(multiplier, shift) pair is derived at all.  The REAL functions are called on pairs of quantisations whose scales
are 0, 1, 2, ... k units in the last place of float32 / float64 apart (and relative 1e-7 .. 1e-4 apart), whose zero
points differ by 0 / 1, scalar and per-axis, in every mixture of Python float, np.float32, np.float64, 0-d / 1-d /
2-d arrays of both, lists, Python / NumPy integers and None.  Every verdict is Lean's:

  sceq / tsceq  : Model/ScalingEqual.lean (what the real function must answer)
  sceqspec      : Spec/ScalingEqual.lean on the implementation's own answer ("equal" only for quantisations that
                  denote the same numbers; the same numbers in the same shape must be recognised)

A value travels as the exact number it denotes (four integer tokens per element, see Handlers/Scaling.lean).
"""
import math

KINDS_F = ("p", "s", "d", "a0s", "a0d", "a1s", "a1d", "a11s", "l1")        # how a single scale is presented
KINDS_Z = ("i", "i64", "i32", "a0", "a1", "pf")                              # how a single zero point is presented


def enc_num(x):
    xf = float(x)
    if xf != xf:
        return "n 0 0 0"
    s = 1 if math.copysign(1.0, xf) < 0 else 0
    if math.isinf(xf):
        return f"i {s} 0 0"
    if xf == 0.0:
        return f"z {s} 0 0"
    fr, ex = math.frexp(abs(xf))
    return f"f {s} {int(math.ldexp(fr, 53))} {ex - 53}"


def enc_val(np, v):
    """exact encoding of what np.asarray(v) holds"""
    if v is None:
        return "N"
    a = np.asarray(v)
    flat = a.reshape(-1)
    for x in flat:
        if isinstance(x, (int, np.integer)) and abs(int(x)) >= 1 << 53:
            raise ValueError("integer outside the modelled range")
    toks = ["A", str(a.ndim)] + [str(d) for d in a.shape] + [str(flat.size)] + [enc_num(x) for x in flat]
    return " ".join(toks)


def py_repr(np, v):
    """Python expression that rebuilds `v` exactly"""
    if v is None:
        return "None"
    if isinstance(v, np.ndarray):
        if v.dtype.kind == "f":
            elems = ", ".join("float.fromhex('%s')" % float(x).hex() for x in v.reshape(-1))
            return "np.array([%s], dtype=np.%s).reshape(%s)" % (elems, v.dtype.name, tuple(v.shape))
        return "np.array(%s, dtype=np.%s).reshape(%s)" % ([int(x) for x in v.reshape(-1)], v.dtype.name, tuple(v.shape))
    if isinstance(v, list):
        return "[" + ", ".join(py_repr(np, x) for x in v) + "]"
    if isinstance(v, np.floating):
        return "np.%s(float.fromhex('%s'))" % (type(v).__name__, float(v).hex())
    if isinstance(v, np.integer):
        return "np.%s(%d)" % (type(v).__name__, int(v))
    if isinstance(v, float):
        return "float.fromhex('%s')" % v.hex()
    return repr(v)


def present_f(np, kind, x):
    """one scale value (a Python float that is exactly representable in the kind's precision) as `kind`"""
    f32, f64 = np.float32, np.float64
    return {"p": lambda: float(x), "s": lambda: f32(x), "d": lambda: f64(x), "a0s": lambda: np.array(x, dtype=f32),
            "a0d": lambda: np.array(x, dtype=f64), "a1s": lambda: np.array([x], dtype=f32), "a1d": lambda: np.array([x], dtype=f64),
            "a11s": lambda: np.array([[x]], dtype=f32), "l1": lambda: [float(x)]}[kind]()


def present_z(np, kind, z):
    return {"i": lambda: int(z), "i64": lambda: np.int64(z), "i32": lambda: np.int32(z), "a0": lambda: np.array(z, dtype=np.int64),
            "a1": lambda: np.array([z], dtype=np.int64), "pf": lambda: float(z)}[kind]()


def is_single(kind):
    return kind in ("s", "a0s", "a1s", "a11s")


def ulp32(np, x, k):
    """k float32 steps away from float32 value x (stays positive finite)"""
    bits = int(np.float32(x).view(np.uint32)) + k
    bits = max(1, min(bits, 0x7F7FFFFF))
    return float(np.uint32(bits).view(np.float32))


def ulp64(np, x, k):
    bits = int(np.float64(x).view(np.uint64)) + k
    bits = max(1, min(bits, 0x7FEFFFFFFFFFFFFF))
    return float(np.uint64(bits).view(np.float64))


def gen_cases(np, rng, n_scalar, n_axis, n_special):
    """-> list of (tag, (scale_a, zp_a), other) with other = (scale_b, zp_b) | "none" | "object" """
    f32 = np.float32

    def base32():
        r = rng.random()
        if r < 0.15:
            return float(f32(rng.choice([0.1, 0.2, 1 / 255, 1 / 128, 1 / 256, 0.003921569, 1 / 32768, 0.047058824449777603, 1.0, 0.5])))
        if r < 0.25:
            return float(f32(2.0 ** rng.randrange(-20, 6)))
        return float(f32(math.ldexp(rng.uniform(0.5, 1), rng.randrange(-24, 6))))

    def ksteps():
        r = rng.random()
        if r < 0.22:
            return 0
        if r < 0.55:
            return rng.choice([1, -1, 2, -2, 3])
        if r < 0.8:
            return rng.choice([1, -1]) * rng.choice([5, 8, 17, 34, 51, 64, 84, 100, 128, 168, 500, 839, 1000, 1678])
        return rng.choice([1, -1]) * rng.randrange(1, 2000)

    def perturb(x, single_b):
        """-> (value for side b, tag).  Steps of float32 when side b is float32, else float32 or float64 steps or a relative offset"""
        r = rng.random()
        if single_b or r < 0.45:
            k = ksteps()
            return ulp32(np, x, k), "f32ulp%+d" % k
        if r < 0.8:
            k = ksteps()
            return ulp64(np, x, k), "f64ulp%+d" % k
        eps = 10.0 ** rng.uniform(-7, -4) * rng.choice([1, -1])
        return x * (1 + eps), "rel%.0e" % eps

    cases = []
    zp_pool = [0, 0, -128, 127, 128, 255, 3, -1, 1]
    for _ in range(n_scalar):
        ka, kb = rng.choice(KINDS_F), rng.choice(KINDS_F)
        x = base32() if (is_single(ka) or rng.random() < 0.8) else math.ldexp(rng.uniform(0.5, 1), rng.randrange(-24, 6))
        y, tag = perturb(x, is_single(kb))
        if is_single(ka) and not (float(f32(x)) == x):
            x = float(f32(x))
        za = rng.choice(zp_pool)
        zb = za + (rng.choice([1, -1]) if rng.random() < 0.15 else 0)
        r = rng.random()
        if r < 0.04:
            qa, qb = (present_f(np, ka, x), None), (present_f(np, kb, y), None if rng.random() < 0.5 else present_z(np, "i", zb))
        elif r < 0.08:
            qa, qb = (None, present_z(np, rng.choice(KINDS_Z), za)), (None if rng.random() < 0.5 else present_f(np, kb, y), present_z(np, rng.choice(KINDS_Z), zb))
        else:
            qa = (present_f(np, ka, x), present_z(np, rng.choice(KINDS_Z), za))
            qb = (present_f(np, kb, y), present_z(np, rng.choice(KINDS_Z), zb))
        cases.append((f"scalar:{ka}/{kb}:{tag}:zp{zb - za:+d}", qa, qb))
    for _ in range(n_axis):
        n = rng.randrange(2, 9)
        da, db = rng.choice(["float32", "float64"]), rng.choice(["float32", "float64", "list"])
        xs = [base32() for _ in range(n)]
        ys = list(xs)
        tag = "same"
        if rng.random() < 0.7:
            j = rng.randrange(n)
            ys[j], tag = perturb(xs[j], db == "float32")
        a = np.array(xs, dtype=da)
        b = ys if db == "list" else np.array(ys, dtype=db)
        shape_tag = "shape="
        r = rng.random()
        if r < 0.08 and db != "list":
            b = b.reshape((1, n)); shape_tag = "shape(1,n)"
        elif r < 0.14 and db != "list":
            b = b.reshape((n, 1)); shape_tag = "shape(n,1)"
        elif r < 0.2:
            b = b[:-1]; shape_tag = "short"
        elif r < 0.24:
            b = present_f(np, rng.choice(KINDS_F), ys[0]); shape_tag = "scalar-vs-axis"
        # zero points: scalar or per-axis
        if rng.random() < 0.5:
            za = rng.choice(zp_pool)
            zb = za + (1 if rng.random() < 0.12 else 0)
            qa, qb = (a, present_z(np, rng.choice(KINDS_Z), za)), (b, present_z(np, rng.choice(KINDS_Z), zb))
            ztag = "zp%+d" % (zb - za)
        else:
            zs = [rng.choice(zp_pool) for _ in range(n)] if rng.random() < 0.4 else [0] * n
            zt = list(zs)
            ztag = "zpaxis="
            if rng.random() < 0.15:
                zt[rng.randrange(n)] += 1
                ztag = "zpaxis+1"
            zbv = np.array(zt, dtype=rng.choice(["int64", "int32"]))
            if rng.random() < 0.1:
                zbv = int(zt[0]); ztag = "zpaxis-vs-scalar"
            qa, qb = (a, np.array(zs, dtype=np.int64)), (b, zbv)
        cases.append((f"axis{n}:{da}/{db}:{tag}:{shape_tag}:{ztag}", qa, qb))
    specials = [float("nan"), float("inf"), float("-inf"), 0.0, -0.0, 5e-324, 1e-45, 3.4028234663852886e38, 1.7976931348623157e308, -0.1, 1]
    for _ in range(n_special):
        x = rng.choice(specials)
        y = x if rng.random() < 0.6 else rng.choice(specials)
        ka = rng.choice(("p", "d", "a0d", "a1d") if abs(float(x)) > 3.5e38 and not math.isinf(float(x)) or (0 < abs(float(x)) < 1e-45) else KINDS_F)
        kb = rng.choice(("p", "d", "a0d", "a1d") if abs(float(y)) > 3.5e38 and not math.isinf(float(y)) or (0 < abs(float(y)) < 1e-45) else KINDS_F)
        xv = float(np.float32(x)) if is_single(ka) else float(x)
        yv = float(np.float32(y)) if is_single(kb) else float(y)
        if rng.random() < 0.3:
            qa = (np.array([xv, 0.5], dtype=np.float64), 0)
            qb = (np.array([yv, 0.5], dtype=rng.choice(["float64", "float32"]) if abs(yv) < 3e38 or yv != yv or math.isinf(yv) else "float64"), 0)
            cases.append((f"special-axis:{xv!r}/{yv!r}", qa, qb))
        else:
            cases.append((f"special:{ka}/{kb}:{xv!r}/{yv!r}", (present_f(np, ka, xv), 0), (present_f(np, kb, yv), 0)))
    # `other` is not a QuantizationParameters
    for _ in range(max(4, n_special // 10)):
        x = base32()
        cases.append(("other-none", (present_f(np, rng.choice(KINDS_F), x), 0), "none"))
        cases.append(("other-object", (present_f(np, rng.choice(KINDS_F), x), 0), "object"))
    return cases


def run(ck, np, rng, thorough):
    """-> (evaluations, distinct_nontrivial)"""
    from ethosu.vela.tensor import QuantizationParameters, Tensor, check_quantized_tens_scaling_equal
    from ethosu.vela.data_type import DataType

    n_scalar, n_axis, n_special = (60000, 30000, 4000) if thorough else (14000, 7000, 1200)
    cases = gen_cases(np, rng, n_scalar, n_axis, n_special)

    def qp(q):
        return QuantizationParameters(scale_f32=q[0], zero_point=q[1])

    def qtoks(q):
        return enc_val(np, q[0]) + " " + enc_val(np, q[1])

    def call_str(qa, other):
        a = "QuantizationParameters(scale_f32=%s, zero_point=%s)" % (py_repr(np, qa[0]), py_repr(np, qa[1]))
        if other == "none":
            return a + ".is_scaling_equal(None)"
        if other == "object":
            return a + ".is_scaling_equal(object())"
        return a + ".is_scaling_equal(QuantizationParameters(scale_f32=%s, zero_point=%s))" % (py_repr(np, other[0]), py_repr(np, other[1]))

    reqs, reals, args = [], [], []
    for tag, qa, other in cases:
        a = qp(qa)
        o = None if other == "none" else (object() if other == "object" else qp(other))
        try:
            got = a.is_scaling_equal(o)
            real = "1" if got is True else ("0" if got is False else "notbool")
        except Exception as ex:            # a predicate on well-formed quantisations must answer
            real = "exc:" + type(ex).__name__
        otoks = "-" if isinstance(other, str) else qtoks(other)
        args.append(qtoks(qa) + " " + otoks)
        reqs.append("sceq " + args[-1])
        reals.append(real)
        ck.count("E_class_" + tag.split(":")[0].rstrip("0123456789"))
        ck.count("E_real_" + real)
    outs = ck.model(reqs)
    spec_idx = [i for i, r in enumerate(reals) if r in ("0", "1")]
    sp = ck.model(["sceqspec " + args[i] + " " + reals[i] for i in spec_idx])
    evaluations = len(reqs) + len(spec_idx)
    mm = [i for i, (m_, r_) in enumerate(zip(outs, reals)) if m_ != r_]
    ck.count("E_model_mismatch", len(mm))
    rejected = [(i, v) for i, v in zip(spec_idx, sp) if v != "1"]
    ck.count("E_spec_reject", len(rejected))
    near = sum(1 for (tag, _a, _b), r in zip(cases, reals) if ("ulp" in tag or "rel" in tag) and "ulp+0" not in tag and "ulp-0" not in tag and r == "0")
    ck.count("E_near_but_different_judged_different", near)

    def rp_of(i, v):
        tag, qa, other = cases[i]
        return {"sceq_call": call_str(qa, other), "sceq_request": args[i], "case": tag, "implementation": reals[i], "model": outs[i], "spec_verdict": v}

    # failing-input search: the Spec on the implementation's own verdicts (all cases, the disagreeing ones first)
    mm_set = set(mm)
    rejected.sort(key=lambda t: (t[0] not in mm_set, " N" in (" " + args[t[0]]), len(args[t[0]])))
    for i, v in rejected[:3]:
        rp = rp_of(i, v)
        ck.violation(f"{rp['sceq_call']} = {bool(int(reals[i]))}: Lean Spec verdict {v} (model says {outs[i]}); case {cases[i][0]}; "
                     f"{len(rejected)} of {len(spec_idx)} pairs rejected", rp, found_input=True)
    raised = [i for i, r in enumerate(reals) if r.startswith("exc:") or r == "notbool"]
    for i in raised[:2]:
        ck.violation(f"{call_str(cases[i][1], cases[i][2])} does not answer: {reals[i]} (model says {outs[i]})", rp_of(i, "n/a"), found_input=True)
    if mm and not rejected and not raised:
        i = min(mm, key=lambda j: len(args[j]))
        ck.violation(f"correspondence Model/ScalingEqual.lean vs QuantizationParameters.is_scaling_equal broken on {len(mm)} pairs: {call_str(cases[i][1], cases[i][2])} "
                     f"-> implementation {reals[i]}, model {outs[i]}", dict(rp_of(i, "1"), correspondence="sceq"), found_input=False)
    ck.sample({"stage": "E", "request": reqs[0][:300], "implementation": reals[0], "model": outs[0], "case": cases[0][0]})
    ck.sample({"stage": "E", "request": reqs[n_scalar][:300], "implementation": reals[n_scalar], "model": outs[n_scalar], "case": cases[n_scalar][0]})

    # ---- check_quantized_tens_scaling_equal on real Tensor objects ----------------------------------------------
    dts = [("int8", DataType.int8, 1), ("uint8", DataType.uint8, 1), ("int16", DataType.int16, 1), ("int32", DataType.int32, 1),
           ("float32", DataType.float32, 0)]
    t_reqs, t_reals, t_meta = [], [], []
    pool = [c for c in cases if not isinstance(c[2], str)]
    for k in range(4000 if thorough else 1200):
        tag, qa, qb = pool[rng.randrange(len(pool))]
        (na, da, ia), (nb, db, ib) = rng.choice(dts[:3] + dts), rng.choice(dts[:3] + dts)
        ta, tb = Tensor([1, 2, 2, 4], da, "a"), Tensor([1, 2, 2, 4], db, "b")
        r = rng.random()
        ta.quantization = qp(qa)
        tb.quantization = None if r < 0.06 else qp(qb)
        if r > 0.94:
            ta.quantization = None
        try:
            real = "1" if check_quantized_tens_scaling_equal(ta, tb) else "0"
        except Exception as ex:
            real = "exc:" + type(ex).__name__

        def ttoks(i_, t_, q_):
            return f"{i_} " + ("-" if t_.quantization is None else qtoks(q_))

        t_reqs.append("tsceq " + ttoks(ia, ta, qa) + " " + ttoks(ib, tb, qb))
        t_reals.append(real)
        t_meta.append((tag, na, nb, ta.quantization is None, tb.quantization is None, qa, qb))
        ck.count("E_tens_real_" + real)
    t_outs = ck.model(t_reqs)
    evaluations += len(t_reqs)
    t_mm = [i for i, (m_, r_) in enumerate(zip(t_outs, t_reals)) if m_ != r_]
    ck.count("E_tens_model_mismatch", len(t_mm))
    if t_mm:
        # Spec decides: a tensor-level "equal" is an `is_scaling_equal` verdict on the two quantisations
        judged = False
        for i in t_mm[:50]:
            tag, na, nb, a_none, b_none, qa, qb = t_meta[i]
            if t_reals[i] != "1" or a_none or b_none:
                continue
            v = ck.model(["sceqspec " + qtoks(qa) + " " + qtoks(qb) + " 1"], parallel=False)[0]
            if v != "1":
                ck.violation(f"check_quantized_tens_scaling_equal({na} tensor, {nb} tensor) = True for quantisations {call_str(qa, qb)}: Lean Spec verdict {v}",
                             {"sceq_call": call_str(qa, qb), "sceq_request": qtoks(qa) + " " + qtoks(qb), "case": tag, "dtypes": [na, nb],
                              "implementation": "1", "model": t_outs[i], "spec_verdict": v}, found_input=True)
                judged = True
                break
        if not judged and not rejected:
            i = t_mm[0]
            ck.violation(f"correspondence Model/ScalingEqual.lean (checkQuantizedTensScalingEqual) vs tensor.check_quantized_tens_scaling_equal broken on {len(t_mm)} "
                         f"pairs: {t_reqs[i][:300]} -> implementation {t_reals[i]}, model {t_outs[i]}",
                         {"correspondence": "tsceq", "request": t_reqs[i], "implementation": t_reals[i], "model": t_outs[i], "dtypes": t_meta[i][1:3]}, found_input=False)
    distinct = len({a for a, (_t, _qa, o) in zip(args, cases) if not isinstance(o, str)})
    return evaluations, distinct


def replay(ck, np, rp):
    """re-run one recorded pair; -> Lean Spec verdict"""
    from ethosu.vela.tensor import QuantizationParameters

    got = eval(rp["sceq_call"], {"np": np, "QuantizationParameters": QuantizationParameters, "float": float, "object": object})
    v = ck.model(["sceqspec " + rp["sceq_request"] + " " + ("1" if got else "0")], parallel=False)[0]
    print(f"{rp['sceq_call']} = {got}; Lean Spec verdict {v} (recorded {rp.get('spec_verdict')})")
    return v
