"""A plain flatbuffer walker for TFLite files: pure `struct`, no generated classes, no Vela code.

Only what the checks need: model -> subgraphs -> tensors/operators, operator codes, buffers, metadata.
Field slot numbers are those of the public TFLite schema (schema.fbs).
"""
import struct


class Table:
    def __init__(self, buf, pos):
        self.buf, self.pos = buf, pos
        self.vt = pos - struct.unpack_from("<i", buf, pos)[0]
        self.vt_len = struct.unpack_from("<H", buf, self.vt)[0]

    def _off(self, slot):
        o = 4 + 2 * slot
        if o >= self.vt_len:
            return 0
        return struct.unpack_from("<H", self.buf, self.vt + o)[0]

    def scalar(self, slot, fmt, default=0):
        o = self._off(slot)
        return struct.unpack_from("<" + fmt, self.buf, self.pos + o)[0] if o else default

    def _indirect(self, slot):
        o = self._off(slot)
        if not o:
            return None
        p = self.pos + o
        return p + struct.unpack_from("<I", self.buf, p)[0]

    def table(self, slot):
        p = self._indirect(slot)
        return Table(self.buf, p) if p is not None else None

    def string(self, slot):
        p = self._indirect(slot)
        if p is None:
            return None
        n = struct.unpack_from("<I", self.buf, p)[0]
        return bytes(self.buf[p + 4:p + 4 + n]).decode("utf-8", "replace")

    def vector(self, slot, fmt):
        """vector of scalars; returns list (None if absent)"""
        p = self._indirect(slot)
        if p is None:
            return None
        n = struct.unpack_from("<I", self.buf, p)[0]
        sz = struct.calcsize("<" + fmt)
        return list(struct.unpack_from("<%d%s" % (n, fmt), self.buf, p + 4)) if n else []

    def bytes_vec(self, slot):
        p = self._indirect(slot)
        if p is None:
            return None
        n = struct.unpack_from("<I", self.buf, p)[0]
        return bytes(self.buf[p + 4:p + 4 + n])

    def tables(self, slot):
        p = self._indirect(slot)
        if p is None:
            return []
        n = struct.unpack_from("<I", self.buf, p)[0]
        out = []
        for i in range(n):
            q = p + 4 + 4 * i
            out.append(Table(self.buf, q + struct.unpack_from("<I", self.buf, q)[0]))
        return out

    def raw_table_bytes(self, slot):
        """canonical content of a nested table (used to compare option tables verbatim): returns the
        tuple of (slot, raw inline bytes) for every present field of the nested table, scalars only"""
        t = self.table(slot)
        if t is None:
            return None
        out = []
        nslots = (t.vt_len - 4) // 2
        offs = sorted((t._off(s), s) for s in range(nslots) if t._off(s))
        table_size = struct.unpack_from("<H", t.buf, t.vt + 2)[0]
        for i, (o, s) in enumerate(offs):
            end = offs[i + 1][0] if i + 1 < len(offs) else table_size
            out.append((s, bytes(t.buf[t.pos + o:t.pos + end])))
        return tuple(sorted(out))


TYPE_NAMES = {0: "float32", 1: "float16", 2: "int32", 3: "uint8", 4: "int64", 5: "string", 6: "bool", 7: "int16",
              8: "complex64", 9: "int8", 10: "float64", 11: "complex128", 12: "uint64", 13: "resource", 14: "variant",
              15: "uint32", 16: "uint16", 17: "int4"}
TYPE_SIZE = {"float32": 4, "float16": 2, "int32": 4, "uint8": 1, "int64": 8, "bool": 1, "int16": 2, "int8": 1,
             "float64": 8, "uint64": 8, "uint32": 4, "uint16": 2, "complex64": 8}


def parse(data):
    """Returns a plain dict description of a TFLite model."""
    buf = memoryview(bytes(data))
    if bytes(buf[4:8]) != b"TFL3":
        raise ValueError("not a TFL3 file")
    root = Table(buf, struct.unpack_from("<I", buf, 0)[0])
    model = {"version": root.scalar(0, "I"), "description": root.string(3)}
    codes = []
    for oc in root.tables(1):
        dep = oc.scalar(0, "b")
        builtin = oc.scalar(3, "i")
        codes.append({"builtin": max(dep, builtin), "custom": oc.string(1), "version": oc.scalar(2, "i", 1)})
    model["operator_codes"] = codes
    bufs = []
    for b in root.tables(4):
        d = b.bytes_vec(0)
        bufs.append(d)
    model["buffers"] = bufs
    meta = {}
    meta_list = []
    for m in root.tables(6):
        meta[m.string(0)] = m.scalar(1, "I")
        meta_list.append((m.string(0), m.scalar(1, "I")))
    model["metadata"] = meta
    model["metadata_list"] = meta_list        # every entry in file order (names may repeat)
    sgs = []
    for sg in root.tables(2):
        tensors = []
        for t in sg.tables(0):
            q = t.table(4)
            quant = None
            if q is not None:
                quant = {"scale": q.vector(2, "f") or [], "zero_point": q.vector(3, "q") or [],
                         "min": q.vector(0, "f") or [], "max": q.vector(1, "f") or [], "qdim": q.scalar(6, "i")}
            tensors.append({"shape": t.vector(0, "i") or [], "type": TYPE_NAMES.get(t.scalar(1, "b"), "?"),
                            "buffer": t.scalar(2, "I"), "name": t.string(3), "quant": quant,
                            "is_variable": bool(t.scalar(5, "B")), "shape_signature": t.vector(7, "i")})
        ops = []
        for o in sg.tables(3):
            ops.append({"opcode_index": o.scalar(0, "I"), "inputs": o.vector(1, "i") or [], "outputs": o.vector(2, "i") or [],
                        "options_type": o.scalar(3, "B"), "options_raw": o.raw_table_bytes(4),
                        "custom_options": o.bytes_vec(5), "intermediates": o.vector(8, "i") or []})
        sgs.append({"tensors": tensors, "inputs": sg.vector(1, "i") or [], "outputs": sg.vector(2, "i") or [],
                    "operators": ops, "name": sg.string(4)})
    model["subgraphs"] = sgs
    return model


def tensor_bytes(t):
    n = 1
    for d in t["shape"]:
        n *= d
    return n * TYPE_SIZE.get(t["type"], 1)
