"""Further structured network families for the pipeline-level checks (C02, C03, C11, C12, C13), on top of netgen.py.

Each family is a *named pattern* (listed in `PATTERNS`, appended to `netgen.PATTERNS`), built from the generator's
`random.Random` and an optional integer `variant`: the deterministic pattern sweep that opens the quick tier passes
variant = 0, 1, 2, … so that every sub-kind of a family is instantiated; the random `pattern` profile passes None and
the sub-kind is drawn. A network therefore replays from (seed, index, profile) as before.

families
  lut_mixed       one NPU subgraph whose lookup-table activations have different table sizes (256-byte tables of 8-bit
                  operators, the 2 KiB table of a 16-bit EXP/LOG/SQRT/GELU, the 1 KiB table inside an 8-bit SOFTMAX), later
                  operators re-using a table that was loaded earlier (equal operator and quantisation = equal table), with
                  and without kernels that have no table in between; as independent branches or as one chain
  shape_out       an NPU-accelerated operator that changes rank or shape (MEAN keep_dims false/true over axis subsets, RESHAPE,
                  SQUEEZE, EXPAND_DIMS, TRANSPOSE, STRIDED_SLICE with shrink / new-axis mask, ARG_MAX, PACK, UNPACK, SPLIT,
                  SPLIT_V) whose result is a subgraph output and / or the operand of an operator that stays on the CPU
  transpose_perm  TRANSPOSE with every permutation class tflite_supported_operators.constraint_transpose accepts (ranks 2-4),
                  including those that move the channel axis, fed by an input or an NPU operator, read by an output or an
                  NPU operator
  ew_fork         a subgraph input or CPU-produced tensor read by exactly one NPU elementwise operator that could work in
                  place (same shape and type) and by exactly one other consumer that runs later: a CPU operator, a second NPU
                  subgraph, or the subgraph output list
  fc1_two_core    convolutions with buffered weights followed by an operator whose weights exist for one core only
                  (FULLY_CONNECTED / 1x1 CONV_2D with a single output channel)
"""
import numpy as np

import netgen
from netgen import B, Op, T, TT, _qrange, rand_scale, rand_zp

PATTERNS = ["lut_mixed", "shape_out", "transpose_perm", "ew_fork", "fc1_two_core"]


def _pick(rng, variant, options, stride=1):
    """sub-kind selection: by `variant` when sweeping (consumes the same random draw), else random"""
    r = rng.randrange(len(options))
    return options[(variant // stride) % len(options)] if variant is not None else options[r]


def custom(b, xs, shape=None, like=None, code="ThirdPartyOp"):
    """third-party operator: stays on the CPU whatever its operands are"""
    rng = b.rng
    xt = b.t(like if like is not None else xs[0])
    shape = list(xt.shape if shape is None else shape)
    if xt.scales is not None:
        o = b.fm(shape, xt.dtype, scale=xt.scales[0], zp=xt.zps[0])
    else:
        o = b.net.add(T(b.fresh("t"), shape, xt.dtype))
    b.net.ops.append(Op("CUSTOM", list(xs), [o], None, custom_code=code,
                        custom_options=bytes(rng.getrandbits(8) for _ in range(rng.randint(0, 6)))))
    return o


def ew_const(b, x, kind=None, same_quant=False):
    """elementwise operator with a constant second operand (any rank <= 4): runs on the NPU"""
    rng = b.rng
    xt = b.t(x)
    kind = kind or rng.choice(["ADD", "MUL", "SUB", "ADD"])
    lo, hi = _qrange(xt.dtype)
    shp = rng.choice([[1] * len(xt.shape), [1] * (len(xt.shape) - 1) + [xt.shape[-1]]]) if xt.shape else []
    n = int(np.prod(shp)) if shp else 1
    r = np.random.RandomState(rng.getrandbits(32))
    c = b.const(shp, xt.dtype, r.randint(max(lo, -100), min(hi, 100) + 1, n), [rand_scale(rng)], [rand_zp(rng, xt.dtype)])
    if kind in ("MINIMUM", "MAXIMUM"):
        b.t(c).scales, b.t(c).zps = list(xt.scales), list(xt.zps)
        o = b.fm(xt.shape, xt.dtype, scale=xt.scales[0], zp=xt.zps[0])
        b.net.ops.append(Op(kind, [x, c], [o], ("MaximumMinimumOptions", {})))
        return o
    o = b.fm(xt.shape, xt.dtype, scale=xt.scales[0] if same_quant else None, zp=xt.zps[0] if same_quant else None)
    oname = {"ADD": "AddOptions", "SUB": "SubOptions", "MUL": "MulOptions"}[kind]
    b.net.ops.append(Op(kind, [x, c], [o], (oname, dict(FusedActivationFunction=0))))
    return o


def npu_pre(b, x):
    """some operator the NPU accelerates that keeps the shape, so that what follows is not at the subgraph's edge"""
    rng = b.rng
    xt = b.t(x)
    k = rng.choice(["conv", "ew", "ew", "relu", "pool"])
    if len(xt.shape) == 4 and xt.shape[0] == 1 and xt.dtype != "int32":
        if k == "conv":
            return b.conv(x, xt.shape[3], (1, 1), (1, 1), (1, 1), "SAME")
        if k == "pool":
            return b.pool(x, "MAX_POOL_2D", (1, 1), (1, 1), "VALID")
    if k == "relu":
        return b.unary("RELU", x)
    return ew_const(b, x)


def _same_q(b, x, shape, dtype=None):
    xt = b.t(x)
    return b.fm(list(shape), dtype or xt.dtype, scale=xt.scales[0] if xt.scales else None, zp=xt.zps[0] if xt.zps else None)


# ------------------------------------------------------------------------------------------------
# lut_mixed

LUT8 = ["TANH", "LOGISTIC", "LEAKY_RELU", "HARD_SWISH", "EXP", "GELU", "RSQRT"]
LUT16 = ["EXP", "GELU", "EXP", "GELU"]      # int16 LOG and SQRT always die while the table is built (known C13 findings)


def lut_op(b, kind, x, out_q=None):
    """table-lookup activation `kind` on tensor x; `out_q` = (scale, zp) of the result (equal operator + equal input and
    output quantisation = equal table)"""
    xt = b.t(x)
    dt = xt.dtype
    if out_q is None:
        if kind == "TANH":
            out_q = (1.0 / 128, 0) if dt != "int16" else (1.0 / 32768, 0)
        elif kind == "LOGISTIC":
            out_q = (1.0 / 256, -128) if dt != "int16" else (1.0 / 32768, 0)
        else:
            out_q = (rand_scale(b.rng, -8, -3), 0 if dt == "int16" else rand_zp(b.rng, dt))
    if dt == "uint8" and kind in ("TANH", "LOGISTIC"):
        out_q = (out_q[0], 128 if kind == "TANH" else 0)
    o = b.fm(xt.shape, dt, scale=out_q[0], zp=out_q[1])
    opts = None
    if kind == "LEAKY_RELU":
        opts = ("LeakyReluOptions", dict(Alpha=0.125))
    elif kind == "GELU":
        opts = ("GeluOptions", dict(Approximate=False))
    elif kind == "EXP":
        opts = ("ExpOptions", {})
    b.net.ops.append(Op(kind, [x], [o], opts))
    return o


def lut_mixed(rng, idx, variant=None):
    """[narrow tables ...] [wide table] [narrow operator that re-uses an earlier table] ..."""
    layout = _pick(rng, variant, ["branches", "chain", "branches", "chain_softmax", "chain", "chain_softmax2"])
    b = B(rng, f"pat{idx}_lut_mixed", "int8")
    shp = [1, rng.randint(1, 8), rng.randint(1, 8), rng.choice([4, 8, 16])]
    n_narrow = rng.choice([2, 2, 3, 4, 5, 8])
    wide = rng.choice(LUT16)
    gap = rng.choice(["none", "none", "conv", "pool", "ew"])          # a kernel without table between the LUT operators
    reuse = rng.randrange(n_narrow)                                   # which of the narrow tables is used again
    if variant is not None and variant % 2 == 0:
        reuse = max(1, reuse)                                         # a table that does not sit in slot 0
    n_after = rng.choice([1, 1, 2, 3])
    b.net.desc.append(f"pattern=lut_mixed layout={layout} narrow={n_narrow} wide={wide} gap={gap} reuse={reuse} after={n_after}")
    in_q = (1.0 / 16, 0)
    kinds = []
    pool = ["TANH", "LOGISTIC", "LEAKY_RELU", "HARD_SWISH", "EXP", "GELU"]
    rng.shuffle(pool)
    for i in range(n_narrow):
        # different operators, or the same operator under another input scale: different tables
        kinds.append((pool[i % len(pool)], (in_q[0] * (1 + i // len(pool)), 0)))

    def non_lut(x):
        if gap == "conv":
            return b.conv(x, b.t(x).shape[3], (1, 1), (1, 1), (1, 1), "SAME")
        if gap == "pool":
            return b.pool(x, "MAX_POOL_2D", (2, 2), (1, 1), "SAME")
        if gap == "ew":
            return ew_const(b, x)
        return x

    out_qs = {}

    def narrow(x, k):
        kind, q = kinds[k]
        if k not in out_qs:
            o = lut_op(b, kind, x)
            out_qs[k] = (b.t(o).scales[0], b.t(o).zps[0])
            return o
        return lut_op(b, kind, x, out_qs[k])

    if layout == "branches":
        # independent branches, one graph input each; Vela schedules them in reverse order of the output list
        outs = []
        seq = [("n", k) for k in range(n_narrow)] + [("w", 0)] + [("n", reuse)] + \
              [("n", rng.randrange(n_narrow)) if rng.random() < 0.7 else ("w", 0) for _ in range(n_after - 1)]
        for what, k in seq:
            if what == "n":
                x = b.input(shp, "int8", scale=kinds[k][1][0], zp=0)
                x = non_lut(x) if (gap != "none" and rng.random() < 0.5) else x
                if x is not None and b.t(x).scales[0] != kinds[k][1][0]:
                    # the kernel in between changed the quantisation: requantise back so that the table is the same one
                    y = b.fm(shp, "int8", scale=kinds[k][1][0], zp=0)
                    b.net.ops.append(Op("QUANTIZE", [x], [y], ("QuantizeOptions", {})))
                    x = y
                outs.append(narrow(x, k))
            else:
                x = b.input(shp, "int16", scale=rand_scale(rng, -12, -9), zp=0)
                outs.append(lut_op(b, wide, x, (1.0 / 32768, 0) if wide == "EXP" else None))
        return b.finish(list(reversed(outs)) if rng.random() < 0.85 else outs)
    # chain: requantise between the operators so that every narrow operator sees its own input quantisation again
    x = b.input(shp, "int8", scale=in_q[0], zp=0)

    def requant(x, dtype, q):
        y = b.fm(shp, dtype, scale=q[0], zp=q[1])
        b.net.ops.append(Op("QUANTIZE", [x], [y], ("QuantizeOptions", {})))
        return y

    cur = x
    for k in range(n_narrow):
        cur = narrow(requant(cur, "int8", kinds[k][1]) if (k > 0 or kinds[k][1] != in_q) else cur, k)
    if gap != "none":
        cur = non_lut(cur) or cur
    if layout == "chain_softmax":
        # the 1 KiB table: 8-bit SOFTMAX lowers to a chain with a 256 x int32 exponent table
        cur = b.unary("SOFTMAX", cur)
    elif layout == "chain_softmax2":
        # the same 1 KiB exponent table needed twice (equal input scale and beta), with narrow tables around it
        q_s = (1.0 / 16, 0)
        cur = b.unary("SOFTMAX", requant(cur, "int8", q_s))
        if rng.random() < 0.5:
            k = rng.randrange(n_narrow)
            cur = narrow(requant(cur, "int8", kinds[k][1]), k)
        cur = b.unary("SOFTMAX", requant(cur, "int8", q_s))
    else:
        cur = requant(cur, "int16", (rand_scale(rng, -12, -9), 0))
        cur = lut_op(b, wide, cur, (1.0 / 32768, 0) if wide == "EXP" else None)
    cur = narrow(requant(cur, "int8", kinds[reuse][1]), reuse)
    for _ in range(n_after - 1):
        k = rng.randrange(n_narrow)
        cur = narrow(requant(cur, "int8", kinds[k][1]), k)
    return b.finish([cur])


# ------------------------------------------------------------------------------------------------
# shape_out

SHAPE_KINDS = ["mean_nokeep", "mean_keep", "reshape", "squeeze", "expand_dims", "transpose", "slice_shrink", "slice_newaxis",
               "argmax", "pack", "unpack", "split", "split_v", "mean_nokeep"]
SINKS = ["out+cpu", "cpu", "out", "out+npu", "cpu2", "cpu+npu"]


def mean(b, x, axes, keep):
    xt = b.t(x)
    rank = len(xt.shape)
    ax = b.const([len(axes)], "int32", axes, name=b.fresh("axes"))
    shape = [1 if i in axes else d for i, d in enumerate(xt.shape)] if keep else [d for i, d in enumerate(xt.shape) if i not in axes]
    same = b.rng.random() < 0.5
    o = b.fm(shape, xt.dtype, scale=xt.scales[0] if same else None, zp=xt.zps[0] if same else None)
    b.net.ops.append(Op("MEAN", [x, ax], [o], ("ReducerOptions", dict(KeepDims=keep))))
    b.net.desc.append(f"mean rank={rank} axes={axes} keep={keep}")
    return o


def mean_axes(rng, shape):
    """axis subsets tflite_model_semantic.constraint_mean_axis lets onto the NPU (mostly), and a few it does not"""
    rank = len(shape)
    if rank == 2:
        return rng.choice([[0], [1], [0, 1]])
    h = rank - 3
    cands = [[h, h + 1], [h, h + 1], [h], [h + 1], [rank - 1], [h + 1, rank - 1], [h, h + 1, rank - 1]]
    if rank == 4:
        cands += [[0, 1, 2], [0]]
    return rng.choice(cands)


def transpose(b, x, perm):
    xt = b.t(x)
    o = _same_q(b, x, [xt.shape[p] for p in perm])
    pt = b.const([len(perm)], "int32", perm, name=b.fresh("perm"))
    b.net.ops.append(Op("TRANSPOSE", [x, pt], [o], ("TransposeOptions", {})))
    return o


def strided_slice(b, x, begin, end, shrink=0, new_axis=0, begin_mask=0, end_mask=0, out_shape=None):
    n = len(begin)
    bt = b.const([n], "int32", begin, name=b.fresh("begin"))
    et = b.const([n], "int32", end, name=b.fresh("end"))
    st = b.const([n], "int32", [1] * n, name=b.fresh("strides"))
    o = _same_q(b, x, out_shape)
    b.net.ops.append(Op("STRIDED_SLICE", [x, bt, et, st], [o], ("StridedSliceOptions", dict(
        BeginMask=begin_mask, EndMask=end_mask, EllipsisMask=0, NewAxisMask=new_axis, ShrinkAxisMask=shrink))))
    return o


def rand_shape(rng, rank, with_one=False):
    dims = [rng.choice([2, 3, 4, 6, 8, 12, 16]) for _ in range(rank)]
    if rank == 4:
        dims[0] = 1
    if with_one and rank >= 2:
        dims[rng.randrange(1 if rank == 4 else 0, rank)] = 1
    return dims


def shape_op(b, x, kind):
    """append the shape-changing operator `kind` after x; returns the list of its results (first one is the main one)"""
    rng = b.rng
    xt = b.t(x)
    shape = list(xt.shape)
    rank = len(shape)
    if kind in ("mean_nokeep", "mean_keep"):
        return [mean(b, x, mean_axes(rng, shape), kind == "mean_keep")]
    if kind == "reshape":
        n = int(np.prod(shape))
        cands = [[1, n], [n], [1, 1, 1, n], [1, n, 1, 1], [n, 1]]
        if rank >= 2:
            cands += [[int(np.prod(shape[:-1])), shape[-1]], [1, int(np.prod(shape[:-1])), shape[-1]],
                      [1, 1, int(np.prod(shape[:-1])), shape[-1]], [shape[0], int(np.prod(shape[1:]))]]
        new = rng.choice([c for c in cands if c != shape])
        return [b.reshape(x, new)]
    if kind == "squeeze":
        ones = [i for i, d in enumerate(shape) if d == 1]
        if not ones:
            return None
        sq = [i for i in ones if rng.random() < 0.7] or ones[:1]
        o = _same_q(b, x, [d for i, d in enumerate(shape) if i not in sq])
        b.net.ops.append(Op("SQUEEZE", [x], [o], ("SqueezeOptions", dict(SqueezeDims=sq if rng.random() < 0.8 else []))))
        if not b.net.ops[-1].opts[1]["SqueezeDims"]:
            b.t(o).shape = [d for d in shape if d != 1]          # no dims given: all unit axes go
        return [o]
    if kind == "expand_dims":
        if rank >= 4:
            return None
        ax = rng.randint(0, rank)
        at = b.const([], "int32", [ax if rng.random() < 0.7 else ax - rank - 1], name=b.fresh("axis"))
        o = _same_q(b, x, shape[:ax] + [1] + shape[ax:])
        b.net.ops.append(Op("EXPAND_DIMS", [x, at], [o], ("ExpandDimsOptions", {})))
        return [o]
    if kind == "transpose":
        perm = transpose_perm_for(rng, shape)
        if perm is None:
            return None
        return [transpose(b, x, perm)]
    if kind == "slice_shrink":
        ax = rng.randrange(rank)
        k = rng.randrange(shape[ax])
        begin = [0] * rank
        end = list(shape)
        begin[ax], end[ax] = k, k + 1
        # a second axis cut without shrinking
        ax2 = rng.randrange(rank)
        if ax2 != ax and shape[ax2] >= 2 and rng.random() < 0.5:
            begin[ax2] = rng.randint(0, shape[ax2] - 1)
            end[ax2] = rng.randint(begin[ax2] + 1, shape[ax2])
        out = [e - s for i, (s, e) in enumerate(zip(begin, end)) if i != ax]
        return [strided_slice(b, x, begin, end, shrink=1 << ax, out_shape=out)]
    if kind == "slice_newaxis":
        if rank >= 4:
            return None
        # begin/end/strides describe the *output-side* axes: one entry per input axis plus the new one
        ax = rng.randint(0, rank)
        begin = [0] * (rank + 1)
        end = shape[:ax] + [1] + shape[ax:]
        return [strided_slice(b, x, begin, end, new_axis=1 << ax, out_shape=shape[:ax] + [1] + shape[ax:])]
    if kind == "argmax":
        if xt.dtype not in ("int8", "uint8") or rank < 1 or shape[-1] > 127:
            return None
        at = b.const([], "int32", [rank - 1 if rng.random() < 0.7 else -1], name=b.fresh("axis"))
        odt = rng.choice(["int32", "int32", "int64"])
        o = b.net.add(T(b.fresh("t"), shape[:-1], odt))
        b.net.ops.append(Op("ARG_MAX", [x, at], [o], ("ArgMaxOptions", dict(OutputType=TT[odt]))))
        return [o]
    if kind == "pack":
        if rank >= 4:
            return None
        n = rng.choice([2, 2, 3])
        others = [ew_const(b, x, same_quant=True) for _ in range(n - 1)]
        ax = rng.randint(0, rank)
        o = _same_q(b, x, shape[:ax] + [n] + shape[ax:])
        b.net.ops.append(Op("PACK", [x] + others, [o], ("PackOptions", dict(ValuesCount=n, Axis=ax))))
        return [o]
    if kind == "unpack":
        cands = [i for i, d in enumerate(shape) if 2 <= d <= 4]
        if not cands:
            return None
        ax = rng.choice(cands)
        outs = [_same_q(b, x, shape[:ax] + shape[ax + 1:]) for _ in range(shape[ax])]
        b.net.ops.append(Op("UNPACK", [x], outs, ("UnpackOptions", dict(Num=shape[ax], Axis=ax))))
        return outs
    if kind in ("split", "split_v"):
        cands = [i for i, d in enumerate(shape) if d >= 2 and d % 2 == 0]
        if not cands:
            return None
        ax = rng.choice(cands)
        at = b.const([], "int32", [ax], name=b.fresh("axis"))
        if kind == "split":
            outs = [_same_q(b, x, shape[:ax] + [shape[ax] // 2] + shape[ax + 1:]) for _ in range(2)]
            b.net.ops.append(Op("SPLIT", [at, x], outs, ("SplitOptions", dict(NumSplits=2))))
        else:
            k = rng.randint(1, shape[ax] - 1)
            sizes = [k, shape[ax] - k] if rng.random() < 0.7 else [k, -1]
            stt = b.const([2], "int32", sizes, name=b.fresh("sizes"))
            outs = [_same_q(b, x, shape[:ax] + [s] + shape[ax + 1:]) for s in (k, shape[ax] - k)]
            b.net.ops.append(Op("SPLIT_V", [x, stt, at], outs, ("SplitVOptions", dict(NumSplits=2))))
        return outs
    raise ValueError(kind)


def shape_out(rng, idx, variant=None):
    kind = _pick(rng, variant, SHAPE_KINDS)
    sink = _pick(rng, variant, SINKS, stride=len(SHAPE_KINDS))
    dtype = rng.choice(["int8", "int8", "uint8", "int16"])
    if kind == "argmax" and dtype == "int16":
        dtype = "int8"
    b = B(rng, f"pat{idx}_shape_out", dtype)
    rank = rng.choice([2, 3, 4, 4])
    if kind in ("expand_dims", "pack", "slice_newaxis"):
        rank = rng.choice([1, 2, 3])
    shape = rand_shape(rng, rank, with_one=kind in ("squeeze", "transpose") or rng.random() < 0.2)
    if kind.startswith("mean") and rank == 4 and rng.random() < 0.3:
        shape = [1, rng.choice([7, 8, 16]), rng.choice([7, 8, 16]), rng.choice([8, 16, 32])]     # global average pool
    if rank == 4 and kind in ("reshape", "squeeze", "unpack", "split", "split_v", "slice_shrink") and rng.random() < 0.2:
        # operators the batch-size constraint exempts: rank-4 operand with batch > 1
        shape[0] = rng.choice([2, 3])
    pre = rng.random() < 0.7
    b.net.desc.append(f"pattern=shape_out kind={kind} sink={sink} dtype={dtype} shape={shape} pre={pre}")
    x = b.input(shape)
    cur = npu_pre(b, x) if pre else x
    if cur is None:
        cur = x
    res = shape_op(b, cur, kind)
    if res is None:
        b.net.desc.append("fallback-mean")
        res = [mean(b, cur, mean_axes(rng, shape), False)] if rank >= 2 else [b.unary("RELU", cur)]
    r = res[0]
    outs = []
    quantised = b.t(r).scales is not None
    if "out" in sink.split("+"):
        outs.append(r)
    if "cpu" in sink.split("+") or sink == "cpu2":
        c = custom(b, [r] if sink != "cpu2" else [r, cur], like=r)
        if quantised and rng.random() < 0.4:
            c = ew_const(b, c)                    # a second NPU subgraph behind the CPU operator
        outs.append(c)
    if "npu" in sink.split("+") and quantised:
        outs.append(ew_const(b, r) if rng.random() < 0.7 else b.unary("RELU", r))
    for extra in res[1:]:
        # the other results of UNPACK / SPLIT: output, CPU operand, or NPU operand
        w = rng.choice(["out", "cpu", "npu"])
        outs.append(extra if w == "out" else custom(b, [extra]) if w == "cpu" else ew_const(b, extra))
    if not outs:
        outs = [r]
    return b.finish(outs)


# ------------------------------------------------------------------------------------------------
# transpose_perm

def _d(rng):
    return rng.choice([2, 3, 5, 6, 7, 8, 12, 16, 20, 24, 33])


# (name, shape generator, permutation): the cases constraint_transpose lists
TRANSPOSE_CLASSES = [
    ("WxC->CxW", lambda r: [_d(r), _d(r)], [1, 0]),
    ("HxWxC->WxHxC", lambda r: [_d(r), _d(r), _d(r)], [1, 0, 2]),
    ("1xWxC->1xCxW", lambda r: [1, _d(r), _d(r)], [0, 2, 1]),
    ("Hx1xC->Cx1xH", lambda r: [_d(r), 1, _d(r)], [2, 1, 0]),
    ("1xHxWxC->1xWxHxC", lambda r: [1, _d(r), _d(r), _d(r)], [0, 2, 1, 3]),
    ("1x1xWxC->1x1xCxW", lambda r: [1, 1, _d(r), _d(r)], [0, 1, 3, 2]),
    ("1xHx1xC->1xCx1xH", lambda r: [1, _d(r), 1, _d(r)], [0, 3, 2, 1]),
    # what the constraint's tests also let through: any rank-2 permutation (the identity), unit axes elsewhere
    ("rank2-identity", lambda r: [_d(r), _d(r)], [0, 1]),
    ("1x1xC->1x1xC", lambda r: [1, 1, _d(r)], [1, 0, 2]),
    ("1xWx1->1x1xW", lambda r: [1, _d(r), 1], [0, 2, 1]),
    ("1x1x1xC", lambda r: [1, 1, 1, _d(r)], [0, 2, 1, 3]),
    ("Wx1->1xW", lambda r: [_d(r), 1], [1, 0]),
]


def transpose_perm_for(rng, shape):
    rank = len(shape)
    if rank == 2:
        return [1, 0]
    if rank == 3:
        c = [[1, 0, 2]]
        if shape[0] == 1:
            c.append([0, 2, 1])
        if shape[1] == 1:
            c.append([2, 1, 0])
        return rng.choice(c)
    if rank == 4:
        c = [[0, 2, 1, 3]]
        if shape[1] == 1:
            c.append([0, 1, 3, 2])
        if shape[2] == 1:
            c.append([0, 3, 2, 1])
        return rng.choice(c)
    return None


def transpose_perm(rng, idx, variant=None):
    name, shp, perm = _pick(rng, variant, TRANSPOSE_CLASSES)
    shape = shp(rng)
    dtype = rng.choice(["int8", "int8", "uint8", "int16", "int8", "int32"])
    b = B(rng, f"pat{idx}_transpose_perm", dtype if dtype != "int32" else "int8")
    before = rng.choice(["input", "input", "npu"])
    after = rng.choice(["out", "out", "npu", "cpu", "out+npu"])
    b.net.desc.append(f"pattern=transpose_perm class={name} shape={shape} perm={perm} dtype={dtype} before={before} after={after}")
    if dtype == "int32":
        # int32 TRANSPOSE is accelerated; without quantisation parameters the compiler dies (known C13 finding), so mostly with
        q = dict(scales=[rand_scale(rng)], zps=[0]) if rng.random() < 0.85 else {}
        x = b.net.add(T(b.fresh("input"), shape, "int32", **q))
        b.net.inputs.append(x)
        o = b.net.add(T(b.fresh("t"), [shape[p] for p in perm], "int32", **q))
        pt = b.const([len(perm)], "int32", perm, name=b.fresh("perm"))
        b.net.ops.append(Op("TRANSPOSE", [x, pt], [o], ("TransposeOptions", {})))
        return b.finish([o])
    x = b.input(shape)
    cur = (npu_pre(b, x) or x) if before == "npu" else x
    t = transpose(b, cur, perm)
    outs = []
    if "out" in after:
        outs.append(t)
    if "npu" in after:
        outs.append(ew_const(b, t) if rng.random() < 0.6 else b.unary(rng.choice(["RELU", "TANH", "ABS"]), t))
    if after == "cpu":
        outs.append(custom(b, [t]))
    return b.finish(outs)


# ------------------------------------------------------------------------------------------------
# ew_fork

EW_KINDS = ["addc", "mulc", "subc", "minc", "abs", "relu", "lrelu", "tanh", "add2", "addc"]
FORK_CONSUMERS = ["cpu1", "cpu2", "npu2", "graph_out", "cpu1", "cpu2"]


def ew_fork(rng, idx, variant=None):
    kind = _pick(rng, variant, EW_KINDS)
    other = _pick(rng, variant, FORK_CONSUMERS)
    dtype = rng.choice(["int8", "int8", "uint8", "int16"])
    b = B(rng, f"pat{idx}_ew_fork", dtype)
    rank = rng.choice([4, 4, 4, 3, 2])
    shape = rand_shape(rng, rank)
    from_cpu = rng.random() < 0.4
    b.net.desc.append(f"pattern=ew_fork kind={kind} other={other} dtype={dtype} shape={shape} src={'cpu' if from_cpu else 'input'}")
    x = b.input(shape)
    src = custom(b, [x]) if from_cpu else x
    st = b.t(src)
    if kind in ("addc", "mulc", "subc", "minc"):
        a = ew_const(b, src, {"addc": "ADD", "mulc": "MUL", "subc": "SUB", "minc": rng.choice(["MINIMUM", "MAXIMUM"])}[kind],
                     same_quant=rng.random() < 0.5)
    elif kind == "add2":
        y = b.input(shape)
        a = b.binary(rng.choice(["ADD", "SUB", "MUL"]), src, y) if rng.random() < 0.5 else b.binary("ADD", y, src)
    elif kind == "abs":
        a = b.unary("ABS", src)
    elif kind == "relu":
        a = b.unary(rng.choice(["RELU", "RELU6"]), src)
    elif kind == "lrelu":
        a = b.unary("LEAKY_RELU", src)
        if rng.random() < 0.5:
            b.t(a).scales, b.t(a).zps = list(st.scales), list(st.zps)
    else:
        a = b.unary(rng.choice(["TANH", "LOGISTIC"]), src)
    if other == "cpu1":
        # the CPU operator reads only the shared tensor; it is listed after the NPU operator, so it runs later
        c = custom(b, [src])
        outs = [a, c] if rng.random() < 0.5 else [c, a]
    elif other == "cpu2":
        # z = f(src, g(src)): the demo's LESS(x, ADD(x, b)) with a third-party operator in the place of LESS
        c = custom(b, [src, a] if rng.random() < 0.5 else [a, src], like=src)
        outs = [c]
    elif other == "npu2":
        c = custom(b, [a])
        d = b.binary(rng.choice(["ADD", "SUB", "MUL"]), c, src)
        outs = [d]
    else:
        # the shared tensor is itself a subgraph output (only possible for a CPU-produced tensor; for a graph input this
        # degenerates to input == output, which is legal as well)
        outs = [a, src] if rng.random() < 0.5 else [src, a]
    return b.finish(outs)


# ------------------------------------------------------------------------------------------------
# fc1_two_core

def fc1_two_core(rng, idx, variant=None):
    """`big`: wide feature maps and thin weights, so that buffered weight streams sit at arena offsets beyond the size of the
    constants region; otherwise heavy weights on small maps (deep weight slices, double buffering)"""
    tail = _pick(rng, variant, ["fc1", "conv1", "fc1", "fc1_twice", "dw_conv1", "fc1"])
    big = _pick(rng, variant, [True, True, False], stride=2)
    b = B(rng, f"pat{idx}_fc1_two_core", rng.choice(["int8", "int8", "uint8"]))
    if big:
        c = rng.choice([8, 16, 32])
        h, w = rng.choice([16, 24, 32, 48]), rng.choice([16, 32, 64])
        widths = [16, 32, 64]
    else:
        c = rng.choice([32, 64, 128])
        h, w = rng.choice([4, 6, 8]), rng.choice([4, 8])
        widths = [64, 128, 256]
    n_conv = rng.choice([1, 2, 2, 3])
    b.net.desc.append(f"pattern=fc1_two_core tail={tail} big={big} in={[1, h, w, c]} convs={n_conv}")
    x = b.input([1, h, w, c])
    y = x
    for _ in range(n_conv):
        y = b.conv(y, rng.choice(widths), rng.choice([(3, 3), (1, 1), (3, 3)]), (1, 1), (1, 1), "SAME")
    yt = b.t(y)
    if tail in ("conv1", "dw_conv1"):
        if tail == "dw_conv1":
            y = b.dwconv(y, (3, 3), (1, 1), (1, 1), "SAME")
        z = b.conv(y, 1, rng.choice([(1, 1), (3, 3), (1, 1)]), (1, 1), (1, 1), "SAME", per_channel=False)
        return b.finish([z])
    if big:
        # keep the single-output weight matrix small: pool the map down first
        for _ in range(2):
            y = b.pool(y, rng.choice(["MAX_POOL_2D", "AVERAGE_POOL_2D"]), (2, 2), (2, 2), "VALID") or y
        yt = b.t(y)
    flat = b.reshape(y, [1, yt.shape[1] * yt.shape[2] * yt.shape[3]])
    z = b.fc(flat, 1)
    if tail == "fc1_twice":
        z2 = b.fc(flat, rng.choice([1, 2]))
        return b.finish([z, z2])
    return b.finish([z])


def source_tags(net):
    """constructs of the *source* network under which a known finding of the unchanged compiler is recorded (the check
    combines the tag with the shape of the Spec's rejection; it never decides pass / fail)"""
    tags = set()

    def batch4(shape):
        return shape[0] if len(shape) == 4 else 1

    for o in net.ops:
        opts = o.opts[1] if o.opts else {}
        if o.kind in ("PACK", "CONCATENATION"):
            # a result with batch > 1: assembled from slices with batch > 1 (inner axis), or copied as a whole (axis 0)
            if batch4(net.tensors[o.outputs[0]].shape) > 1:
                tags.add("npu-box-batch>1")
        if o.kind in ("SPLIT", "SPLIT_V", "UNPACK", "STRIDED_SLICE", "SLICE"):
            # the pieces are read as boxes of the operand; the batch-size constraint exempts these operators
            x = net.tensors[o.inputs[1] if o.kind == "SPLIT" else o.inputs[0]]
            if batch4(x.shape) > 1:
                if o.kind == "UNPACK":
                    ax = opts.get("Axis", 0)
                    ax += 4 if ax < 0 else 0
                    if ax != 0:
                        tags.add("npu-box-batch>1")
                elif any(batch4(net.tensors[t].shape) > 1 or len(net.tensors[t].shape) < 4 for t in o.outputs):
                    tags.add("npu-box-batch>1")
        # round 5 (rank sweep): legal attribute values three lowerings mishandle (repairs C13-50, C13-51, C01-47 pending)
        if o.kind == "UNPACK" and int(opts.get("Axis", 0)) < 0:
            tags.add("unpack-negative-axis")
        if o.kind == "SLICE" and len(o.inputs) > 2 and net.tensors[o.inputs[2]].data is not None and \
                (np.asarray(net.tensors[o.inputs[2]].data).reshape(-1) == -1).any():
            tags.add("slice-size-minus-one")
        if o.kind == "FULLY_CONNECTED" and opts.get("KeepNumDims"):
            osh = net.tensors[o.outputs[0]].shape
            if len(osh) == 4 and osh[0] > 1:
                tags.add("fc-keep-num-dims-rank4-batch>1")
        if o.kind == "LEAKY_RELU" and net.tensors[o.inputs[0]].dtype == "int16" and float(opts.get("Alpha", 0.0)) < 0:
            # lowered to MIN, int32 MUL by the (negative) quantised multiplier, RELU, ADD: the MUL is handed to the register
            # generator with a negative OFM scale (C06 finding int16-lrelu-negative-alpha-negative-ofm-scale, repair C16-20)
            tags.add("int16-leaky-relu-negative-alpha")
        if o.kind == "STRIDED_SLICE" and opts.get("NewAxisMask", 0):
            rank_in = len(net.tensors[o.inputs[0]].shape)
            if opts["NewAxisMask"] & ((1 << rank_in) - 1):
                tags.add("strided-slice-new-axis-not-trailing")
    return sorted(tags)


BUILDERS = {"lut_mixed": lut_mixed, "shape_out": shape_out, "transpose_perm": transpose_perm, "ew_fork": ew_fork,
            "fc1_two_core": fc1_two_core}


# pattern -> (module, builder) of the families defined outside this file
EXTERNAL = {"near_scale": ("gen_nearscale", "near_scale"), "multi_out_cpu": ("gen_multiout", "multi_out_cpu"),
            "slice_masks": ("gen_ssmask", "slice_masks"), "rank_sweep": ("gen_ranksweep", "rank_sweep"),
            "io_passthrough": ("gen_iopass", "io_passthrough"), "resize_cascade": ("gen_resizecasc", "resize_cascade")}


def build(rng, idx, pattern, variant=None):
    if pattern not in BUILDERS and pattern in EXTERNAL:
        # families that live in their own modules (imported lazily)
        import importlib

        mod, fn = EXTERNAL[pattern]
        BUILDERS[pattern] = getattr(importlib.import_module(mod), fn)
    return BUILDERS[pattern](rng, idx, variant)
