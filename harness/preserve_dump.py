"""Canonical dumps for C11.

* `graph_tokens` / `preserve_line`: source and output model (parsed by the plain walker harness/fbwalk.py) as one
  protocol request for the Lean Spec checker `VelaVerif.Preserve.check`. Python only transcribes bytes (names and
  byte strings as hex, float32 scales as their bit patterns, a digest + length for constant data); every
  normalisation decision (absent vs empty option table, empty quantisation, ...) is taken in Lean.
* `walker_view` / `vela_view`: the same output file seen by the plain walker and by Vela's own reader
  (ethosu.vela.tflite_reader.TFLiteGraph, in-process) as token lists that the Lean `reread` request compares.
"""
import hashlib
import struct

import fbwalk

# option tables of the TFLite schema that carry vectors / strings (everything else is inline scalars):
# BuiltinOptions number -> {slot: kind}; kinds: i = [int32], f = [float32], s = string
OPTION_INDIRECT = {17: {0: "i"}, 30: {0: "i"}, 115: {0: "f"}, 111: {0: "s", 1: "s"}, 3: {1: "i", 2: "i"}}
OPTION_INDIRECT_NAMES = {17: "ReshapeOptions", 30: "SqueezeOptions", 115: "BucketizeOptions", 111: "VarHandleOptions",
                         3: "ConcatEmbeddingsOptions"}


_WIDTH = {"Bool": 1, "Int8": 1, "Uint8": 1, "Int16": 2, "Uint16": 2, "Int32": 4, "Uint32": 4, "Float32": 4,
          "Int64": 8, "Uint64": 8, "Float64": 8}
_schema = None


def option_schema():
    """{BuiltinOptions number: {slot: byte width}} for the inline scalar fields of every option table, read from the
    accessors of the schema classes generated from schema.fbs (ethosu/vela/tflite/<X>Options.py): a table of the
    public TFLite schema, not reader logic. Needed because the extent of the last inline field of a flatbuffer
    table cannot be told from the file alone (vtables are shared between tables of different inline size)."""
    global _schema
    if _schema is not None:
        return _schema
    import os
    import re

    import common

    d = os.path.join(common.REPO, "ethosu", "vela", "tflite")
    enum = {}
    for m in re.finditer(r"^\s+(\w+) = (\d+)\s*$", open(os.path.join(d, "BuiltinOptions.py")).read(), re.M):
        enum[m.group(1)] = int(m.group(2))
    pat = re.compile(r"def \w+\(self\):\s+o = flatbuffers\.number_types\.UOffsetTFlags\.py_type\(self\._tab\.Offset\((\d+)\)\)\s+"
                     r"if o != 0:\s+return (?:bool\()?self\._tab\.Get\(flatbuffers\.number_types\.(\w+)Flags, o \+ self\._tab\.Pos\)")
    _schema = {}
    for name, num in enum.items():
        path = os.path.join(d, name + ".py")
        if not os.path.exists(path):
            continue
        _schema[num] = {(int(off) - 4) // 2: _WIDTH[ty] for off, ty in pat.findall(open(path).read())}
    return _schema


def hx(b):
    return bytes(b).hex()


def f32bits(x):
    return struct.unpack("<I", struct.pack("<f", x))[0]


def raw_ops(data):
    """Second pass over the file for what fbwalk.parse does not keep: per operator the dereferenced option fields
    and custom_options_format. Returns [[(fields, custom_format)] per op] per subgraph."""
    buf = memoryview(bytes(data))
    root = fbwalk.Table(buf, struct.unpack_from("<I", buf, 0)[0])
    out = []
    schema = option_schema()
    for sg in root.tables(2):
        ops = []
        for o in sg.tables(3):
            otype = o.scalar(3, "B")
            t = o.table(4)
            fields = []
            if t is not None:
                nslots = (t.vt_len - 4) // 2
                offs = sorted((t._off(s), s) for s in range(nslots) if t._off(s))
                table_size = struct.unpack_from("<H", t.buf, t.vt + 2)[0]
                ind = OPTION_INDIRECT.get(otype, {})
                for i, (off, s) in enumerate(offs):
                    if s in ind:
                        if ind[s] == "s":
                            val = (t.string(s) or "").encode()
                        else:
                            p = t._indirect(s)
                            n = struct.unpack_from("<I", t.buf, p)[0]
                            val = bytes(t.buf[p + 4:p + 4 + 4 * n])
                        fields.append((s, "v" + hx(val)))
                    else:
                        width = schema.get(otype, {}).get(s)
                        if width is None:   # field unknown to the schema copy: up to the next field, padding stripped
                            end = offs[i + 1][0] if i + 1 < len(offs) else table_size
                            fields.append((s, "u" + hx(bytes(t.buf[t.pos + off:t.pos + end]).rstrip(b"\x00"))))
                        else:
                            fields.append((s, hx(bytes(t.buf[t.pos + off:t.pos + off + width]))))
                fields.sort()
            ops.append((t is not None, fields, o.scalar(6, "b")))
        out.append(ops)
    return out


def quant_token(q):
    if q is None:
        return "-"
    return "~".join(["/".join(str(f32bits(x)) for x in q["scale"]), "/".join(str(int(x)) for x in q["zero_point"]),
                     "/".join(str(f32bits(x)) for x in q["min"]), "/".join(str(f32bits(x)) for x in q["max"]), str(int(q["qdim"]))])


def tensor_token(model, t):
    data = model["buffers"][t["buffer"]] if 0 <= t["buffer"] < len(model["buffers"]) else None
    const = "-" if not data else f"{len(data)}.{hashlib.sha1(data).hexdigest()[:16]}"
    return ":".join([hx((t["name"] or "").encode()), "/".join(map(str, t["shape"])), t["type"], quant_token(t["quant"]),
                     const, "1" if t["is_variable"] else "0"])


def op_token(model, op, raw):
    code = model["operator_codes"][op["opcode_index"]]
    present, fields, _cfmt = raw
    opts = ("T" if present else "N") + str(op["options_type"]) + "".join(f"~{s}.{v}" for s, v in fields)
    return ":".join([str(code["builtin"]), hx((code["custom"] or "").encode()), str(code["version"]), opts,
                     hx(op["custom_options"] or b""), "/".join(map(str, op["inputs"])), "/".join(map(str, op["outputs"]))])


def graph_tokens(model, raws, si, prefix):
    sg = model["subgraphs"][si]
    return [f"{prefix}.tensors=" + ",".join(tensor_token(model, t) for t in sg["tensors"]),
            f"{prefix}.inputs=" + ",".join(map(str, sg["inputs"])),
            f"{prefix}.outputs=" + ",".join(map(str, sg["outputs"])),
            f"{prefix}.ops=" + ";".join(op_token(model, op, raw) for op, raw in zip(sg["operators"], raws[si]))]


def preserve_line(src_bytes, out_bytes, si=0):
    s, o = fbwalk.parse(src_bytes), fbwalk.parse(out_bytes)
    return " ".join(["preserve", f"s.nsg={len(s['subgraphs'])}", f"o.nsg={len(o['subgraphs'])}"] + graph_tokens(s, raw_ops(src_bytes), si, "s") + graph_tokens(o, raw_ops(out_bytes), si, "o")), s, o


# ------------------------------------------------------------------------------------------------
# the written file as Vela's own reader sees it vs as the plain walker sees it


def walker_view(model):
    toks = [f"subgraphs={len(model['subgraphs'])}"]
    for si, sg in enumerate(model["subgraphs"]):
        toks.append(f"sg{si}:tensors={len(sg['tensors'])}:ops={len(sg['operators'])}")
        for t in sg["tensors"]:
            toks.append("t:" + hx((t["name"] or "").encode()) + ":" + "/".join(map(str, t["shape"])) + ":" + t["type"])
        for op in sg["operators"]:
            code = model["operator_codes"][op["opcode_index"]]
            names = lambda idxs: "/".join(hx((sg["tensors"][i]["name"] or "").encode()) if i >= 0 else "-" for i in idxs)  # noqa: E731
            toks.append(f"o:{code['builtin']}:{code['version']}:{names(op['inputs'])}:{names(op['outputs'])}")
        toks.append("in:" + "/".join(hx((sg["tensors"][i]["name"] or "").encode()) for i in sg["inputs"]))
        toks.append("out:" + "/".join(hx((sg["tensors"][i]["name"] or "").encode()) for i in sg["outputs"]))
    return toks


def vela_view(path):
    """Parse `path` with Vela's own reader and describe it in the same token form as `walker_view`.
    Raises whatever the reader raises (SystemExit included: the reader calls sys.exit on a malformed file)."""
    from ethosu.vela import tflite_reader
    from ethosu.vela.tflite_mapping import builtin_operator_inv_map
    from ethosu.vela.operation import Op

    g = tflite_reader.TFLiteGraph(path, 1, {}, [], [])
    toks = [f"subgraphs={len(g.subgraphs)}"]
    for si, sg in enumerate(g.subgraphs):
        ops = {}
        for t in sg.tensors:
            for op in t.ops:
                if getattr(op, "op_index", None) is not None and op.type not in (Op.Const, Op.Placeholder, Op.SubgraphInput):
                    ops[op.op_index] = op
        toks.append(f"sg{si}:tensors={len(sg.tensors)}:ops={len(ops)}")
        for t in sg.tensors:
            toks.append("t:" + hx(t.name.encode()) + ":" + "/".join(str(int(d)) for d in t.shape) + ":" + str(t.dtype))

        def names(ts):
            return "/".join(hx(t.name.encode()) if t is not None else "-" for t in ts)

        for k in sorted(ops):
            op = ops[k]
            ins = list(op.inputs)
            # the reader swaps constant conv/fc weights and biases for reshaped clones; name them by their source tensor
            ins = [(t.src_tensor if (t is not None and t.src_tensor is not None and t.name.endswith("_reshape")) else t) for t in ins]
            builtin = int(builtin_operator_inv_map[op.type][0])
            toks.append(f"o:{builtin}:{op.version}:{names(ins)}:{names(op.outputs)}")
        # the reader drops duplicated entries of the subgraph input/output lists (with a warning); the walker view is
        # compared after the same de-duplication in Lean
        toks.append("in:" + names(sg.inputs))
        toks.append("out:" + names([t for t in sg.outputs if t not in sg.virtual_outputs]))
    return toks
