#!/venv/bin/python
"""C03 — no NPU operation consumes memory that was not defined for it.
Translation validation: the emitted stream is executed sequentially by the Lean tagged-memory
machine (Spec/Mem.lean): every written byte carries (tensor id, delta); every read must find exactly
its expected tag. Tensor identities and box origins come from Vela's high-level commands (side
information); addresses, tiles, strides and extents come from the decoded registers only."""
import common
import lutstate_lib
import stream_checks
from common import Check, main_wrapper


def main():
    ck = Check("C03", "translation_validation")
    ck.lean_stage(["VelaVerif.Props.C03", "VelaVerif.Props.C03LutState"])
    import pending

    pending.register(ck)          # repairs written but not yet in the tree under test (harness/pending.py)
    # function level: the table residency pass of lut.py (real LUTState / optimize_high_level_cmd_stream on objects of the
    # repo's own classes) against Model/LutState.lean, its streams judged by the byte-level Spec/LutWindow.lean
    ls = lutstate_lib.run_all(ck)
    outs, lines, owners, answers = stream_checks.run(ck, "C03", 384, 7200,
                                                     ["cascade", "cascade_chain", "weights", "lut", "elementwise", "mixed", "pattern", "cpu", "pattern", "cascade_lut", "pattern:reshape_fork", "pattern"],
                                                     want=("stream", "inference"))
    programs = 0
    nontrivial = set()
    rejected = 0
    for (o, si), ans, line in zip(owners, answers, lines):
        programs += 1
        if ans["decode"] != "ok" or "infos_mismatch" in ans:
            ck.violation(f"stream of network {o['idx']} ({o['profile']}) does not decode: {ans['raw'][:200]}",
                         stream_checks.replay_obj(o, si, ans, line))
            continue
        feats = set(o.get("features", []))
        for f in feats:
            ck.count("feature_" + f)
        if feats & {"cascade", "buffered_weights", "lut", "rolling_wrap", "multi_stripe"}:
            nontrivial.add((o["profile"], o["idx"], si, tuple(o.get("opts", []))))
        if ans.get("tagged", 0) > 0:
            rejected += 1
            metas = (o.get("op_meta") or [[]])[si] if si < len(o.get("op_meta") or []) else []
            msg = ans["tagged_msgs"][0]
            key = stream_checks.classify_source(o, msg) or stream_checks.classify_tagged(msg, metas)
            ck.violation(f"read of undefined/stale/foreign bytes: {msg} (network {o['idx']} {o['profile']} {o.get('opts')})",
                         stream_checks.replay_obj(o, si, ans, line), key=key)
    # whole-inference execution: CPU operators and every Ethos-U stream of the output graph on one tagged memory
    stream_rejected = {id(o) for (o, si), ans in zip(owners, answers) if ans.get("tagged", 0) > 0 or ans["decode"] != "ok"}
    inf_lines, inf_owner = [], []
    for o in outs:
        if o.get("inference_line"):
            inf_lines.append(o["inference_line"])
            inf_owner.append(o)
    inf_ans = ck.model(inf_lines) if inf_lines else []
    for o, a in zip(inf_owner, inf_ans):
        ck.count("inference_executions")
        pa = stream_checks.parse_answer(a)
        ncpu = o["inference_line"].count("step=cpu~")
        if ncpu:
            ck.count("inference_with_cpu_steps")
            nontrivial.add((o["profile"], o["idx"], "inference", tuple(o.get("opts", []))))
        if pa["decode"] != "ok":
            ck.violation(f"inference of network {o['idx']} ({o['profile']}) does not decode: {a[:200]}",
                         {"profile": o["profile"], "seed": o["seed"], "index": o["idx"], "opts": o.get("opts"), "network": o.get("desc"), "verdict": a[:600]})
        elif pa.get("tagged", 0) > 0 and id(o) not in stream_rejected:
            rejected += 1
            ck.violation(f"whole-inference execution: {pa['tagged_msgs'][0]} (network {o['idx']} {o['profile']} {o.get('opts')})",
                         {"profile": o["profile"], "seed": o["seed"], "index": o["idx"], "opts": o.get("opts"), "network": o.get("desc"),
                          "verdict": a[:1500], "request_head": o["inference_line"][:400]},
                         key=stream_checks.classify_source(o, pa["tagged_msgs"][0]))
    for (o, si), ans in list(zip(owners, answers))[:3]:
        ck.sample({"network": o["desc"], "opts": o["opts"], "features": o.get("features"), "verdict": ans["raw"][:160]})
    ck.finish({
        "programs": programs,
        "disagreements_checked": rejected,
        "evaluations": len(outs) + programs + ls["lutstate_cases"] + ls["lutstate_method_calls"],
        "distinct_nontrivial": len(nontrivial) + ls["lutstate_nontrivial"],
        "function_level": ls,
        "rule": "program = one emitted command stream; non-trivial when it has a cascade, buffered weights, a LUT, a wrapped "
                "rolling buffer or a multi-stripe operator; distinct by (profile, index, stream, options). Function level "
                "(lutstate): case = one abstract high-level command stream run through the real lut.optimize_high_level_cmd_stream; "
                "non-trivial when the pass dropped a table DMA or evicted a table; distinct by (accelerator, tables, passes, commands)",
        "exhaustive": False,
    }, assumptions=["sequential execution in program order (ordering between queues is C04's subject)",
                    "tensor identities and box origins are taken from Vela's high-level command stream",
                    "element-granular footprints; implicit IFM extent from OFM extent, kernel, stride and pads",
                    "lutstate: tables whose values compare equal under np.array_equal and have the same storage size are the same bytes; "
                    "a kernel without table lookup destroys the table window exactly on the 16-bank configurations (hand-written)"])


main_wrapper(main)
