#!/venv/bin/python
"""C02 — every NPU memory access stays inside the region the output model declares.
Translation validation: each compiled network's command stream (as emitted) is decoded by the Lean
decoder (Spec/Decode.lean), the exact strided footprint of every access is derived from the register
values (Spec/Footprint.lean) and compared with the region extents published in the output file
(sizes of the custom operator's flash / scratch / scratch_fast tensors, read with a plain flatbuffer walker)."""
import common
import stream_checks
import ta_lib
from common import Check, main_wrapper


def replay_ta_net(ck):
    """--replay of a violation found on one of the address-generation networks (profile ta_nets)"""
    import json
    import pipeline

    if not ck.replay_arg:
        return False
    r = json.load(open(ck.replay_arg))
    rp = r.get("replay", r)
    if rp.get("profile") != "ta_nets":
        return False
    pipeline.load_vela()
    out = ta_lib._ta_worker((rp["seed"], rp["index"]))
    if "harness_exception" in out:
        raise common.InfraError(out["harness_exception"])
    n_fm, n_streams = ta_lib.pipeline_level(ck, [out])
    ck.finish({"programs": n_streams, "evaluations": n_fm + n_streams, "distinct_nontrivial": n_streams,
               "rule": "replay of one address-generation network", "exhaustive": False})
    return True


def main():
    ck = Check("C02", "translation_validation")
    # C02Sched: the Dedicated-SRAM clause at the level of the scheduler's bookkeeping (design.d/SchedMem.md; the stage that ties the
    # model to the real scheduler runs in ./check C12)
    ck.lean_stage(["VelaVerif.Props.C02", "VelaVerif.Props.C02Addr", "VelaVerif.Props.C02Sched", "VelaVerif.Props.C02Src"])
    import pending

    pending.register(ck)          # repairs written but not yet in the tree under test (harness/pending.py)
    if replay_ta_net(ck):
        return
    # address-generation link, function level: real Tensor methods against Model/TensorAddr.lean, Lean Spec on the real outputs
    fn_evals, fn_tensors, fn_bad, fn_spec = ta_lib.function_level(ck, 1500 if ck.thorough else 220)
    outs, lines, owners, answers = stream_checks.run(ck, "C02", 288, 6000, None, want={"stream": True, "extra": ta_lib.pipeline_extra})
    # ... pipeline level: every NpuFeatureMap against the model, decoded footprints against the tensor's own allocation
    ta_outs = ta_lib.ta_corpus(ck, 210 if ck.thorough else 35)
    n_fm, n_alloc_streams = ta_lib.pipeline_level(ck, outs + ta_outs)
    programs = 0
    nontrivial = set()
    accesses = 0
    for (o, si), ans, line in zip(owners, answers, lines):
        programs += 1
        if ans["decode"] != "ok" or "infos_mismatch" in ans:
            ck.violation(f"stream of network {o['idx']} ({o['profile']}) does not decode: {ans['raw'][:200]}",
                         stream_checks.replay_obj(o, si, ans, line))
            continue
        accesses += ans.get("ops", 0)
        if ans.get("ops", 0) >= 1:
            nontrivial.add((o["profile"], o["idx"], si, tuple(o.get("opts", []))))
        for f in o.get("features", []):
            ck.count("feature_" + f)
        if ans.get("bounds", 0) > 0:
            ck.violation(f"access outside published region extent: {ans['bounds_msgs'][0]} (network {o['idx']} {o['profile']} {o.get('opts')})",
                         stream_checks.replay_obj(o, si, ans, line), key=stream_checks.classify_source(o, ans['bounds_msgs'][0]))
    # Dedicated-SRAM clause: published fast-scratch extent <= configured arena cache size
    for o in outs:
        ext = o.get("extents")
        if ext and "--memory-mode" in o.get("opts", []) and "Dedicated_Sram" in o["opts"]:
            ck.count("dedicated_sram_compilations")
            cache = 393216
            if "--arena-cache-size" in o["opts"]:
                cache = int(o["opts"][o["opts"].index("--arena-cache-size") + 1])
            req = f"fastextent {ext.get(2, 0)} {cache}"
            if ck.model([req], parallel=False)[0] != "1":
                ck.violation(f"fast-scratch extent {ext.get(2)} exceeds arena cache size {cache}", {"opts": o["opts"], "network": o.get("desc"),
                             "profile": o["profile"], "seed": o["seed"], "index": o["idx"]})
    for (o, si), ans in list(zip(owners, answers))[:3]:
        ck.sample({"network": o["desc"], "opts": o["opts"], "extents": o.get("extents"), "verdict": ans["raw"][:160]})
    ck.finish({
        "programs": programs,
        "disagreements_checked": sum(1 for a in answers if a.get("bounds", 0) > 0 or a["decode"] != "ok"),
        "evaluations": len(outs) + programs + fn_evals + n_fm + n_alloc_streams,
        "distinct_nontrivial": len(nontrivial),
        "decoded_operations": accesses,
        "address_generation": {
            "function_level_requests": fn_evals, "function_level_tensors": fn_tensors, "function_level_disagreements": fn_bad,
            "function_level_spec_checks_on_real_outputs": fn_spec,
            "pipeline_feature_maps_model_vs_create_feature_map": n_fm,
            "pipeline_streams_footprint_inside_allocation": n_alloc_streams,
            "targeted_networks": len(ta_outs),
            "rule": "function level: one request = one call of a real Tensor method (or create_feature_map) compared with "
                    "Model/TensorAddr.lean, plus Lean Spec checks (inside allocation, disjoint, tiles reach the tensor's own address) "
                    "on the real outputs; pipeline level: every NpuFeatureMap of every compiled network, and every emitted stream "
                    "decoded and checked against the allocation of each feature map's tensor"},
        "rule": "program = one emitted command stream of one compiled (network, configuration); non-trivial when it contains "
                ">= 1 NPU operation; distinct by (profile, index, stream, options)",
        "exhaustive": False,
    }, assumptions=["tensor identity, box and operator shape of a feature map are taken from Vela's high-level command (cmd.*_tensor, "
                    "cmd.*_box, ps.ifm_shapes / ofm_shapes); address and storage_size() from the Vela tensor",
                    "element-granular footprints (the hardware touches exactly the addressed elements)",
                    "implicit IFM extent = (OFM-1)*stride + dilated kernel - pads (no IFM size register)",
                    "region n of the stream is the n-th memory tensor of the custom operator (flash, scratch, scratch_fast)"])


main_wrapper(main)
