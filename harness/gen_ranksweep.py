"""Rank sweep (round 5, seeded change C13-r5m1): every operator kind Vela accelerates that TFLite defines on tensors of any
rank, on every rank 1 ... 6, with positive and negative axis attributes.

The NPU works on 4-D boxes; every operator of another rank is mapped to one by code of its own (left-padding the shape with
ones, `axis + (4 - rank)`, lowering PAD of the last axis to a concatenation with axis -1, ...).  The general generators use
rank 4 almost everywhere, so the mapping of ranks 1-3 (and the rejection of ranks 5-6) was hardly exercised.

    KINDS x RANKS x axis variant (`av`):
      av 0  the LAST axis, written as a non-negative attribute          av 1  the last axis written negative (-1)
      av 2  the first axis (non-negative)                                av 3  an inner axis written negative
      av >= 4  drawn at random (axis subsets for PAD / MEAN, permutations for TRANSPOSE, ...)
    sweep variant v -> kind v mod #KINDS, rank 1 + (v div #KINDS) mod 6, av = v div (6 #KINDS)  (+ the job's random stream)

    rank_sweep(rng, idx, variant)   netgen pattern `rank_sweep` (C02/C03/C11/C12/C13 through the pattern sweep and profile)
    c01_net(rng, idx, make_builder) C01 profile `ranks` (sinks the Lean executor simulates)
    c16_cases(rng, thorough)        single-operator networks for C16's placement stage
"""
import numpy as np

import netgen
from netgen import B, Op, T, TT

KINDS = ["pad", "concat", "split", "split_v", "pack", "unpack", "mean", "strided_slice", "slice", "transpose", "softmax", "argmax",
         "ew_broadcast", "unary", "expand_dims", "squeeze", "reshape", "fc", "quantize", "prelu", "sum"]
RANKS = [1, 2, 3, 4, 5, 6]
SINKS = ["out", "npu", "cpu", "out+npu", "out+cpu", "npu"]


def rand_shape(rng, rank, small=False):
    pool = [2, 3, 4, 5, 6, 8] if rank <= 4 and not small else [1, 2, 2, 3, 4]
    dims = [rng.choice(pool) for _ in range(rank)]
    if rank >= 4 and rng.random() < 0.85:
        dims[0] = 1
    if rank in (2, 3) and rng.random() < 0.15:
        dims[rng.randrange(rank)] = 1
    return dims


def pick_axis(rng, rank, av, n=None):
    """(axis index, attribute value) among `n` (default rank) positions for axis variant av"""
    n = rank if n is None else n
    if n <= 0:
        return 0, 0
    if av == 0:
        a, neg = n - 1, False
    elif av == 1:
        a, neg = n - 1, True
    elif av == 2:
        a, neg = 0, False
    elif av == 3:
        a, neg = (n - 1) // 2, True
    else:
        a, neg = rng.randrange(n), rng.random() < 0.5
    return a, (a - n if neg else a)


def _q(b, x, shape, dtype=None):
    xt = b.t(x)
    return b.fm(list(shape), dtype or xt.dtype, scale=xt.scales[0] if xt.scales else None, zp=xt.zps[0] if xt.zps else None)


def _second(b, x, shape, same_quant=True, const=False):
    """a second operand of `shape` quantised like x (or not): graph input, or constant"""
    rng = b.rng
    xt = b.t(x)
    if const:
        lo, hi = netgen._qrange(xt.dtype)
        r = np.random.RandomState(rng.getrandbits(32))
        n = int(np.prod(shape)) if shape else 1
        return b.const(list(shape), xt.dtype, r.randint(max(lo, -100), min(hi, 100) + 1, n),
                       [xt.scales[0] if same_quant else netgen.rand_scale(rng)], [xt.zps[0] if same_quant else netgen.rand_zp(rng, xt.dtype)])
    if same_quant:
        return b.input(list(shape), xt.dtype, scale=xt.scales[0], zp=xt.zps[0])
    return b.input(list(shape), xt.dtype)


def build_op(b, x, kind, av):
    """append operator `kind` (axis variant av) after tensor x; list of results (main first), or None when the kind does not
    exist on this shape"""
    import gen_ssmask
    import netgen_ext

    rng = b.rng
    xt = b.t(x)
    shape = list(xt.shape)
    rank = len(shape)
    d = b.net.desc
    if kind == "pad":
        if av == 0:
            axes = [rank - 1]
        elif av == 1:
            axes = [a for a in (rank - 1, rank - 2, rank - 3) if a >= 0][:rng.choice([2, 3])]
        elif av == 2:
            axes = [a for a in (rank - 2, rank - 3) if a >= 0] or [0]
        elif av == 3:
            axes = [0]
        else:
            axes = [a for a in range(rank) if rng.random() < 0.5] or [rng.randrange(rank)]
        pads = [[rng.randint(0, 2), rng.randint(0, 2)] if a in axes else [0, 0] for a in range(rank)]
        if not any(sum(p) for p in pads):
            pads[axes[0]] = [1, rng.randint(0, 2)]
        pt = b.const([rank, 2], rng.choice(["int32", "int32", "int64"]), pads, name=b.fresh("pads"))
        o = _q(b, x, [dd + p[0] + p[1] for dd, p in zip(shape, pads)])
        b.net.ops.append(Op("PAD", [x, pt], [o], ("PadOptions", {})))
        d.append(f"pad rank={rank} pads={pads}")
        return [o]
    if kind == "concat":
        a, attr = pick_axis(rng, rank, av)
        n = rng.choice([2, 2, 3])
        same = rng.random() < 0.6
        xs = [x]
        for _ in range(n - 1):
            s2 = list(shape)
            s2[a] = rng.choice([1, 2, shape[a]])
            xs.append(_second(b, x, s2, same_quant=same or rng.random() < 0.5) if rng.random() < 0.7 else
                      (netgen_ext.ew_const(b, x, same_quant=True) if rank <= 4 else _second(b, x, shape)))
        if rng.random() < 0.4:
            rng.shuffle(xs)
        oshape = list(shape)
        oshape[a] = sum(b.t(t).shape[a] for t in xs)
        o = _q(b, x, oshape) if same else b.fm(oshape, xt.dtype)
        b.net.ops.append(Op("CONCATENATION", xs, [o], ("ConcatenationOptions", dict(Axis=attr, FusedActivationFunction=0))))
        d.append(f"concat rank={rank} axis={attr} n={n}")
        return [o]
    if kind in ("split", "split_v"):
        cands = [i for i, dd in enumerate(shape) if dd >= 2 and (dd % 2 == 0 or kind == "split_v")]
        if not cands:
            return None
        a, attr = pick_axis(rng, rank, av)
        if a not in cands:
            a = rng.choice(cands)
            attr = a - rank if attr < 0 else a
        at = b.const([], "int32", [attr], name=b.fresh("axis"))
        if kind == "split":
            n = 3 if shape[a] % 3 == 0 and rng.random() < 0.3 else 2
            if shape[a] % n:
                n = 2
            outs = [_q(b, x, shape[:a] + [shape[a] // n] + shape[a + 1:]) for _ in range(n)]
            b.net.ops.append(Op("SPLIT", [at, x], outs, ("SplitOptions", dict(NumSplits=n))))
        else:
            k = rng.randint(1, shape[a] - 1)
            sizes = [k, shape[a] - k] if rng.random() < 0.6 else [k, -1]
            stt = b.const([2], "int32", sizes, name=b.fresh("sizes"))
            outs = [_q(b, x, shape[:a] + [s] + shape[a + 1:]) for s in (k, shape[a] - k)]
            b.net.ops.append(Op("SPLIT_V", [x, stt, at], outs, ("SplitVOptions", dict(NumSplits=2))))
        d.append(f"{kind} rank={rank} axis={attr}")
        return outs
    if kind == "pack":
        a, attr = pick_axis(rng, rank, av, rank + 1)
        n = rng.choice([2, 2, 3])
        xs = [x] + [_second(b, x, shape) if rng.random() < 0.6 or rank > 4 else netgen_ext.ew_const(b, x, same_quant=True) for _ in range(n - 1)]
        o = _q(b, x, shape[:a] + [n] + shape[a:])
        b.net.ops.append(Op("PACK", xs, [o], ("PackOptions", dict(ValuesCount=n, Axis=attr))))
        d.append(f"pack rank={rank} axis={attr} n={n}")
        return [o]
    if kind == "unpack":
        cands = [i for i, dd in enumerate(shape) if 2 <= dd <= 4]
        if not cands:
            return None
        a, attr = pick_axis(rng, rank, av)
        if a not in cands:
            a = rng.choice(cands)
            attr = a - rank if attr < 0 else a
        outs = [_q(b, x, shape[:a] + shape[a + 1:]) for _ in range(shape[a])]
        b.net.ops.append(Op("UNPACK", [x], outs, ("UnpackOptions", dict(Num=shape[a], Axis=attr))))
        d.append(f"unpack rank={rank} axis={attr}")
        return outs
    if kind in ("mean", "sum"):
        if av == 0:
            axes = [rank - 1]
        elif av == 1:
            axes = [a for a in (rank - 3, rank - 2) if a >= 0] or [0]
        elif av == 2:
            axes = [0]
        elif av == 3:
            axes = [a for a in (rank - 2,) if a >= 0] or [0]
        else:
            axes = [a for a in range(rank) if rng.random() < 0.4] or [rng.randrange(rank)]
        keep = rng.random() < 0.5
        vals = [a - rank if (av in (1, 3) or (av >= 4 and rng.random() < 0.4)) else a for a in axes]
        ax = b.const([len(axes)], "int32", vals, name=b.fresh("axes"))
        oshape = [1 if i in axes else dd for i, dd in enumerate(shape)] if keep else [dd for i, dd in enumerate(shape) if i not in axes]
        same = rng.random() < 0.5
        o = _q(b, x, oshape) if same else b.fm(oshape, xt.dtype)
        b.net.ops.append(Op("MEAN" if kind == "mean" else "SUM", [x, ax], [o], ("ReducerOptions", dict(KeepDims=keep))))
        d.append(f"{kind} rank={rank} axes={vals} keep={keep}")
        return [o]
    if kind == "strided_slice":
        mode = ["plain_neg", "new_axis", "shrink", "masks", "short", "clamp"][av] if av < 6 else rng.choice(gen_ssmask.MODES)
        if rank > 4:
            mode = rng.choice(["plain_neg", "masks", "shrink"])
        for _ in range(6):
            r = gen_ssmask.ss_op(b, x, gen_ssmask.rand_spec(rng, shape, mode))
            if r is not None:
                return [r]
        return None
    if kind == "slice":
        begin = [rng.randint(0, dd - 1) if rng.random() < 0.6 else 0 for dd in shape]
        size = [rng.randint(1, dd - b0) for dd, b0 in zip(shape, begin)]
        if rank >= 4 and shape[0] == 1:
            begin[0], size[0] = 0, 1
        raw = [(-1 if (s + b0 == dd and rng.random() < 0.4) else s) for s, b0, dd in zip(size, begin, shape)]
        bt = b.const([rank], "int32", begin, name=b.fresh("begin"))
        st = b.const([rank], "int32", raw, name=b.fresh("size"))
        o = _q(b, x, size)
        b.net.ops.append(Op("SLICE", [x, bt, st], [o], ("SliceOptions", {})))
        d.append(f"slice rank={rank} begin={begin} size={raw}")
        return [o]
    if kind == "transpose":
        if rank < 2:
            perm = [0]
        elif av == 0:
            perm = list(range(rank - 2)) + [rank - 1, rank - 2]
        elif av == 1 and rank <= 4:
            perm = netgen_ext.transpose_perm_for(rng, shape) or list(range(rank))
        elif av == 2:
            perm = [1, 0] + list(range(2, rank))
        else:
            perm = list(range(rank))
            rng.shuffle(perm)
        o = _q(b, x, [shape[p] for p in perm])
        pt = b.const([rank], "int32", perm, name=b.fresh("perm"))
        b.net.ops.append(Op("TRANSPOSE", [x, pt], [o], ("TransposeOptions", {})))
        d.append(f"transpose rank={rank} perm={perm}")
        return [o]
    if kind == "softmax":
        d.append(f"softmax rank={rank}")
        return [b.unary("SOFTMAX", x)]
    if kind == "argmax":
        if xt.dtype not in ("int8", "uint8") or shape[-1] > 127:
            return None
        a, attr = pick_axis(rng, rank, av)
        at = b.const([], rng.choice(["int32", "int32", "int64"]), [attr], name=b.fresh("axis"))
        odt = rng.choice(["int32", "int32", "int64"])
        o = b.net.add(T(b.fresh("t"), shape[:a] + shape[a + 1:], odt))
        b.net.ops.append(Op("ARG_MAX", [x, at], [o], ("ArgMaxOptions", dict(OutputType=TT[odt]))))
        d.append(f"argmax rank={rank} axis={attr}")
        return [o]
    if kind == "ew_broadcast":
        # the other operand has rank q <= rank (or, swapped, x is the lower-rank one): trailing dimensions, some of them 1
        q = {0: rank, 1: max(1, rank - 1), 2: 1, 3: max(1, rank - 2)}.get(av, rng.randint(0, rank))
        s2 = shape[rank - q:] if q else []
        s2 = [1 if (rng.random() < 0.35 and (av >= 1)) else dd for dd in s2]
        opk = rng.choice(["ADD", "ADD", "SUB", "MUL", "MINIMUM", "MAXIMUM", "SQUARED_DIFFERENCE"])
        y = _second(b, x, s2, same_quant=opk in ("MINIMUM", "MAXIMUM") or rng.random() < 0.3, const=rng.random() < 0.4)
        args = [x, y] if rng.random() < 0.6 else [y, x]
        o = _q(b, x, shape) if opk in ("MINIMUM", "MAXIMUM") else b.fm(shape, xt.dtype)
        on = {"ADD": "AddOptions", "SUB": "SubOptions", "MUL": "MulOptions", "MINIMUM": "MaximumMinimumOptions",
              "MAXIMUM": "MaximumMinimumOptions", "SQUARED_DIFFERENCE": "SquaredDifferenceOptions"}[opk]
        b.net.ops.append(Op(opk, args, [o], (on, dict(FusedActivationFunction=0) if opk in ("ADD", "SUB", "MUL") else {})))
        d.append(f"ew_broadcast {opk} rank={rank} other={s2} swapped={args[0] != x}")
        return [o]
    if kind == "unary":
        opk = ["RELU", "LEAKY_RELU", "TANH", "ABS", "LOGISTIC", "HARD_SWISH", "RELU6"][av] if av < 7 else rng.choice(["RELU", "LEAKY_RELU", "TANH", "ABS", "LOGISTIC", "HARD_SWISH", "RELU_N1_TO_1", "EXP", "RSQRT"])
        if opk in ("EXP", "RSQRT") or (opk == "HARD_SWISH" and xt.dtype == "int16"):
            if xt.dtype != "int8":
                opk = "LEAKY_RELU"
        d.append(f"unary {opk} rank={rank}")
        if opk in ("EXP", "RSQRT"):
            return [netgen_ext.lut_op(b, opk, x)]
        return [b.unary(opk, x)]
    if kind == "expand_dims":
        a, attr = pick_axis(rng, rank, av, rank + 1)
        at = b.const([], "int32", [attr], name=b.fresh("axis"))
        o = _q(b, x, shape[:a] + [1] + shape[a:])
        b.net.ops.append(Op("EXPAND_DIMS", [x, at], [o], ("ExpandDimsOptions", {})))
        d.append(f"expand_dims rank={rank} axis={attr}")
        return [o]
    if kind == "squeeze":
        ones = [i for i, dd in enumerate(shape) if dd == 1]
        if not ones:
            return None
        sq = [i for i in ones if rng.random() < 0.7] or ones[:1]
        vals = [i - rank if (av in (1, 3) or (av >= 4 and rng.random() < 0.4)) else i for i in sq]
        o = _q(b, x, [dd for i, dd in enumerate(shape) if i not in sq])
        b.net.ops.append(Op("SQUEEZE", [x], [o], ("SqueezeOptions", dict(SqueezeDims=vals))))
        d.append(f"squeeze rank={rank} dims={vals}")
        return [o]
    if kind == "reshape":
        n = int(np.prod(shape)) if shape else 1
        cands = [[n], [1, n], [n, 1], [1, 1, n], [1, 1, 1, n], [1, n, 1, 1]]
        if rank >= 2:
            lead = int(np.prod(shape[:-1]))
            cands += [[lead, shape[-1]], [1, lead, shape[-1]], [1, 1, lead, shape[-1]], [shape[0], n // shape[0]], [1, 1] + [lead, shape[-1]] + [1]]
        new = rng.choice([c for c in cands if c != shape])
        if rng.random() < 0.3 and len(new) >= 2:
            # -1 in the shape operand: the reference infers the dimension
            o = _q(b, x, new)
            raw = list(new)
            raw[rng.randrange(len(new))] = -1
            st = b.const([len(new)], "int32", raw, name=b.fresh("shape"))
            b.net.ops.append(Op("RESHAPE", [x, st], [o], ("ReshapeOptions", dict(NewShape=raw))))
            d.append(f"reshape rank={rank} new={raw}")
            return [o]
        d.append(f"reshape rank={rank} new={new}")
        return [b.reshape(x, new)]
    if kind == "fc":
        if rank < 1:
            return None
        ic = shape[-1]
        oc = rng.choice([1, 3, 8])
        wd = "int8" if xt.dtype in ("int8", "int16") else "uint8"
        ws, wz = [netgen.rand_scale(rng, -8, -3)], [0] if wd == "int8" else [rng.randint(100, 150)]
        wt = b.const([oc, ic], wd, b.rand_weights([oc, ic], wd), ws, wz, 0, b.fresh("w"))
        br = np.random.RandomState(rng.getrandbits(32))
        bt = b.const([oc], "int64" if xt.dtype == "int16" else "int32", br.randint(-500, 500, oc), [xt.scales[0] * ws[0]], [0], 0, b.fresh("b"))
        keep = av in (1, 3) or (av >= 4 and rng.random() < 0.5)
        lead = int(np.prod(shape[:-1])) if rank > 1 else 1
        oshape = (shape[:-1] + [oc]) if keep else [lead, oc]
        o = b.fm(oshape, xt.dtype)
        b.net.ops.append(Op("FULLY_CONNECTED", [x, wt, bt] if rng.random() < 0.8 else [x, wt], [o],
                            ("FullyConnectedOptions", dict(FusedActivationFunction=rng.choice([0, 0, 1]), KeepNumDims=keep))))
        d.append(f"fc rank={rank} keep_num_dims={keep}")
        return [o]
    if kind == "quantize":
        d.append(f"quantize rank={rank}")
        return [b.quantize(x, rng.choice([None, None, "int8", "uint8", "int16"]))]
    if kind == "prelu":
        c = shape[-1] if shape else 1
        ash = {0: [c], 1: [1] * (rank - 1) + [c], 2: [1], 3: shape[1:] if rank > 1 else [c]}.get(av, [c])
        lo, hi = netgen._qrange(xt.dtype)
        r = np.random.RandomState(rng.getrandbits(32))
        at = b.const(ash, xt.dtype, r.randint(max(lo, -60), min(hi, 60) + 1, int(np.prod(ash))), [netgen.rand_scale(rng, -7, -4)],
                     [0 if xt.dtype != "uint8" else 128])
        o = b.fm(shape, xt.dtype)
        b.net.ops.append(Op("PRELU", [x, at], [o]))
        d.append(f"prelu rank={rank} alpha={ash}")
        return [o]
    raise ValueError(kind)


def build(b, rng, kind, rank, av, sink, pre, batch1=False):
    import netgen_ext

    shape = rand_shape(rng, rank, small=rank > 4)
    if batch1 and rank >= 4:
        shape[0] = 1          # batch > 1 on the NPU is a recorded finding of its own (C03: accelerated-box-with-batch>1-...)
    if kind == "squeeze" and 1 not in shape:
        shape[rng.randrange(rank)] = 1
    if kind == "unpack" and not any(2 <= dd <= 4 for dd in shape):
        shape[-1] = 2
    if kind in ("split",) and not any(dd % 2 == 0 and dd >= 2 for dd in shape):
        shape[-1] = 4
    x = b.input(shape)
    cur = x
    if pre and rank <= 4:
        cur = netgen_ext.npu_pre(b, x) or x
    res = build_op(b, cur, kind, av)
    if res is None:
        b.net.desc.append("fallback-relu")
        res = [b.unary("RELU", cur)]
    r = res[0]
    quant = b.t(r).scales is not None and b.t(r).dtype in ("int8", "uint8", "int16")
    outs = []
    parts = sink.split("+")
    if "out" in parts:
        outs.append(r)
    if "npu" in parts and quant:
        outs.append(netgen_ext.ew_const(b, r) if rng.random() < 0.7 and b.t(r).shape else b.unary("RELU", r))
    if "cpu" in parts:
        outs.append(netgen_ext.custom(b, [r]))
    for extra in res[1:]:
        w = rng.choice(["out", "npu", "unread"]) if "cpu" not in parts else rng.choice(["out", "cpu", "npu"])
        if w == "out" or (w == "npu" and b.t(extra).scales is None):
            outs.append(extra)
        elif w == "cpu":
            outs.append(netgen_ext.custom(b, [extra]))
        elif w == "npu":
            outs.append(netgen_ext.ew_const(b, extra) if b.t(extra).shape else b.unary("RELU", extra))
    return b.finish(outs or [r])


def decode(variant):
    nk = len(KINDS)
    return KINDS[variant % nk], RANKS[(variant // nk) % len(RANKS)], variant // (nk * len(RANKS))


def rank_sweep(rng, idx, variant=None):
    if variant is None:
        variant = rng.randrange(len(KINDS) * len(RANKS) * 8)
    kind, rank, av = decode(variant)
    sink = SINKS[(variant + variant // len(KINDS)) % len(SINKS)]
    dtype = rng.choice(["int8", "int8", "uint8", "int16"])
    if kind == "argmax" and dtype == "int16":
        dtype = "int8"
    b = B(rng, f"pat{idx}_rank_sweep", dtype)
    pre = rng.random() < 0.5
    b.net.desc.append(f"pattern=rank_sweep kind={kind} rank={rank} av={av} sink={sink} dtype={dtype} pre={pre}")
    return build(b, rng, kind, rank, av, sink, pre)


def c01_net(rng, idx, make_builder):
    kind, rank, av = decode(idx)
    if rank > 4:
        # ranks 5 and 6 stay on the CPU: fewer of them, the accelerated ranks with further axis variants instead
        rank, av = 1 + (idx // len(KINDS)) % 4, av + 4
    sink = ["out", "npu", "out+npu"][(idx + idx // len(KINDS)) % 3]
    dtype = rng.choice(["int8"] * 5 + ["uint8"] * 3 + ["int16"])
    if kind == "argmax" and dtype == "int16":
        dtype = "int8"
    b = make_builder(rng, f"c01_ranks_{idx}", dtype)
    pre = rng.random() < 0.5
    b.net.desc.append(f"profile=ranks kind={kind} rank={rank} av={av} sink={sink} dtype={dtype} pre={pre}")
    return build(b, rng, kind, rank, av, sink, pre, batch1=True)


def c16_cases(rng, thorough=False):
    """[(label, Net)]: the operator alone on a fresh input (placement is predicted per source operator)"""
    out = []
    for av in range(6 if thorough else 2):
        for rank in RANKS:
            for kind in KINDS:
                dtype = rng.choice(["int8", "int8", "uint8", "int16"])
                if kind == "argmax":
                    dtype = rng.choice(["int8", "uint8"])
                b = B(rng, "c16r", dtype)
                label = f"rank_sweep {kind} rank {rank} av {av} {dtype}"
                b.net.desc.append(label)
                out.append((label, build(b, rng, kind, rank, av, "out", False)))
    return out
