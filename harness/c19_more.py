"""C19, second part: table generators outside tflite_graph_optimiser's integer tables.

  * softmax_exp_stream   SoftMax.generate_exp_table (8-bit SOFTMAX exp table): the real function against
                         Model/SoftmaxTable.lean, its own table judged by Spec/SoftmaxRef.lean (TFLite PreprocessSoftmaxScaling +
                         CalculateInputRadius + exp_on_negative_values, exact integer arithmetic, no Float).

Every verdict on real output is computed by a Lean definition; this module only generates inputs, calls the real code and
classifies the Lean answers.
"""
import math
import os
import re
import struct
import traceback


def dbl_bits(x):
    return struct.unpack("<Q", struct.pack("<d", float(x)))[0]


def _exc_kind(e):
    tb = traceback.extract_tb(e.__traceback__)
    last = tb[-1]
    src = (last.line or "").strip()
    where = f"{os.path.basename(last.filename)}:{last.lineno} `{src}`"
    if isinstance(e, AssertionError):
        return "err:assert", where
    if isinstance(e, OverflowError):
        # NumPy 2: np.int32(python_int) inside an `assert np.int32(x) == x` line of fp_math.py is the assert firing
        if last.filename.endswith("fp_math.py") and src.startswith("assert "):
            return "err:assert", where
        return "err:overflow", where
    if isinstance(e, ValueError):
        return "err:value", where
    if isinstance(e, ZeroDivisionError):
        return "err:zerodiv", where
    return "exc:" + type(e).__name__, where


# ----------------------------------------------------------------------------------------------------------------------
# 8-bit SOFTMAX exp table
# ----------------------------------------------------------------------------------------------------------------------
SOFTMAX_BETAS = [0.1, 0.5, 0.7, 1.0, 1.3, 2.0, 3.0]
# significand of beta * input_scale within 2^-32 of 1: quantise_scale returns the unnormalised multiplier 2^31 (TFLite halves it, and so
# does generate_exp_table since /repo 20248de; before that it raised - the corner stays in the generator)
M31_BETA = 10610063 / 2 ** 23          # float32-valued; 10610063 * 13264529 = 2^47 - 1
M31_SCALE_SIG = 13264529 / 2 ** 23


def softmax_cases(ck, np):
    """(beta object, scale object, tags) — argument types as the callers deliver them: beta is a Python float read from the
    SoftmaxOptions (float32-valued) or set by a caller (any double) or an np.float32; the scale is the tensor's scale_f32:
    np.float32 from tflite_reader, np.float64 / Python float from internally created quantisations."""
    rng = ck.rng
    th = ck.thorough
    f32 = np.float32
    beta_forms = [("float(f32-valued)", lambda b: float(f32(b))), ("float", float), ("np.float32", f32)]
    scale_forms = [("np.float32", f32), ("np.float64", np.float64), ("float", float), ("np.float64(f32-valued)", lambda s: np.float64(f32(s)))]
    cases = []

    def add(beta, scale, bf, sf, tag):
        cases.append({"beta": beta_forms[bf][1](beta), "scale": scale_forms[sf][1](scale), "beta_type": beta_forms[bf][0],
                      "scale_type": scale_forms[sf][0], "tag": tag})

    typical = [1 / 256, 1 / 128, 0.0625, 0.1, 0.05, 0.0235, 0.2, 1.0]
    # every listed beta x every type combination at least once, typical + random realistic scales
    for beta in SOFTMAX_BETAS:
        for bf in range(3):
            for sf in range(4):
                add(beta, rng.choice(typical), bf, sf, "typical")
                add(beta, math.exp(rng.uniform(math.log(2e-4), math.log(0.5))), bf, sf, "realistic")
    nrand = 120 if not th else 3000
    for _ in range(nrand):
        r = rng.random()
        beta = math.exp(rng.uniform(math.log(0.05), math.log(8.0))) if r < 0.7 else rng.choice(SOFTMAX_BETAS)
        scale = math.exp(rng.uniform(math.log(2e-4), math.log(0.5))) if rng.random() < 0.8 else math.exp(rng.uniform(math.log(1e-7), math.log(50.0)))
        add(beta, scale, rng.randrange(3), rng.randrange(4), "random")
    # extremes: real_beta = beta*scale*2^26 saturates at 2^31 - 1 for beta*scale >= 32; diff_min reaches 0
    for beta in SOFTMAX_BETAS + [math.exp(rng.uniform(math.log(0.05), math.log(8.0))) for _ in range(4)]:
        for k, sc in enumerate([32.0 / beta, 32.0 / beta * (1 - 2e-7), 32.0 / beta * (1 + 2e-7), 16.0 / beta, 31.0 / beta, 40.0, 1e3, 1e6,
                                rng.uniform(2.0, 40.0) / beta]):
            add(beta, sc, rng.randrange(3), rng.randrange(4), "saturating")
        # lower end: real_beta around 1 (reference requires > 1), around 0.5 (shift turns negative below)
        for sc in [2.0 ** -26 / beta * (1 + 3e-7), 2.0 ** -26 / beta * (1 - 3e-7), 2.0 ** -26 / beta * 1.7, 2.0 ** -27 / beta * (1 + 3e-7),
                   2.0 ** -25 / beta, 2.0 ** -24 / beta * 1.3]:
            add(beta, sc, rng.randrange(3), rng.randrange(4), "lower-end")
    # powers of two and all-ones significands (shift boundaries of quantise_scale)
    for k in range(-25, 5, 1 if th else 3):
        add(1.0, 2.0 ** k, 0, rng.randrange(4), "pow2")
        add(1.0, 2.0 ** k * (1 - 2 ** -24), 0, 0, "pow2-")
        add(float(f32(0.7)), 2.0 ** k, 2, 0, "pow2")
    # quantise_scale returns 2^31 (significand of the double product within 2^-32 of 1)
    for j in (4, 6, 9):
        add(M31_BETA, M31_SCALE_SIG * 2.0 ** -j, 0, 0, "multiplier-2^31")
        add(M31_BETA, M31_SCALE_SIG * 2.0 ** -j, 2, 3, "multiplier-2^31")
    # malformed stream: what no tensor should carry; the model rejects what the code rejects
    for beta, sc in [(1.0, 0.0), (1.0, -0.1), (-1.0, 0.1), (0.0, 0.1), (1.0, float("nan")), (1.0, float("inf")), (1.0, float("-inf")),
                     (float("nan"), 0.1), (1.0, 1e-9), (1.0, 2.0 ** -27), (1.0, 2.0 ** -27 * (1 - 2 ** -24)), (1.0, 1e-30), (1.0, 5e-324), (1.0, 1e300)]:
        add(beta, sc, 1, rng.choice([1, 2]), "malformed")
        add(beta, sc, 2 if beta == beta and abs(beta) < 1e30 else 1, 0, "malformed")
    return cases


def softmax_exp_stream(ck, np):
    from ethosu.vela.data_type import DataType
    from ethosu.vela.operation import Op
    from ethosu.vela.softmax import SoftMax
    from ethosu.vela.tensor import QuantizationParameters
    from ethosu.vela.test import testutil

    rng = ck.rng
    cases = softmax_cases(ck, np)

    def via_graph(beta, scale):
        """the table as it ends up in the graph: SoftMax(op).get_graph() on a stub SOFTMAX, LUT tensor of the Sub+LUT(exp) pass"""
        dt = rng.choice([DataType.int8, DataType.uint8])
        op = testutil.create_op_with_quant_tensors(Op.Softmax, [1, 1, 4, 8], [1, 1, 4, 8], datatype=dt)
        for t, s, z in ((op.ifm, scale, 3), (op.ofm, np.float32(1 / 256), -128 if dt == DataType.int8 else 0)):
            q = QuantizationParameters()
            q.scale_f32 = s
            q.zero_point = np.int64(z)
            q.quant_min = 0 if dt == DataType.uint8 else -128
            q.quant_max = 255 if dt == DataType.uint8 else 127
            t.quantization = q
        op.attrs["beta"] = beta
        last = SoftMax(op).get_graph()
        # PASS 30 SHR <- PASS 29 MUL(ifm_exp, scale_factor) ; ifm_exp is produced by PASS 1 Sub + LUT(exp)
        mul29 = last.inputs[0].ops[0]
        sub1 = mul29.inputs[0].ops[0]
        lut = sub1.activation_lut
        assert lut is not None and sub1.type == Op.Sub, "PASS 1 Sub+LUT(exp) not found in the softmax graph"
        return [int(v) for v in np.asarray(lut.values).flatten()]

    reqs = []
    for c in cases:
        b, s = c["beta"], c["scale"]
        c["via"] = "get_graph_8bit" if (c["tag"] != "malformed" and rng.random() < 0.3) else "generate_exp_table"
        try:
            if c["via"] == "get_graph_8bit":
                tab = via_graph(b, s)
            else:
                tab = [int(v) for v in SoftMax(None).generate_exp_table(b, s)]
            c["status"], c["real"], c["detail"] = "ok", tab, None
        except Exception as e:  # noqa: the code under test may raise anything
            c["status"], c["detail"] = _exc_kind(e)
            c["detail"] = f"{type(e).__name__}: {e} at {c['detail']}"
            c["real"] = None
        bb, sb = dbl_bits(np.double(b)), dbl_bits(np.double(s))
        c["mi"] = len(reqs)
        reqs.append(f"smexp {bb} {sb}")
        c["ci"] = None
        c["qi2"] = len(reqs)
        reqs.append(f"smexpq {bb} {sb}")
        if c["real"] is not None:
            c["ci"] = len(reqs)
            reqs.append(f"smexpchk {bb} {sb} " + " ".join(map(str, c["real"])))
        else:
            # is the reference defined here?  (judge an all-zero dummy: `na` = undefined, anything else = defined)
            c["ci"] = len(reqs)
            reqs.append(f"smexpchk {bb} {sb} 0")
    outs = ck.model(reqs)
    n_eval = 0
    distinct = set()
    reported = set()
    for c in cases:
        mout = outs[c["mi"]]
        chk = outs[c["ci"]]
        verdict = chk.split(" ")[0]
        tag = c["tag"]
        ck.count(f"softmax_exp_{tag}")
        ck.count(f"softmax_exp_beta_{c['beta_type']}_scale_{c['scale_type']}")
        ck.count(f"softmax_exp_via_{c['via']}")
        ck.count(f"softmax_exp_status_{c['status']}")
        n_eval += 256 if c["real"] is not None else 1
        cfg = {"kind": "softmax_exp", "beta": float(c["beta"]), "beta_hex": float(c["beta"]).hex(), "beta_type": c["beta_type"],
               "input_scale": float(c["scale"]), "input_scale_hex": float(c["scale"]).hex(), "scale_type": c["scale_type"], "via": c["via"], "stream": tag}
        model_ok = mout.startswith("ok")
        if model_ok:
            mvals = mout.split()[1:]
            distinct.add(mout)
            nz = sum(1 for v in mvals if v != "0")
            ck.count("softmax_exp_tables_with_%s" % ("zero_tail_below_diff_min" if nz < 256 else "no_zero_tail"))
            if nz <= 1:
                ck.count("softmax_exp_tables_saturated_multiplier")
        else:
            ck.count("softmax_exp_model_" + mout)
        ck.count(f"softmax_exp_reference_{'ok' if verdict == '1' else ('na' if verdict == 'na' else 'reject')}")
        if outs[c["qi2"]].startswith("ok 2147483648 "):
            # quantise_scale returned the unnormalised multiplier 2^31 (renormalised by the code since 20248de and by the model):
            # records how often the corner was hit, nothing else - model = code and the reference verdict are judged below as everywhere
            ck.count("softmax_exp_tables_multiplier_2^31_renormalised")
        same = (c["status"] == "ok" and model_ok and " ".join(map(str, c["real"])) == mout[3:]) or (c["status"] != "ok" and c["status"] == mout)
        what = None
        found = True
        key = None
        if c["status"] == "ok":
            if verdict == "0":
                m = chk.split(" ")
                what = (f"SoftMax.generate_exp_table({c['beta_type']} {float(c['beta'])!r}, {c['scale_type']} {float(c['scale'])!r}) [{c['via']}]: "
                        f"exp table differs from the TFLite reference (PreprocessSoftmaxScaling in double + exp_on_negative_values): {chk[2:120]}")
                if same:
                    what += " although Model/SoftmaxTable.lean and the code agree (softmax_exp_table_spec must have failed too)"
            elif not same:
                what = (f"correspondence Model/SoftmaxTable.lean vs SoftMax.generate_exp_table broken: beta {c['beta_type']} {float(c['beta'])!r}, scale {c['scale_type']} "
                        f"{float(c['scale'])!r}: implementation table != model ({mout[:40]}…), reference verdict {chk[:60]}")
                found = False
        else:
            if verdict != "na":
                # the reference yields a table, the code raises
                what = (f"SoftMax.generate_exp_table({c['beta_type']} {float(c['beta'])!r}, {c['scale_type']} {float(c['scale'])!r}) raises {c['detail']} "
                        f"where the TFLite reference yields a table ({chk[chk.find('mult'):][:40]})")
            elif not same:
                what = (f"correspondence Model/SoftmaxTable.lean vs SoftMax.generate_exp_table broken on rejected input: beta {float(c['beta'])!r}, scale "
                        f"{float(c['scale'])!r}: implementation {c['status']} ({c['detail']}), model {mout[:40]}")
                found = False
        if what is None:
            continue
        rk = (key, found, tag if key is None else None)
        if rk in reported:
            continue
        reported.add(rk)
        ck.violation(what, {**cfg, "implementation_status": c["status"], "implementation_error": c["detail"],
                            "implementation_table": c["real"], "model": mout[:3000], "reference_verdict": chk[:300]}, found_input=found, key=key)
    for c in cases[:1] + [c for c in cases if c["tag"] == "saturating"][:1]:
        ck.sample({"softmax_exp": {"beta": float(c["beta"]), "beta_type": c["beta_type"], "input_scale": float(c["scale"]), "scale_type": c["scale_type"]},
                   "implementation": (c["real"] or [])[-6:], "lean_model": outs[c["mi"]][-70:], "reference_verdict": outs[c["ci"]][:60]})
    return {"evaluations": n_eval, "distinct": len(distinct), "cases": len(cases)}


def replay_softmax(ck, np, rp):
    from ethosu.vela.softmax import SoftMax
    tmap = {"np.float32": np.float32, "np.float64": np.float64, "np.float64(f32-valued)": np.float64, "float": float, "float(f32-valued)": float}
    b = tmap[rp["beta_type"]](float.fromhex(rp["beta_hex"]))
    s = tmap[rp["scale_type"]](float.fromhex(rp["input_scale_hex"]))
    try:
        tab = [int(v) for v in SoftMax(None).generate_exp_table(b, s)]
        real = "ok " + " ".join(map(str, tab))
    except Exception as e:  # noqa
        real, where = _exc_kind(e)
        tab = [0]
    bb, sb = dbl_bits(np.double(b)), dbl_bits(np.double(s))
    o = ck.model([f"smexp {bb} {sb}", f"smexpchk {bb} {sb} " + " ".join(map(str, tab))], parallel=False)
    print(f"replay softmax exp table beta={b!r} input_scale={s!r}: implementation {real[:80]}…  model {o[0][:80]}…  reference verdict: {o[1][:200]}")
    return 0 if (real == o[0] and o[1].split(' ')[0] in ("1", "na")) else 1


# ----------------------------------------------------------------------------------------------------------------------
# lut.create_lut_8bit_op / create_lut_int16_op through tflite_graph_optimiser.convert_ops_to_lut (EXP, LOG, SQRT, GELU),
# and the constant tables of the int16 SOFTMAX.  Validated with Lean Float (Handlers/LutFloat.lean), not proved.
# ----------------------------------------------------------------------------------------------------------------------
TIE_UNIT = float(1 << 40)


def _fields16(words):
    """512 hardware words -> (bases, slopes): bits [15:0] and [31:16] as 16-bit two's-complement fields"""
    bases, slopes = [], []
    for w in words:
        w = int(w) & 0xFFFFFFFF
        b, s_ = w & 0xFFFF, w >> 16
        bases.append(b - 0x10000 if b >= 0x8000 else b)
        slopes.append(s_ - 0x10000 if s_ >= 0x8000 else s_)
    return bases, slopes


def _decode16(words):
    """the 513 sample values a 512-word table encodes (field semantics)"""
    bases, slopes = _fields16(words)
    return bases + [bases[-1] + slopes[-1]]


def judge16(ck, what, cfg, real_words, lean_vals, dists, tol, path, stats, reported):
    """16-bit table: bases against the Lean Float samples (tie rule), then every slope field against the difference of the
    neighbouring samples.  A slope field that is exactly one too small on an entry with a NEGATIVE base is the finding
    lut16-negative-base-borrows-one-from-slope-field (word built as (slope << 16) + base with a signed base)."""
    bases, slopes = _fields16(real_words)
    r = []
    for j in range(512):
        a, b = bases[j], lean_vals[j]
        stats["entries"] += 1
        if a == b:
            stats["equal"] += 1
        elif abs(a - b) == 1 and dists[j] < TIE_UNIT * tol:
            stats["off_by_one_near_tie_double_path" if path == "double" else "off_by_one_within_float32_tolerance"] += 1
            ck.sample({"float_table_off_by_one_near_tie": cfg, "index": j, "implementation": a, "lean_float": b, "tie_distance_2^-40": dists[j],
                       "arithmetic": path}, limit=24)
        else:
            stats["worse"] += 1
            if (what, "worse") not in reported:
                reported.add((what, "worse"))
                ck.violation(f"{what}: base of entry {j} is {a}, the generator's formula evaluated in double precision (Lean Float) gives {b} "
                             f"(tie distance {dists[j] / TIE_UNIT:.3g} LSB, tolerated {tol:.3g}); config {cfg}",
                             {"kind": "float_table", **cfg, "index": j, "implementation": a, "lean_float": b})
        r.append(a)
    stats["entries"] += 1
    borrow = 0
    for j in range(512):
        nxt = r[j + 1] if j < 511 else lean_vals[512]
        want, got = nxt - r[j], slopes[j]
        if got == want:
            continue
        if not (-32768 <= want <= 32767):
            # a step the 16-bit slope field cannot hold (a saturated table jumping from one end of the range to the other inside one
            # segment: exp over an input range that reaches the float overflow); limit of the table format, counted
            ck.count("lut16_slope_not_representable_in_16_bits")
            continue
        if j == 511 and abs(got - want) == 1 and dists[512] < TIE_UNIT * tol:
            stats["off_by_one_near_tie_double_path" if path == "double" else "off_by_one_within_float32_tolerance"] += 1
            continue
        if got == want - 1 and r[j] < 0:
            borrow += 1
            continue
        stats["worse"] += 1
        if (what, "slope") not in reported:
            reported.add((what, "slope"))
            ck.violation(f"{what}: slope field of entry {j} is {got}, the difference of the neighbouring samples is {want} (base {r[j]}); config {cfg}",
                         {"kind": "float_table", **cfg, "index": j, "slope_field": got, "expected": want, "base": r[j]})
    stats["equal"] += 1 if not borrow else 0
    if borrow:
        ck.count("lut16_tables_with_slope_borrow")
        ck.count("lut16_slope_fields_one_too_small_on_negative_base", borrow)
        j = next(j for j in range(512) if r[j] < 0 and slopes[j] == ((r[j + 1] if j < 511 else lean_vals[512]) - r[j]) - 1)
        ck.violation(f"{what}: {borrow} of 512 hardware words carry a slope field one too small: the word is built as (slope << 16) + base with a NEGATIVE "
                     f"base, which borrows from the top half; e.g. entry {j}: base {r[j]}, next sample {(r[j + 1] if j < 511 else lean_vals[512])}, slope field {slopes[j]}, "
                     f"word 0x{int(real_words[j]) & 0xFFFFFFFF:08x}; config {cfg}",
                     {"kind": "float_table", **cfg, "index": j, "word": int(real_words[j]) & 0xFFFFFFFF, "base": r[j], "slope_field": slopes[j]},
                     key="lut16-negative-base-borrows-one-from-slope-field")


def lut_op_streams(ck, np):
    from ethosu.vela import tflite_graph_optimiser as tgo
    from ethosu.vela.data_type import DataType
    from ethosu.vela.operation import Op
    from ethosu.vela.softmax import SoftMax
    from ethosu.vela.tensor import QuantizationParameters
    from ethosu.vela.test import testutil

    rng = ck.rng
    th = ck.thorough
    OPS = {"exp": Op.Exp, "log": Op.Log, "sqrt": Op.Sqrt, "gelu": Op.Gelu, "gelu_tanh": Op.Gelu}
    ZTS = [("int", int), ("np.int64", np.int64)]
    STS = [("np.float32", np.float32), ("float", lambda v: float(np.float32(v))), ("np.float64", lambda v: np.float64(np.float32(v)))]

    def stub(kind, dt, si, zi, so, zo, zt, st):
        op = testutil.create_op_with_quant_tensors(OPS[kind], [1, 4, 4, 8], [1, 4, 4, 8], datatype=dt)
        for t, s, z in ((op.ifm, si, zi), (op.ofm, so, zo)):
            q = QuantizationParameters()
            q.scale_f32 = st(s)
            q.zero_point = zt(z)
            t.quantization = q
        if kind.startswith("gelu"):
            op.attrs["approximate"] = kind == "gelu_tanh"
        return op

    cases = []
    n8 = 90 if not th else 1200
    for i in range(n8):
        kind = ["exp", "log", "sqrt", "gelu", "gelu_tanh"][i % 5]
        si = math.exp(rng.uniform(math.log(1e-3), math.log(0.12)))
        so = math.exp(rng.uniform(math.log(1e-3), math.log(0.12)))
        if kind == "exp" and rng.random() < 0.5:
            so = math.exp(si * 127) / rng.uniform(120, 400)              # output range matched to the input range
        zi = rng.randrange(-128, 128) if kind in ("exp", "gelu", "gelu_tanh") else -128
        if kind in ("log", "sqrt") and rng.random() < 0.3:
            zi = rng.randrange(-127, 0)                                   # negative dequantised inputs: outside the function's domain (clamped by the generator's function)
        zo = rng.choice([-128, 0, 127]) if rng.random() < 0.3 else rng.randrange(-128, 128)
        cases.append(dict(bits=8, kind=kind, si=si, so=so, zi=zi, zo=zo, zt=ZTS[(i // 5) % 2], st=STS[(i // 10) % 3]))
    n16 = 40 if not th else 400
    for i in range(n16):
        kind = ["exp", "gelu", "gelu_tanh", "log", "sqrt"][i % 5]
        si = math.exp(rng.uniform(math.log(1e-5), math.log(3e-4)))
        so = math.exp(rng.uniform(math.log(1e-5), math.log(3e-4)))
        if kind == "exp":
            so = math.exp(si * 32767) / 32768 * rng.uniform(0.5, 1.5)
        if kind == "exp" and rng.random() < 0.15:
            si = rng.choice([0.03, 0.05])                                     # 32767 * scale > 709: math.exp overflows, the entries saturate
        cases.append(dict(bits=16, kind=kind, si=si, so=so, zi=0, zo=0, zt=ZTS[(i // 5) % 2], st=STS[(i // 10) % 3]))

    reqs = []
    for c in cases:
        dt = DataType.int8 if c["bits"] == 8 else DataType.int16
        try:
            r = tgo.convert_ops_to_lut(stub(c["kind"], dt, c["si"], c["zi"], c["so"], c["zo"], c["zt"][1], c["st"][1]), None, None)
            c["status"], c["detail"] = "ok", None
            c["real"] = [int(v) for v in np.asarray(r.activation_lut.values).flatten()]
        except Exception as e:  # noqa
            c["status"], where = _exc_kind(e)
            c["detail"] = f"{type(e).__name__}: {e} at {where}"
            c["real"] = None
        b1, b2 = dbl_bits(np.double(np.float32(c["si"]))), dbl_bits(np.double(np.float32(c["so"])))
        pre = "lut8op" if c["bits"] == 8 else "lut16op"
        args = f"{c['kind']} {b1} {b2} {c['zi']} {c['zo']}"
        c["ri"] = len(reqs)
        reqs.append(f"{pre} {args}")
        c["di"] = len(reqs)
        reqs.append(f"{pre}d {args}")
        if c["bits"] == 16:
            c["vi"] = len(reqs)
            reqs.append(f"{pre}v {args}")
    # constants of the int16 SOFTMAX
    ci = len(reqs)
    reqs += ["gen16 exp10", "gen16v exp10", "gen16d exp10", "gen16 recip1", "gen16v recip1", "gen16d recip1"]
    outs = ck.model(reqs)

    def ints(line):
        return [int(v) for v in line.split()[1:]]

    n_eval = 0
    stats = {"entries": 0, "equal": 0, "off_by_one_near_tie_double_path": 0, "off_by_one_within_float32_tolerance": 0, "worse": 0}
    reported = set()

    def judge(what, cfg, real_vals, lean_vals, dists, tol, path):
        """entry-wise: equal, or +-1 with the unrounded value within tol (LSB) of a rounding tie"""
        for j, (a, b) in enumerate(zip(real_vals, lean_vals)):
            stats["entries"] += 1
            if a == b:
                stats["equal"] += 1
            elif abs(a - b) == 1 and dists[j] < TIE_UNIT * tol:
                stats["off_by_one_near_tie_double_path" if path == "double" else "off_by_one_within_float32_tolerance"] += 1
                ck.sample({"float_table_off_by_one_near_tie": cfg, "index": j, "implementation": a, "lean_float": b, "tie_distance_2^-40": dists[j],
                           "arithmetic": path}, limit=24)
            else:
                stats["worse"] += 1
                if (what, "worse") not in reported:
                    reported.add((what, "worse"))
                    ck.violation(f"{what}: sample {j} is {a}, the generator's formula evaluated in double precision (Lean Float) gives {b} "
                                 f"(tie distance {dists[j] / TIE_UNIT:.3g} LSB, tolerated {tol:.3g}); config {cfg}",
                                 {"kind": "float_table", **cfg, "index": j, "implementation": a, "lean_float": b})

    for c in cases:
        cfg = {"generator": "create_lut_8bit_op" if c["bits"] == 8 else "create_lut_int16_op", "op": c["kind"], "ifm_scale": float(np.float32(c["si"])),
               "ofm_scale": float(np.float32(c["so"])), "zp_in": c["zi"], "zp_out": c["zo"], "zero_point_type": c["zt"][0], "scale_type": c["st"][0]}
        tag = f"lut{c['bits']}op_{c['kind']}"
        ck.count(f"{tag}_status_{c['status']}")
        ck.count(f"lut{c['bits']}op_scale_{c['st'][0]}_zp_{c['zt'][0]}")
        lean_tab = ints(outs[c["ri"]])
        dists = ints(outs[c["di"]])
        if c["status"] != "ok":
            undefined = c["kind"] in ("log", "sqrt") and c["zi"] > -128 and c["status"] == "err:value"
            if undefined:
                ck.count(f"{tag}_rejected_negative_dequantised_input")      # C13 finding ValueError@lut.create_lut_8bit_op / tflite_graph_optimiser.log
            elif (tag, "raise") not in reported:
                reported.add((tag, "raise"))
                ck.violation(f"{cfg['generator']} ({c['kind']}) raises {c['detail']}; config {cfg}", {"kind": "float_table", **cfg, "error": c["detail"]})
            n_eval += 1
            continue
        # arithmetic actually performed by the code (NumPy >= 2 promotion): float32 when a np.float32 scale meets a Python scalar
        if c["bits"] == 8:
            path = "float32" if c["st"][0] == "np.float32" else "double"
            tol = 2.0 ** -10 if path == "float32" else 1e-9
            if c["kind"] == "gelu":
                tol = max(tol, 1e-7)          # series erf of the handler vs libm erf
            judge(tag, cfg, c["real"], lean_tab, dists, tol, path)
            if any(not (-128 <= v <= 127) for v in c["real"]) and (tag, "range") not in reported:
                reported.add((tag, "range"))
                ck.violation(f"{tag}: entry outside [-128,127]", {"kind": "float_table", **cfg, "table": c["real"]})
            n_eval += 256
        else:
            path = "float32" if (c["st"][0] == "np.float32" and c["zt"][0] == "int") else "double"
            tol = 2.0 ** -6 if path == "float32" else 1e-7
            real_words = [w & 0xFFFFFFFF for w in c["real"]]
            lean_words = [w & 0xFFFFFFFF for w in lean_tab]
            stats["entries"] += 0
            if real_words == lean_words:
                stats["entries"] += 513
                stats["equal"] += 513
            else:
                judge16(ck, tag, cfg, real_words, ints(outs[c["vi"]]), dists, tol, path, stats, reported)
            n_eval += 513
    # --- constant tables of the int16 SOFTMAX: TFLite gen_lut(exp, -10, 0) and gen_lut(1/(1+x), 0, 1)
    for k, (name, tab) in enumerate((("SoftMax.EXP_LUT", SoftMax.EXP_LUT), ("SoftMax.ONE_OVER_ONE_PLUS_X_LUT", SoftMax.ONE_OVER_ONE_PLUS_X_LUT))):
        lean_words = [w & 0xFFFFFFFF for w in ints(outs[ci + 3 * k])]
        real_words = [int(w) & 0xFFFFFFFF for w in tab]
        n_eval += 512
        ck.count("softmax16_constant_words", 512)
        if len(real_words) != 512:
            ck.violation(f"{name} has {len(real_words)} words, the hardware table has 512", {"kind": "softmax16_const", "table": name, "length": len(real_words)})
            continue
        if real_words != lean_words:
            cfg = {"generator": name, "reference": "TFLite gen_lut, 513 samples, output scale 2^-15"}
            judge(name, cfg, _decode16(real_words), ints(outs[ci + 3 * k + 1]), ints(outs[ci + 3 * k + 2]), 1e-9, "double")
        else:
            stats["entries"] += 513
            stats["equal"] += 513
    # ... and they are the tables get_graph_int16 attaches to PASS 3 (Add + LUT exp) and PASS 11 (Sub + LUT 1/(1+x))
    try:
        op = testutil.create_op_with_quant_tensors(Op.Softmax, [1, 1, 4, 8], [1, 1, 4, 8], datatype=DataType.int16)
        for t, s in ((op.ifm, 1e-3), (op.ofm, 1 / 32768)):
            q = QuantizationParameters()
            q.scale_f32, q.zero_point, q.quant_min, q.quant_max = np.float32(s), np.int64(0), -32768, 32767
            t.quantization = q
        op.attrs["beta"] = 1.0
        last = SoftMax(op).get_graph()
        mul12 = last.inputs[0].ops[0]
        add3, sub11 = mul12.inputs[0].ops[0], mul12.inputs[1].ops[0]
        got = [[int(v) & 0xFFFFFFFF for v in np.asarray(o.activation_lut.values).flatten()] for o in (add3, sub11)]
        want = [[int(w) & 0xFFFFFFFF for w in SoftMax.EXP_LUT], [int(w) & 0xFFFFFFFF for w in SoftMax.ONE_OVER_ONE_PLUS_X_LUT]]
        ck.count("softmax16_graph_luts_checked", 2)
        if got != want:
            ck.violation("get_graph_int16: the LUT tensors of PASS 3 / PASS 11 are not SoftMax.EXP_LUT / ONE_OVER_ONE_PLUS_X_LUT",
                         {"kind": "softmax16_const", "pass3_first_words": got[0][:8], "pass11_first_words": got[1][:8]}, found_input=False)
    except Exception as e:  # noqa
        ck.violation(f"get_graph_int16 on a stub int16 SOFTMAX raised {type(e).__name__}: {e}", {"kind": "softmax16_const", "error": repr(e)}, found_input=False)
    # --- PASS 2 of the int16 SOFTMAX: the constant that rescales the input difference to the domain of EXP_LUT ([-10, 0] over 65535 codes)
    def f32bits(v):
        return struct.unpack("<I", struct.pack("<f", float(np.float32(v))))[0]
    sm = []
    for beta, sc in [(1.0, 1e-3), (1.0, math.exp(rng.uniform(math.log(2e-5), math.log(3e-3)))), (0.7, math.exp(rng.uniform(math.log(2e-5), math.log(3e-3)))),
                     (1.0, 2.0 ** -10), (2.0, 2.0 ** -12)]:
        try:
            op = testutil.create_op_with_quant_tensors(Op.Softmax, [1, 1, 4, 8], [1, 1, 4, 8], datatype=DataType.int16)
            for t, s_ in ((op.ifm, sc), (op.ofm, 1 / 32768)):
                q = QuantizationParameters()
                q.scale_f32, q.zero_point, q.quant_min, q.quant_max = np.float32(s_), np.int64(0), -32768, 32767
                t.quantization = q
            op.attrs["beta"] = float(np.float32(beta))
            last = SoftMax(op).get_graph()
            add3 = last.inputs[0].ops[0].inputs[0].ops[0]
            mul2 = add3.inputs[0].ops[0]
            const = int(np.asarray(mul2.inputs[1].values).flatten()[0])
            sm.append((beta, sc, const))
        except Exception as e:  # noqa
            ck.violation(f"get_graph_int16 (beta {beta}, input scale {sc}) raised {type(e).__name__}: {e}", {"kind": "softmax16_mul", "error": repr(e)}, found_input=False)
    sm_out = ck.model([f"sm16mul {f32bits(sc)} {f32bits(beta)}" for beta, sc, _c in sm], parallel=False)
    for (beta, sc, const), o in zip(sm, sm_out):
        n_eval += 1
        ck.count("softmax16_input_multiplier_checked")
        ref = o.split()
        if ref[0] == "ok" and int(ref[1]) != const:
            ck.count("softmax16_input_multiplier_differs_from_reference")
            ck.violation(f"int16 SOFTMAX PASS 2: input multiplier constant {const} for input scale {float(np.float32(sc))!r}, beta {beta}; the TFLite reference "
                         f"(float product, DOUBLE division by 10/65535, QuantizeMultiplier) gives {ref[1]} (shift {ref[2]})",
                         {"kind": "softmax16_mul", "input_scale": float(np.float32(sc)), "beta": beta, "implementation": const, "reference": o},
                         key="softmax-int16-input-rescale-divided-in-float32-numpy2")
    for k, v in stats.items():
        ck.count("lutop_float_" + k, v)
    return {"evaluations": n_eval, "distinct": len({(c["bits"], c["kind"], c["si"], c["so"], c["zi"], c["zo"]) for c in cases if c["status"] == "ok"}) + 2,
            "cases": len(cases), "float_entries": stats}


# ----------------------------------------------------------------------------------------------------------------------
# Siblings: the same quantisation, one attribute changed, in the same process, base first — each table judged on its own.
# A table generator that remembers anything between two calls (a cache keyed too coarsely, a mutated default, a module-level
# list) hands the sibling the base's table, which the Lean judge of the sibling then rejects.
# ----------------------------------------------------------------------------------------------------------------------
def sibling_stream(ck, np):
    from ethosu.vela import lut as lutmod
    from ethosu.vela import scaling
    from ethosu.vela import tflite_graph_optimiser as tgo
    from ethosu.vela.data_type import DataType
    from ethosu.vela.operation import Op
    from ethosu.vela.softmax import SoftMax
    from ethosu.vela.tensor import QuantizationParameters
    from ethosu.vela.test import testutil

    rng = ck.rng
    th = ck.thorough
    OPS = {"exp": Op.Exp, "log": Op.Log, "sqrt": Op.Sqrt, "gelu": Op.Gelu, "gelu_tanh": Op.Gelu, "sigmoid": Op.Sigmoid, "tanh": Op.Tanh,
           "lrelu": Op.LeakyRelu, "hswish": Op.HardSwish}
    DTS = {"int8": DataType.int8, "uint8": DataType.uint8, "int16": DataType.int16}
    captured = []
    orig_qs = scaling.quantise_scale

    def qs_wrap(s):
        r = orig_qs(s)
        captured.append((int(r[0]), int(r[1])))
        return r

    def make(kind, dtn, q, attr):
        """run the real generator; returns dict(status, real, reqs=[lean request lines], judge=kind of judge)"""
        dt = DTS[dtn]
        op = testutil.create_op_with_quant_tensors(OPS[kind], [1, 4, 4, 8], [1, 4, 4, 8], datatype=dt)
        lo, hi = (0, 255) if dtn == "uint8" else ((-128, 127) if dtn == "int8" else (-32768, 32767))
        for t, s, z in ((op.ifm, q["si"], q["zi"]), (op.ofm, q["so"], q["zo"])):
            qp = QuantizationParameters()
            qp.scale_f32, qp.zero_point, qp.quant_min, qp.quant_max = np.float32(s), np.int64(z), lo, hi
            t.quantization = qp
        if kind.startswith("gelu"):
            op.attrs["approximate"] = kind == "gelu_tanh"
        if kind == "lrelu":
            op.attrs["alpha"] = np.float32(attr)
        captured.clear()
        out = {"kind": kind, "dtype": dtn, "attr": attr, **q}
        try:
            if kind in ("exp", "log", "sqrt", "gelu", "gelu_tanh"):
                r = tgo.convert_ops_to_lut(op, None, None)
            elif kind in ("sigmoid", "tanh"):
                r = tgo.convert_tanh_sigmoid_to_lut(op, None, None)
            elif kind == "lrelu":
                r = tgo.convert_lrelu_to_lut(op, None)
            else:
                r = tgo.convert_hardswish_to_lut(op, None, None)
            out["status"], out["real"] = "ok", [int(v) for v in np.asarray(r.activation_lut.values).flatten()]
        except Exception as e:  # noqa
            st, where = _exc_kind(e)
            out["status"], out["real"], out["detail"] = st, None, f"{type(e).__name__}: {e} at {where}"
        b1, b2 = dbl_bits(np.double(np.float32(q["si"]))), dbl_bits(np.double(np.float32(q["so"])))
        sg = 0 if dtn == "uint8" else 1
        cap = list(captured)
        if kind in ("exp", "log", "sqrt", "gelu", "gelu_tanh"):
            pre = "lut8op" if dtn == "int8" else "lut16op"
            a = f"{kind} {b1} {b2} {q['zi']} {q['zo']}"
            out["reqs"] = [f"{pre} {a}", f"{pre}d {a}"] + ([f"{pre}v {a}"] if dtn == "int16" else [])
            out["judge"] = "float16" if dtn == "int16" else "float8"
        elif kind in ("sigmoid", "tanh"):
            a = f"{kind} {sg} {b1} {b2} {q['zi']} {q['zo']}"
            out["reqs"] = [f"lutf {a}", f"lutfd {a}"]
            out["judge"] = "float8"
        elif kind == "lrelu" and len(cap) >= 2:
            (ids, idsh), (als, alsh) = cap[0], cap[1]
            out["reqs"] = [f"lut lrelu {sg} {q['zi']} {q['zo']} {ids} {idsh} 1 {als} {alsh}"]
            if out["real"] is not None:
                out["reqs"].append(f"lutchk lrelu {sg} {q['zi']} {q['zo']} {ids} {idsh} {als} {alsh} " + " ".join(map(str, out["real"])))
            out["judge"] = "int"
        elif kind == "hswish" and len(cap) >= 2:
            (os_, osh), (rs, rsh) = cap[0], cap[1]
            out["reqs"] = [f"lut hswish {sg} {q['zi']} {q['zo']} {os_} {osh} {rs} {rsh}"]
            out["judge"] = "int"
        else:
            out["reqs"], out["judge"] = [], "none"
        return out

    def quant(dtn, kind):
        lo, hi = (0, 255) if dtn == "uint8" else ((-128, 127) if dtn == "int8" else (-32768, 32767))
        if dtn == "int16":
            si = math.exp(rng.uniform(math.log(1e-5), math.log(2e-4)))
            return dict(si=si, so=math.exp(rng.uniform(math.log(2e-5), math.log(3e-4))), zi=0, zo=0)
        si = math.exp(rng.uniform(math.log(4e-3), math.log(0.08)))
        so = math.exp(rng.uniform(math.log(4e-3), math.log(0.08)))
        return dict(si=si, so=so, zi=rng.randrange(lo, hi + 1), zo=rng.randrange(lo, hi + 1))

    # (base, sibling): (kind, dtype, attr)
    PAIRS = [(("gelu", "int8", None), ("gelu_tanh", "int8", None)), (("gelu_tanh", "int8", None), ("gelu", "int8", None)),
             (("gelu", "int16", None), ("gelu_tanh", "int16", None)), (("gelu_tanh", "int16", None), ("gelu", "int16", None)),
             (("exp", "int8", None), ("gelu", "int8", None)), (("sqrt", "int8", None), ("log", "int8", None)), (("log", "int8", None), ("sqrt", "int8", None)),
             (("sigmoid", "int8", None), ("tanh", "int8", None)), (("tanh", "uint8", None), ("sigmoid", "uint8", None)),
             (("lrelu", "int8", 0.1), ("lrelu", "int8", 0.3)), (("lrelu", "uint8", 0.5), ("lrelu", "uint8", 0.01)),
             (("hswish", "int8", None), ("sigmoid", "int8", None)), (("tanh", "int8", None), ("hswish", "int8", None)),
             (("lrelu", "int8", 0.2), ("tanh", "int8", None)),
             (("sigmoid", "int8", None), ("sigmoid", "uint8", None)), (("exp", "int8", None), ("exp", "int16", None)),
             (("exp", "int16", None), ("exp", "int8", None))]
    scaling.quantise_scale = qs_wrap
    tgo.quantise_scale = qs_wrap
    lutmod.quantise_scale = qs_wrap
    runs = []
    try:
        for rep in range(1 if not th else 6):
            for base, sib in PAIRS:
                kinds = {base[0], sib[0]}
                dts = {base[1], sib[1]}
                q = quant("int16" if dts == {"int16"} else "int8", None)
                if "log" in kinds or "sqrt" in kinds:
                    q["zi"] = -128
                if "uint8" in dts:
                    q["zi"], q["zo"] = rng.randrange(0, 128), rng.randrange(0, 128)       # valid for int8 and uint8
                if dts == {"int8", "int16"}:
                    q["zi"] = q["zo"] = 0
                    q["si"] = math.exp(rng.uniform(math.log(1e-4), math.log(3e-4)))        # exp over the int16 range stays finite
                rb = make(*base[:2], q, base[2])
                rs = make(*sib[:2], q, sib[2])
                rs["after"] = {"kind": base[0], "dtype": base[1], "attr": base[2]}
                runs += [rb, rs]
    finally:
        scaling.quantise_scale = orig_qs
        tgo.quantise_scale = orig_qs
        lutmod.quantise_scale = orig_qs
    # softmax exp table: same input scale, other beta; same beta, other scale type
    sm_runs = []
    for _ in range(2 if not th else 10):
        sc = math.exp(rng.uniform(math.log(5e-3), math.log(0.2)))
        for beta, scale in ((1.0, np.float32(sc)), (0.7, np.float32(sc)), (0.7, np.float64(np.float32(sc))), (1.3, np.float64(np.float32(sc)))):
            try:
                tab = [int(v) for v in SoftMax(None).generate_exp_table(beta, scale)]
            except Exception as e:  # noqa
                tab = None
            sm_runs.append({"beta": beta, "scale": scale, "real": tab})
    reqs = []
    for r in runs:
        r["i0"] = len(reqs)
        reqs += r["reqs"]
    for r in sm_runs:
        r["i0"] = len(reqs)
        bb, sb = dbl_bits(np.double(r["beta"])), dbl_bits(np.double(r["scale"]))
        reqs.append(f"smexpchk {bb} {sb} " + " ".join(map(str, r["real"] or [0])))
    outs = ck.model(reqs)

    def ints(line):
        return [int(v) for v in line.split()[1:]]

    n_eval = 0
    reported = set()
    for r in runs:
        cfg = {k: r[k] for k in ("kind", "dtype", "attr", "si", "so", "zi", "zo")}
        cfg["generated_after_sibling"] = r.get("after")
        ck.count("sibling_" + ("second" if "after" in r else "first"))
        bad = None
        if r["status"] != "ok":
            bad = f"raises {r.get('detail')}"
        elif r["judge"] == "int":
            n_eval += 256
            m = outs[r["i0"]]
            if m != "ok " + " ".join(map(str, r["real"])):
                j = next((j for j, (a, b) in enumerate(zip(r["real"], ints(m) if m.startswith("ok") else [])) if a != b), None)
                bad = f"entry {j}: implementation {r['real'][j] if j is not None else '?'}, Model/Lut.lean {ints(m)[j] if j is not None else m[:40]}"
            elif len(r["reqs"]) > 1 and outs[r["i0"] + 1] not in ("1", "na"):
                bad = f"Lean reference kernel rejects the table: {outs[r['i0'] + 1][:80]}"
        elif r["judge"] in ("float8", "float16"):
            lean = ints(outs[r["i0"]])
            dists = ints(outs[r["i0"] + 1])
            real = r["real"]
            if r["judge"] == "float16":
                real, lean = _decode16(real), ints(outs[r["i0"] + 2])
            n_eval += len(real)
            tol = 2.0 ** -10 if r["judge"] == "float8" else 1e-7
            for j, (a, b) in enumerate(zip(real, lean)):
                if a != b and not (abs(a - b) == 1 and dists[j] < TIE_UNIT * tol):
                    bad = f"entry {j}: implementation {a}, the {r['kind']} formula in double precision (Lean Float) gives {b}"
                    break
            if len(real) != len(lean):
                bad = f"{len(real)} entries, expected {len(lean)}"
        if bad and (r["kind"], r["dtype"], "after" in r) not in reported:
            reported.add((r["kind"], r["dtype"], "after" in r))
            what = f"{r['kind']} {r['dtype']} table" + (f" generated right after a {r['after']['kind']} {r['after']['dtype']} table with the same quantisation"
                                                        f"{' (attribute ' + str(r['after']['attr']) + ' -> ' + str(r['attr']) + ')' if r['attr'] is not None else ''}"
                                                        if "after" in r else "") + f": {bad}; config {cfg}"
            ck.violation(what, {"kind": "sibling_table", **cfg, "implementation_table": (r["real"] or [])[:512]})
    for r in sm_runs:
        n_eval += 256
        v = outs[r["i0"]]
        if r["real"] is None or not v.startswith("1"):
            if "smexp" not in reported:
                reported.add("smexp")
                ck.violation(f"softmax exp table for beta {r['beta']!r}, input scale {float(r['scale'])!r} ({type(r['scale']).__name__}) generated after a sibling "
                             f"(same scale, other beta / same beta, other scale type) is rejected by the Lean reference: {v[:100]}",
                             {"kind": "sibling_table", "beta": r["beta"], "input_scale": float(r["scale"]), "scale_type": type(r["scale"]).__name__,
                              "implementation_table": r["real"]})
    return {"evaluations": n_eval, "distinct": len(runs) + len(sm_runs), "cases": len(runs) + len(sm_runs)}


# ----------------------------------------------------------------------------------------------------------------------
# Quantize constant folding through the whole compiler: const -> QUANTIZE -> {ADD on the NPU, CUSTOM on the CPU}, written as a
# .tflite file, read by the real tflite_reader, compiled by vela.main, folded constant read back from the OUTPUT file with the
# plain walker and judged by the Lean reference Requantize (multiplier from the double quotient of the two float32 scales,
# clamp to the numeric limits of the output TYPE — what the reference kernel does, whatever quant_min/quant_max Vela keeps).
# ----------------------------------------------------------------------------------------------------------------------
def quantize_fold_pipeline_stream(ck, np):
    import netgen
    import pipeline
    import fbwalk

    rng = ck.rng
    th = ck.thorough
    LIM = {"int8": (-128, 127), "uint8": (0, 255), "int16": (-32768, 32767)}

    def dbl_me(x):
        mm, ee = math.frexp(float(x))
        return int(mm * (1 << 53)), ee - 53

    def build(din, dout, si, zi, so, zo, vals):
        b = netgen.B(rng, "qfold", dout)
        n = len(vals)
        c = b.const([1, 1, 1, n], din, vals, [si], [zi], name="qconst")
        q = b.fm([1, 1, 1, n], dout, scale=so, zp=zo, name="qfolded")
        b.net.ops.append(netgen.Op("QUANTIZE", [c], [q], ("QuantizeOptions", {})))
        x = b.input([1, 1, 1, n], dout, scale=so, zp=zo)
        o = b.binary("ADD", x, q)
        o2 = b.cpu_op(q, "custom")          # keeps the folded tensor visible as a named constant of the output file
        return b.finish([o, o2])

    def values(din, si, zi, so, zo, dout):
        lo, hi = LIM[din]
        olo, ohi = LIM[dout]
        vals = [lo, lo + 1, lo + 2, hi, hi - 1, hi - 2, 0, 1, -1 if lo < 0 else 2, zi if lo <= zi <= hi else 0]
        # constants that land exactly on / next to both saturation ends of the output type
        r = si / so
        for target in (olo, olo + 1, olo - 1, ohi, ohi - 1, ohi + 1, olo + 0.5, ohi - 0.5):
            v = round((target - zo) / r + zi)
            for d in (-1, 0, 1):
                if lo <= v + d <= hi:
                    vals.append(v + d)
        while len(vals) < 64:
            vals.append(rng.randrange(lo, hi + 1))
        return vals[:64]

    plans = []

    def plan(din, dout, si, zi, so, zo, tag):
        plans.append(dict(din=din, dout=dout, si=float(np.float32(si)), zi=zi, so=float(np.float32(so)), zo=zo, tag=tag))

    # int16 -> int16 (TFLite: zero point 0): saturating at both ends, not saturating, ratio not representable in float32
    plan("int16", "int16", 0.003, 0, 0.001, 0, "saturates-both-ends")
    plan("int16", "int16", 5 / 32767, 0, 6 / 32767, 0, "no-saturation")
    plan("int16", "int16", rng.randrange(2, 200) / 32767, 0, rng.randrange(1, 100) / 32767, 0, "random")
    # int8 -> int8: zero points at the limits of the type, saturation at both ends
    plan("int8", "int8", 0.05, -128, 0.02, 127, "zero-points-at-limits")
    plan("int8", "int8", 0.03, 127, 0.011, -128, "zero-points-at-limits")
    plan("int8", "int8", 0.1, rng.randrange(-128, 128), 0.3, rng.randrange(-128, 128), "no-saturation")
    plan("int8", "int8", rng.randrange(1, 99) / 255, rng.randrange(-128, 128), rng.randrange(1, 60) / 255, rng.randrange(-128, 128), "random")
    # combinations Vela does not fold today (lowered to NPU operations): recorded, judged if a constant should ever appear
    plan("uint8", "uint8", 0.05, 3, 0.02, 250, "not-folded-today")
    plan("int8", "uint8", 0.05, -3, 0.02, 128, "not-folded-today")
    if th:
        for _ in range(40):
            dt = rng.choice(["int8", "int16"])
            lo, hi = LIM[dt]
            zs = (0, 0) if dt == "int16" else (rng.choice([lo, hi, rng.randrange(lo, hi + 1)]), rng.choice([lo, hi, rng.randrange(lo, hi + 1)]))
            plan(dt, dt, math.exp(rng.uniform(math.log(1e-4), math.log(0.2))), zs[0], math.exp(rng.uniform(math.log(1e-4), math.log(0.2))), zs[1], "random")
        plan("uint8", "int8", 0.05, 130, 0.02, -3, "not-folded-today")
        plan("int16", "int8", 0.001, 0, 0.02, -3, "not-folded-today")
        plan("int8", "int16", 0.02, 5, 0.001, 0, "not-folded-today")
    reqs = []
    for p in plans:
        p["vals"] = values(p["din"], p["si"], p["zi"], p["so"], p["zo"], p["dout"])
        net = build(p["din"], p["dout"], p["si"], p["zi"], p["so"], p["zo"], p["vals"])
        data = netgen.serialize(net)
        acc = rng.choice(["ethos-u55-128", "ethos-u55-256", "ethos-u65-256", "ethos-u55-64"])
        p["accelerator"] = acc
        res = pipeline.compile_net(data, ["--accelerator-config", acc], introspect=False, reset=True)
        p["status"] = res.status
        p["folded"] = None
        p["error"] = None if res.status == "ok" else f"{type(res.exc).__name__}: {res.exc}"[:300]
        if res.status == "ok" and res.out_model:
            m = fbwalk.parse(res.out_model)
            for t in m["subgraphs"][0]["tensors"]:
                if t["name"] == "qfolded":
                    buf = m["buffers"][t["buffer"]]
                    if buf is not None and len(buf):
                        p["folded"] = [int(v) for v in np.frombuffer(bytes(buf), dtype=netgen.NP[t["type"]])]
                        p["folded_type"] = t["type"]
                        # the reader's / writer's view of the quantisation, as written back
                        p["written_scale_zp"] = (t["quant"]["scale"][:1], t["quant"]["zero_point"][:1]) if t["quant"] else None
                    # the copy the NPU reads: the same bytes must be in the flash tensor of the custom operator
                    for t2 in m["subgraphs"][0]["tensors"]:
                        if t2["name"].endswith("_flash") and p["folded"] is not None:
                            fb = bytes(m["buffers"][t2["buffer"]] or b"")
                            p["in_flash"] = bytes(buf) in fb
        if p["folded"] is not None:
            olo, ohi = LIM[p["dout"]]
            (m1, e1), (m2, e2) = dbl_me(p["si"]), dbl_me(p["so"])
            p["ri"] = len(reqs)
            reqs.append(f"lutchk quantf {olo} {ohi} {p['zi']} {p['zo']} {m1} {e1} {m2} {e2} " + " ".join(map(str, p["vals"])) + " " + " ".join(map(str, p["folded"])))
    outs = ck.model(reqs) if reqs else []
    n_eval = 0
    reported = set()
    for p in plans:
        cfg = {k: p[k] for k in ("din", "dout", "si", "zi", "so", "zo", "tag", "accelerator")}
        key = f"{p['din']}_to_{p['dout']}"
        ck.count(f"quantize_pipeline_{key}_{'folded' if p['folded'] is not None else ('not_folded' if p['status'] == 'ok' else p['status'])}")
        if p["status"] != "ok":
            if ("compile", key) not in reported:
                reported.add(("compile", key))
                ck.violation(f"const -> QUANTIZE ({p['din']} -> {p['dout']}) -> ADD network does not compile: {p['status']} {p['error']}; {cfg}",
                             {"kind": "quantize_pipeline", **cfg, "constants": p["vals"], "error": p["error"]}, found_input=True)
            continue
        if p["folded"] is None:
            if p["din"] == p["dout"] and p["din"] in ("int8", "int16") and ("nofold", key) not in reported:
                reported.add(("nofold", key))
                ck.violation(f"const -> QUANTIZE {key} was not constant-folded (no constant tensor 'qfolded' in the output file): the stream cannot observe optimise_quantize",
                             {"kind": "quantize_pipeline", **cfg}, found_input=False)
            continue
        n_eval += len(p["folded"])
        v = outs[p["ri"]]
        verdict = v.split(" ")[0]
        ck.count(f"quantize_pipeline_reference_{'ok' if verdict == '1' else ('na' if verdict == 'na' else 'reject')}")
        if p.get("in_flash") is False:
            ck.count("quantize_pipeline_constant_not_found_in_flash")
        if verdict == "0" and ("ref", key) not in reported:
            reported.add(("ref", key))
            mref = re.search(r"index (\d+) expected (-?\d+) got (-?\d+)", v)
            det = ""
            if mref:
                j = int(mref.group(1))
                det = f": constant {p['vals'][j]} is folded to {mref.group(3)}, the reference Requantize gives {mref.group(2)}"
            ck.violation(f"QUANTIZE {key} of a constant, compiled from a .tflite file (scales {p['si']!r} -> {p['so']!r}, zero points {p['zi']} -> {p['zo']}, {p['accelerator']})"
                         f"{det}; verdict {v[:160]}", {"kind": "quantize_pipeline", **cfg, "constants": p["vals"], "folded": p["folded"], "reference_verdict": v[:300]})
    if plans:
        p = plans[0]
        ck.sample({"quantize_pipeline": {k: p[k] for k in ("din", "dout", "si", "zi", "so", "zo", "tag")}, "constants": p["vals"][:12], "folded": (p["folded"] or [])[:12]})
    return {"evaluations": n_eval, "distinct": sum(1 for p in plans if p["folded"] is not None), "cases": len(plans)}
