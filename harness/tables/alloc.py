"""Constants of the tensor allocators (C05): class attributes of HillClimbAllocator, Tensor.AllocationQuantum."""
from ._lean import HEADER


def emit(repo):
    from ethosu.vela.hillclimb_allocation import HillClimbAllocator as H
    from ethosu.vela.tensor import Tensor

    assert H.NOT_ALLOCATED == -1 and H.NO_PREDECESSOR == -1   # modelled as `none`
    text = HEADER + f"""
namespace VelaVerif.Gen.AllocConst

/-- `HillClimbAllocator.MAX_ITERATIONS` (used when `max_iterations is None`) -/
def hcMaxIterations : Nat := {int(H.MAX_ITERATIONS)}
/-- `HillClimbAllocator.MAX_ITERATIONS_STUCK` -/
def hcMaxIterationsStuck : Nat := {int(H.MAX_ITERATIONS_STUCK)}
/-- `HillClimbAllocator.MIN_ITERATIONS_IMPROVE` -/
def hcMinIterationsImprove : Nat := {int(H.MIN_ITERATIONS_IMPROVE)}
/-- `Tensor.AllocationQuantum` -/
def allocationQuantum : Nat := {int(Tensor.AllocationQuantum)}

end VelaVerif.Gen.AllocConst
"""
    return {"AllocConst.lean": text}
