"""Constants of fp_math.py / lut.py that live inside function bodies (C19): the exp polynomial and
barrel-shifter constants, the RSQRT_LUT table, the sigmoid/tanh clamp limits.  They are literals in the
source of the *imported* modules, read with inspect + ast (there is no module attribute to read)."""
import ast
import inspect

from ._lean import HEADER, lit


def _const(node):
    """evaluate a literal int expression such as -2, +0, 1 << 5"""
    return eval(compile(ast.Expression(node), "<const>", "eval"), {"__builtins__": {}})


def emit(repo):
    from ethosu.vela import fp_math, lut, numeric_util

    t = ast.parse(inspect.getsource(fp_math.exp_on_negative_values))
    stages = []
    for n in ast.walk(t):
        if isinstance(n, ast.Call) and isinstance(n.func, ast.Name) and n.func.id == "exp_barrel_shifter":
            stages.append((int(_const(n.args[0])), int(_const(n.args[1]))))
    assigns = {}
    for fn in (fp_math.exp_on_negative_values, fp_math.exp_on_interval_between_negative_one_quarter_and_0_excl):
        for n in ast.walk(ast.parse(inspect.getsource(fn))):
            if isinstance(n, ast.Assign) and len(n.targets) == 1 and isinstance(n.targets[0], ast.Name):
                v = n.value
                # unwrap np.int32(<literal>)
                if isinstance(v, ast.Call) and len(v.args) == 1 and isinstance(v.args[0], ast.Constant):
                    v = v.args[0]
                if isinstance(v, ast.Constant) and isinstance(v.value, int):
                    assigns[n.targets[0].id] = int(v.value)
    need = ["constant_term", "constant_1_over_3", "offset", "one_quarter", "mask", "fractional_bits", "integer_bits"]
    missing = [k for k in need if k not in assigns]
    if missing or len(stages) != 7:
        raise RuntimeError(f"fp_math exp constants not found: missing={missing} stages={len(stages)}")

    rs = None
    for n in ast.walk(ast.parse(inspect.getsource(lut.create_lut_rsqrt_int8_op))):
        if isinstance(n, ast.Assign) and isinstance(n.targets[0], ast.Name) and n.targets[0].id == "RSQRT_LUT":
            rs = [int(_const(e)) for e in n.value.elts]
        if isinstance(n, ast.Assign) and isinstance(n.targets[0], ast.Name) and n.targets[0].id == "kshift":
            assigns["kshift"] = int(_const(n.value))
    if rs is None or "kshift" not in assigns:
        raise RuntimeError("RSQRT_LUT / kshift not found in lut.create_lut_rsqrt_int8_op")

    text = HEADER + f"""
namespace VelaVerif.Gen

/-- `exp_barrel_shifter(exponent, multiplier, result)` calls of `fp_math.exp_on_negative_values`, in order -/
def srcExpBarrel : List (Int × Int) := {lit(stages)}
def srcExpConstantTerm : Int := {lit(assigns["constant_term"])}
def srcExpConstant1Over3 : Int := {lit(assigns["constant_1_over_3"])}
def srcExpOffset : Int := {lit(assigns["offset"])}
def srcExpOneQuarter : Int := {lit(assigns["one_quarter"])}
def srcExpMask : Int := {lit(assigns["mask"])}
def srcExpFractionalBits : Int := {lit(assigns["fractional_bits"])}
def srcExpIntegerBits : Int := {lit(assigns["integer_bits"])}
/-- `RSQRT_LUT` of `lut.create_lut_rsqrt_int8_op` -/
def rsqrtLut : List Int := {lit(rs)}
def rsqrtKshift : Int := {lit(assigns["kshift"])}

end VelaVerif.Gen
"""
    return {"FpMathTables.lean": text}
