"""Operand index tables: for every builtin operator code of tflite_mapping.builtin_operator_map the TFLite
(ifms, weights, biases) triple the reader uses, the triple of the `Op` it maps to (operation.Op.info.indices),
and the TFLite triple the writer uses for that Op (builtin_operator_inv_map[op][2]); plus the inverse-map
entries that have no forward entry (CustomNpuOp)."""
from ._lean import HEADER, lean_list, lit


def _tri(ind):
    for part in (ind.ifms, ind.weights, ind.biases):
        for v in part:
            if not (isinstance(v, int) and v >= 0):
                raise ValueError(f"index table entry {v!r} is not a non-negative int")
    return "(" + ", ".join(lit([int(v) for v in part]) for part in (ind.ifms, ind.weights, ind.biases)) + ")"


def emit(repo):
    from ethosu.vela import tflite_mapping as tm

    rows = []
    seen_ops = set()
    for code in sorted(tm.builtin_operator_map, key=int):
        op, _ser, ind = tm.builtin_operator_map[code]
        seen_ops.add(op)
        w = tm.builtin_operator_inv_map[op][2]
        rows.append(f"({int(code)}, {lit(op.name)}, {_tri(ind)}, {_tri(op.info.indices)}, {_tri(w)})")
    extra = []
    for op, (code, _ser, ind) in tm.builtin_operator_inv_map.items():
        if op not in seen_ops:
            extra.append(f"({int(code)}, {lit(op.name)}, {_tri(ind)}, {_tri(op.info.indices)}, {_tri(ind)})")
    text = HEADER + f"""
namespace VelaVerif.Gen.OpIndices

/-- (ifms, weights, biases) -/
abbrev Tri := List Nat × List Nat × List Nat

/-- (builtin operator code, Op name, TFLite triple used by the reader (builtin_operator_map),
    triple of the Op (operation.py), TFLite triple used by the writer (builtin_operator_inv_map)) -/
def rawTable : List (Nat × String × Tri × Tri × Tri) := {lean_list(rows)}

/-- Ops that only the writer knows (no builtin_operator_map entry maps to them) -/
def rawWriterOnly : List (Nat × String × Tri × Tri × Tri) := {lean_list(extra)}

end VelaVerif.Gen.OpIndices
"""
    return {"OpIndices.lean": text}
