"""Source translation of ethosu/vela/cascade_builder.py -> lean/VelaVerif/Gen/SrcCascadeBuilder.lean."""
from ._src import emit_for


def emit(repo):
    return emit_for(repo, "cascade_builder")
