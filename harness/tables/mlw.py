"""Constants of the MLW weight codec, read from the C headers/sources of the tree under test
(C has no live objects: the `#define`s are parsed textually) and from weight_compressor's inputs."""
import os
import re

from ._lean import HEADER


def _defines(path):
    out = {}
    for m in re.finditer(r"^\s*#define\s+(\w+)\s+(\(?-?\d+\)?)\s*(?://.*)?$", open(path).read(), flags=re.M):
        out[m.group(1)] = int(m.group(2).strip("()"))
    return out


def emit(repo):
    d = os.path.join(repo, "ethosu", "mlw_codec")
    common = _defines(os.path.join(d, "mlw_common.h"))
    enc = open(os.path.join(d, "mlw_encode.c")).read()
    # `int ifm_block_depth = is_partkernel || ifm_bitdepth == 16 ? 16 : 32;`
    m = re.search(r"ifm_block_depth\s*=\s*is_partkernel\s*\|\|\s*ifm_bitdepth\s*==\s*16\s*\?\s*(\d+)\s*:\s*(\d+)\s*;", enc)
    if not m:
        raise RuntimeError("mlw_encode.c: ifm_block_depth rule not found")
    small, large = int(m.group(1)), int(m.group(2))
    from ethosu.vela.architecture_features import ArchitectureFeatures

    sk = ArchitectureFeatures.SubKernelMax
    text = HEADER + f"""
namespace VelaVerif.Gen.Mlw

/-- `mlw_common.h` -/
def zdivDisable : Nat := {common["ZDIV_DISABLE"]}
def zdivEos : Nat := {common["ZDIV_EOS"]}
def wdivUncompressed : Nat := {common["WDIV_UNCOMPRESSED"]}

/-- `reorder` in mlw_encode.c: IFM block depth for (part-kernel or 16-bit IFM) / otherwise -/
def ifmBlockDepthSmall : Nat := {small}
def ifmBlockDepthLarge : Nat := {large}

/-- `ArchitectureFeatures.SubKernelMax` (height, width): decomposition size before division by the dilation -/
def subKernelMaxH : Nat := {sk.height}
def subKernelMaxW : Nat := {sk.width}

end VelaVerif.Gen.Mlw
"""
    return {"Mlw.lean": text}
