"""Source translation of ethosu/vela/architecture_allocator.py -> lean/VelaVerif/Gen/SrcArchitectureAllocator.lean."""
from ._src import emit_for


def emit(repo):
    return emit_for(repo, "architecture_allocator")
