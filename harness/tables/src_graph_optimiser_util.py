"""Source translation of ethosu/vela/graph_optimiser_util.py -> lean/VelaVerif/Gen/SrcGraphOptimiserUtil.lean."""
from ._src import emit_for


def emit(repo):
    return emit_for(repo, "graph_optimiser_util")
