"""Source translation of ethosu/vela/driver_actions.py -> lean/VelaVerif/Gen/SrcDriverActions.lean."""
from ._src import emit_for


def emit(repo):
    return emit_for(repo, "driver_actions")
