"""Source translation of ethosu/vela/tflite_supported_operators.py -> lean/VelaVerif/Gen/ (see _src.py)."""
from ._src import emit_for


def emit(repo):
    return emit_for(repo, "tflite_supported_operators")
