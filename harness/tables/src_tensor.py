"""Source translation of ethosu/vela/tensor.py -> lean/VelaVerif/Gen/SrcTensor.lean."""
from ._src import emit_for


def emit(repo):
    return emit_for(repo, "tensor")
