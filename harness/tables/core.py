"""Accelerator rows, register bit-field layouts, driver action constants."""
from ._lean import HEADER, lean_list, lit


def emit(repo):
    from ethosu.vela.architecture_features import Accelerator, ArchitectureFeatures, create_default_arch
    from ethosu.vela.ethos_u55_regs import ethos_u55_regs as regs
    from ethosu.vela import driver_actions as da

    rows = []
    for acc in Accelerator:
        cfg = ArchitectureFeatures.accelerator_configs[acc]
        arch = create_default_arch(acc)
        rows.append(
            "{ name := %s, macs := %d, cores := %d, ofmUblock := ⟨%d, %d, %d⟩, ifmUblock := ⟨%d, %d, %d⟩,\n"
            "      shramBanks := %d, granules := %s, elemUnits := %d, isU65 := %s,\n"
            "      maxOutstandingDma := %d, maxOutstandingKernels := %d, shramSizeBytes := %d,\n"
            "      shramBankSize := %d, shramReservedOutputBanks := %d, shramReservedUnusedBanks := %d,\n"
            "      shramTotalBanks := %d, shramLutSize := %d, shramLutAddress := %d,\n"
            "      ofmBlockMax := ⟨%d, %d, %d⟩, maxAddressOffset := %d }"
            % (
                lit(acc.value), cfg.macs, cfg.cores,
                cfg.ofm_ublock.width, cfg.ofm_ublock.height, cfg.ofm_ublock.depth,
                cfg.ifm_ublock.width, cfg.ifm_ublock.height, cfg.ifm_ublock.depth,
                cfg.shram_banks, lit([int(x) for x in cfg.shram_granules]), cfg.elem_units,
                lit(bool(arch.is_ethos_u65_system)),
                arch.max_outstanding_dma, arch.max_outstanding_kernels, int(arch.shram_size_bytes),
                int(arch.shram_bank_size), int(arch.shram_reserved_output_banks),
                int(arch.shram_reserved_unused_banks), int(arch.shram_total_banks), int(arch.shram_lut_size),
                int(arch.shram_lut_address),
                arch.ofm_block_max.width, arch.ofm_block_max.height, arch.ofm_block_max.depth,
                int(arch.max_address_offset),
            )
        )

    def layout(cls):
        return lit([(n, int(w)) for (n, _t, w) in cls._bitfield._fields_])

    sk = ArchitectureFeatures.SubKernelMax
    text = HEADER + f"""
namespace VelaVerif.Gen

/-- width, height, depth (the field order of `architecture_features.Block`) -/
structure Blk where
  width : Nat
  height : Nat
  depth : Nat
deriving Repr, DecidableEq, Inhabited

structure AccRow where
  name : String
  macs : Nat
  cores : Nat
  ofmUblock : Blk
  ifmUblock : Blk
  shramBanks : Nat
  granules : List Nat
  elemUnits : Nat
  isU65 : Bool
  maxOutstandingDma : Nat
  maxOutstandingKernels : Nat
  shramSizeBytes : Nat
  shramBankSize : Nat
  shramReservedOutputBanks : Nat
  shramReservedUnusedBanks : Nat
  shramTotalBanks : Nat
  shramLutSize : Nat
  shramLutAddress : Nat
  ofmBlockMax : Blk
  maxAddressOffset : Nat
deriving Repr, DecidableEq, Inhabited

/-- `ArchitectureFeatures.accelerator_configs` joined with the values `create_default_arch` derives. -/
def accelerators : List AccRow := {lean_list(rows)}

def archVer : List Nat := {lit([int(x) for x in regs.ARCH_VER.split('.')])}
def ofmSplitDepth : Nat := {ArchitectureFeatures.OFMSplitDepth}
def subKernelMax : Blk := ⟨{sk.width}, {sk.height}, {sk.depth}⟩
def maxBlockdep : Nat := {ArchitectureFeatures.MAX_BLOCKDEP}

/-- ctypes bit-field layouts, least significant field first: (name, width) -/
def configRLayout : List (String × Nat) := {layout(regs.config_r)}
def idRLayout : List (String × Nat) := {layout(regs.id_r)}

def daReserved : Nat := {da.DACommands.Reserved}
def daConfig : Nat := {da.DACommands.Config}
def daConfigPatchShift : Nat := {da.DACommands.Config_PatchShift}
def daCmdStream : Nat := {da.DACommands.CmdStream}
def daReadAPB : Nat := {da.DACommands.ReadAPB}
def daDumpSHRAM : Nat := {da.DACommands.DumpSHRAM}
def daNOP : Nat := {da.DACommands.NOP}

end VelaVerif.Gen
"""
    return {"Core.lean": text}
