"""The operation graph `SoftMax.get_graph_8bit` builds (C01, `Model/SoftmaxGraph.lean`), read from the LIVE function.

The function is run (read-only, in-process) on a stub SOFTMAX operation — once with an int8 and once with a uint8 input —
and the graph hanging off the returned operation is walked: per pass (order = the pass number in the operation's name,
checked to be 0 … n-1) the operation type, its operands (graph input / OFM of an earlier pass / `[1,1,1,1]` int32 constant
with value and quantisation), the OFM quantisation and type, `rounding_mode`, `explicit_scaling` and the fused activation.
Each pass becomes one row of integers in the format of `SoftmaxGraph.Step.row`; `Props/C01Softmax.graph8_is_live_graph_*`
prove by `decide` that the rows are those of the hand-transcribed program the theorems are about.

Also emitted: `scaling.elementwise_mul_scale` on the scales {1.0, 2.0}³ (the OFM_SCALE of the int32 MULs of the graph),
computed by the live function.
"""
import re

from ._lean import HEADER, lit

KIND = {"MaxPool": 0, "Sub": 1, "Add": 2, "Mul": 3, "SHR": 4, "SHL": 5, "CLZ": 6, "ReduceSum": 7}
BETA = 0.7
IN_SCALE = 0.0123
OUT_SCALE = 1.0 / 256.0


def _stub(dtype, zp, qmin, qmax, ozp):
    import numpy as np
    from ethosu.vela.operation import Op, Operation
    from ethosu.vela.tensor import QuantizationParameters, Tensor

    def quant(scale, zero):
        q = QuantizationParameters()
        q.scale_f32 = np.float32(scale)
        q.zero_point = zero
        q.quant_min = qmin
        q.quant_max = qmax
        return q

    ifm = Tensor([1, 2, 3, 8], dtype, "ifm")
    ifm.quantization = quant(IN_SCALE, zp)
    ofm = Tensor([1, 2, 3, 8], dtype, "ofm")
    ofm.quantization = quant(OUT_SCALE, ozp)
    op = Operation(Op.Softmax, "sm")
    op.attrs["beta"] = BETA
    op.add_input_tensor(ifm)
    op.set_output_tensor(ofm)
    op.set_ifm_ofm_shapes()
    return op, ifm, ofm


def _rows(dtype, zp, qmin, qmax, ozp):
    import numpy as np
    from ethosu.vela import softmax
    from ethosu.vela.data_type import DataType
    from ethosu.vela.operation import Op, RoundingMode
    from ethosu.vela.tensor import TensorPurpose

    op, ifm, ofm = _stub(dtype, zp, qmin, qmax, ozp)
    sm = softmax.SoftMax(op)
    last = sm.get_graph_8bit(ifm, ofm)
    seen = {}

    def walk(o):
        if id(o) in seen:
            return
        seen[id(o)] = o
        for t in o.inputs:
            for p in t.ops:
                walk(p)

    walk(last)
    ops = [o for o in seen.values() if o.type != Op.Const]

    def passno(o):
        m = re.search(r"(\d+)$", o.name)
        if m is None:
            raise RuntimeError(f"operation {o.name} of the SOFTMAX graph carries no pass number")
        return int(m.group(1))

    ops.sort(key=passno)
    if [passno(o) for o in ops] != list(range(len(ops))):
        raise RuntimeError(f"pass numbers of the SOFTMAX graph are not 0..n-1: {[o.name for o in ops]}")
    index = {id(o): i for i, o in enumerate(ops)}
    in_scale = ifm.quantization.scale_f32
    out_scale = ofm.quantization.scale_f32

    def scale_code(q):
        s = None if q is None else q.scale_f32
        if s is None:
            return 0
        if s == in_scale:
            return 3
        if s == out_scale:
            return 4
        if float(s) == 1.0:
            return 1
        if float(s) == 2.0:
            return 2
        return 99

    def zp_of(q):
        return 0 if q is None or q.zero_point is None else int(q.zero_point)

    def dtype_code(dt):
        if dt == DataType.int32:
            return 1
        if dt == dtype:
            return 0
        return 99

    def operand(t):
        if t is ifm:
            return [0, 0, 0, 0]
        prod = [p for p in t.ops if p is not None]
        if len(prod) != 1:
            raise RuntimeError(f"tensor {t.name} has {len(prod)} producers")
        p = prod[0]
        if p.type == Op.Const:
            if list(t.shape) != [1, 1, 1, 1] or t.dtype != DataType.int32:
                raise RuntimeError(f"constant {t.name} is not a [1,1,1,1] int32 tensor")
            return [2, int(np.asarray(t.values).flatten()[0]), scale_code(t.quantization), zp_of(t.quantization)]
        return [1, index[id(p)], 0, 0]

    rows = []
    lut_ok = True
    for o in ops:
        kind = KIND.get(o.type.name, 99)
        main = [t for t in o.inputs if t.purpose != TensorPurpose.LUT]
        luts = [t for t in o.inputs if t.purpose == TensorPurpose.LUT]
        if not 1 <= len(main) <= 2:
            raise RuntimeError(f"{o.name}: {len(main)} operands")
        a = operand(main[0])
        b = operand(main[1]) if len(main) == 2 else [3, 0, 0, 0]
        if o.rounding_mode is None:
            half_up = 0
        elif o.rounding_mode == RoundingMode.HalfUp:
            half_up = 1
        else:
            half_up = 99
        if o.explicit_scaling is None:
            expl = [0, 0, 0]
        else:
            es = o.explicit_scaling
            if es.per_channel or len(es.multiplier) != 1 or len(es.shift) != 1:
                raise RuntimeError(f"{o.name}: explicit scaling is not a single (multiplier, shift)")
            expl = [1, int(es.multiplier[0]), int(es.shift[0])]
        act = o.activation
        if act is None:
            actrow = [0, 0, 0]
        elif act.op_type == Op.Clip:
            actrow = [1, int(act.min), int(act.max)]
        elif act.op_type == Op.LUT:
            actrow = [2, int(act.min), int(act.max)]
            table = sm.generate_exp_table(BETA, ifm.quantization.scale_f32)
            if len(luts) != 1 or [int(v) for v in np.asarray(luts[0].values).flatten()] != [int(v) for v in table]:
                lut_ok = False
        else:
            actrow = [99, 0, 0]
        if luts and (act is None or act.op_type != Op.LUT):
            lut_ok = False
        q = o.ofm.quantization
        rows.append([kind] + a + b + [scale_code(q), zp_of(q), dtype_code(o.ofm.dtype), half_up] + expl + actrow)
    if last is not ops[-1] or ops[-1].ofm is not ofm:
        raise RuntimeError("the operation get_graph_8bit returns is not the last pass writing the SOFTMAX OFM")
    return rows, lut_ok


def emit(repo):
    from ethosu.vela import scaling
    from ethosu.vela.data_type import DataType

    rows_i8, lut_i8 = _rows(DataType.int8, 3, -128, 127, -128)
    rows_u8, lut_u8 = _rows(DataType.uint8, 7, 0, 255, 0)
    muls = []
    for sa in (1, 2):
        for sb in (1, 2):
            for so in (1, 2):
                m, s = scaling.elementwise_mul_scale(float(sa), float(sb), float(so))
                muls.append(((sa, sb, so), (int(m), int(s))))

    def fmt(rows):
        return "[\n  " + ",\n  ".join(lit([int(v) for v in r]) for r in rows) + "\n]"

    text = HEADER + f"""
namespace VelaVerif.Gen

/-- rows of the graph `SoftMax.get_graph_8bit` returns for an int8 stub (input zero point 3, range -128..127, output
    zero point -128), one per pass, format of `SoftmaxGraph.Step.row` -/
def softmaxGraph8Int8 : List (List Int) := {fmt(rows_i8)}

/-- the same for a uint8 stub (input zero point 7, range 0..255, output zero point 0) -/
def softmaxGraph8Uint8 : List (List Int) := {fmt(rows_u8)}

/-- the LUT tensor of the LUT activation is the list `generate_exp_table(beta, input scale)` returns (both stubs) -/
def softmaxGraph8LutIsExpTable : Bool := {lit(bool(lut_i8 and lut_u8))}

/-- `scaling.elementwise_mul_scale(a, b, o)` for a, b, o ∈ {{1.0, 2.0}}: ((a, b, o), (multiplier, shift)) -/
def softmaxMulScales : List ((Int × Int × Int) × (Int × Int)) := {lit(muls)}

end VelaVerif.Gen
"""
    return {"SoftmaxGraph.lean": text}
