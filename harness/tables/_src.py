"""Shared configuration of the source translator plug-ins (harness/tables/src_*.py).

One `py2lean.Module` per translated Python file, all in one registry so that calls across modules
(`numeric_util.round_up` from `architecture_allocator`, ...) resolve to the translated callee.
`emit_for(repo, key)` returns {lean file: text} for one module."""
import os
import sys

sys.path.insert(0, os.path.dirname(os.path.dirname(os.path.abspath(__file__))))
import py2lean  # noqa: E402

N, B, L, T = py2lean.N, py2lean.B, py2lean.L, py2lean.T

_SUP_FNS = {"constraint_stride_range": "stride_range", "constraint_dilated_height_range": "dilated_height_range",
            "constraint_dilated_product_range": "dilated_product_range",
            "constraint_filter_height_range": "filter_height_range",
            "constraint_filter_product_range": "filter_product_range", "constraint_filter_range": "filter_range"}

# key -> (path relative to the repo, Lean module name, [functions], per-function configuration)
MODULES = {
    "fp_math": ("ethosu/vela/fp_math.py", "SrcFpMath", [
        "saturating_rounding_mul32", "saturating_rounding_mul16", "saturating_mul16", "shift_left32", "shift_left16",
        "downscale_multiplier_int32_to_int16", "rounding_divide_by_pot", "saturating_rounding_multiply_by_pot",
        "rescale", "exp_on_interval_between_negative_one_quarter_and_0_excl", "exp_on_negative_values",
        "multiply_by_quantized_multiplier"], {}),
    "numeric_util": ("ethosu/vela/numeric_util.py", "SrcNumericUtil", [
        "round_up", "round_down", "round_up_divide", "overlaps", "round_up_to_int", "full_shape"],
        {"full_shape": {"params": {"shape": L(N)}}}),
    "driver_actions": ("ethosu/vela/driver_actions.py", "SrcDriverActions", [
        "make_da_tag", "emit_cmd_stream_header", "emit_reg_read", "emit_dump_shram"],
        {"emit_cmd_stream_header": {"params": {"data": L(N)}},
         "emit_reg_read": {"params": {"data": L(N)}},
         "emit_dump_shram": {"params": {"data": L(N)}}}),
    "scaling": ("ethosu/vela/scaling.py", "SrcScaling", [
        "quantise_scale", "reduced_quantise_scale", "quantise_pooling_scale"],
        {"quantise_scale": {"opaque": {"math.frexp": [None, N]}, "opaque_targets": {"significand_q31": N}},
         "reduced_quantise_scale": {"opaque": {"quantise_scale": [N, N]}},
         "quantise_pooling_scale": {"opaque": {"math.frexp": [N, N]}}}),
    "architecture_allocator": ("ethosu/vela/architecture_allocator.py", "SrcArchitectureAllocator", [
        "_ifm_blockdepth"],
        {"_ifm_blockdepth": {"records": ["arch", "ifm_shape"], "params": {"is_partkernel": B}}}),
    "architecture_features": ("ethosu/vela/architecture_features.py", "SrcArchitectureFeatures", [
        "ArchitectureFeatures.calc_ifm_block_depth"],
        {"ArchitectureFeatures.calc_ifm_block_depth": {"records": ["self"]}}),
    "cascade_builder": ("ethosu/vela/cascade_builder.py", "SrcCascadeBuilder", [
        "rolling_buffer_shape"],
        {"__wrappers__": ["Shape4D"],
         "rolling_buffer_shape": {"records": ["producer_stripe", "consumer_stripe_input"]}}),
    "graph_optimiser_util": ("ethosu/vela/graph_optimiser_util.py", "SrcGraphOptimiserUtil", [
        "needed_total_padding", "calc_explicit_padding"], {}),
    "shape4d": ("ethosu/vela/shape4d.py", "SrcShape4d", [
        "Shape4D._clip_len", "Shape4D.clip", "Shape4D.round_up", "Shape4D.div_round_up", "Shape4D.__add__",
        "Shape4D.__sub__", "Shape4D.__floordiv__", "Shape4D.__mod__", "Shape4D.elements"],
        dict({"__tuples__": {"Shape4D": "ethosu/vela/shape4d.py"}},
             **{"Shape4D." + f: {"params": {p: py2lean.NT("Shape4D") for p in ps}} for f, ps in (
                 ("clip", ("self", "offset", "sub_shape")), ("round_up", ("lhs", "rhs")), ("div_round_up", ("self", "rhs")),
                 ("__add__", ("self", "rhs")), ("__sub__", ("self", "rhs")), ("__floordiv__", ("self", "rhs")),
                 ("__mod__", ("self", "rhs")), ("elements", ("self",)))})),
    "tensor": ("ethosu/vela/tensor.py", "SrcTensor", [
        "Tensor.get_strides", "Tensor.get_full_shape", "Tensor.storage_size_for_shape"],
        {"Tensor.get_strides": {"records": ["self"], "opaque": {"self.get_augmented_shape": [L(N)]},
                                "opaque_targets": {"stride": N}},
         "Tensor.get_full_shape": {"records": ["self"], "record_lists": ["self.shape"]},
         "Tensor.storage_size_for_shape": {"records": ["self"], "opaque": {"shape_num_elements": [N]},
                                           "opaque_targets": {}}}),
    "register_command_stream_util": ("ethosu/vela/register_command_stream_util.py", "SrcRegisterCommandStreamUtil", [
        "shape3d_size", "coords_intersect", "get_offset_block_coords", "get_prev_job_output_volume",
        "get_first_job_input_volume", "get_address", "get_strides", "get_address_range",
        "get_h_ranges", "get_address_ranges_for_area", "ranges_overlap", "range_lists_overlap",
        "get_address_ranges",
        "check_alignment", "check_size", "calc_blockdep"],
        {"__tuples__": {"PointXYZ": "ethosu/vela/operation.py", "NpuShape3D": "ethosu/vela/api.py",
                        "NpuAddressRange": "ethosu/vela/api.py"},      # field order is read from the source
         "calc_blockdep": {
             "records": ["arch", "prev_op", "npu_op"],
             "opaque_records": ["prev_block_config", "block_config", "overlapping_fm", "cur_ofm_block", "cur_ofm_rect",
                                "cur_ifm_rect", "padding", "kernel", "prev_ofm_block", "prev_ofm_rect"],
             "opaque_fns": {"get_address_ranges": L(py2lean.O(py2lean.NT("NpuAddressRange"))), "has_ifm2": B,
                            "get_ifm_ofm_block_depth": N,
                            "get_first_job_input_volume": py2lean.O(T(py2lean.NT("PointXYZ"), py2lean.NT("PointXYZ"), N)),
                            "get_prev_job_output_volume": py2lean.O(T(py2lean.NT("PointXYZ"), py2lean.NT("PointXYZ"), N)),
                            "intersects": B}},
         "get_strides": {"records": ["fm"], "record_tuples": {"fm.strides": "NpuShape3D"}},
         "get_address_range": {"records": ["fm", "strides"]},
         "get_h_ranges": {"records": ["fm", "strides"]},
         "ranges_overlap": {"records": ["range1", "range2"]},
         "get_address_ranges": {"records": ["fm"]},
         "get_address_ranges_for_area": {"records": ["fm", "start", "end"], "record_tuples": {"fm.shape": "NpuShape3D"}},
         "get_prev_job_output_volume": {"records": ["ofm", "ofm_block"]},
         "get_address": {"records": ["fm", "strides"], "record_lists": ["fm.tiles.addresses"]},
         "get_first_job_input_volume": {"records": ["arch", "ifm", "ofm", "ofm_block", "kernel", "padding"],
                                        "opaque_records": ["ifm_block"]},
         "shape3d_size": {"records": ["shape"]},
         "coords_intersect": {"records": ["start_a", "end_a", "start_b", "end_b"]},
         "get_offset_block_coords": {"records": ["area", "block"]}}),
    "hillclimb_allocation": ("ethosu/vela/hillclimb_allocation.py", "SrcHillclimbAllocation", [
        "LiveRangeInfo.overlaps", "LiveRangeInfo.is_neighbour", "LiveRangeInfo.__lt__"],
        {"LiveRangeInfo.overlaps": {"records": ["self"]},
         "LiveRangeInfo.is_neighbour": {"records": ["self", "lr"]},
         "LiveRangeInfo.__lt__": {"records": ["self", "other"]}}),
    "live_range": ("ethosu/vela/live_range.py", "SrcLiveRange", [
        "LiveRange.overlaps_ranges", "LiveRange.mark_usage"],
        {"LiveRange.overlaps_ranges": {"records": ["self", "other"]},
         # `mark_usage` assigns `self.start_time` / `self.end_time`: the translated function returns their final values
         "LiveRange.mark_usage": {"records": ["self"], "attr_stores": ["self.start_time", "self.end_time"]}}),
    # third round: the boolean part of integer constraint predicates.  Wrapper assumptions (exactly): the decorator
    # `docstring_format_args(..)` only formats `__doc__`; the second component of the returned pair (an f-string) has no
    # effect; `op.get_kernel_stride()` returns a pair of integers and `cls.<x>_range` is a pair of integers (both become
    # parameters); `op.kernel.height`, `op.kernel.area_height()`, ... are side-effect-free integer attributes / methods.
    "tflite_supported_operators": ("ethosu/vela/tflite_supported_operators.py", "SrcTfliteSupportedOperators", [
        "TFLiteSupportedOperators." + f for f in _SUP_FNS],
        {"TFLiteSupportedOperators." + f: {"records": ["op"], "ignore_decorators": ["docstring_format_args"],
                                           "ret_first_of_pair": True, "record_str_keys": True, "opaque_in_branches": True,
                                           "opaque": {"op.get_kernel_stride": [N, N], "cls." + r: [N, N]}}
         for f, r in _SUP_FNS.items()}),
    "operation": ("ethosu/vela/operation.py", "SrcOperation", [
        "Kernel.elements_wh", "Kernel.area_width", "Kernel.area_height"],
        {"Kernel." + f: {"records": ["self"]} for f in ("elements_wh", "area_width", "area_height")}),
    "weight_compressor": ("ethosu/vela/weight_compressor.py", "SrcWeightCompressor", ["encode_bias"], {}),
}

_cache = {}


class _Broken:
    """stand-in for a module whose file is missing or does not parse"""

    def __init__(self, err):
        self.err = err
        self.order = []

    def emit(self, fns):
        raise self.err


def registry(repo):
    if repo not in _cache:
        reg = {}
        mods = {}
        for key, (rel, lean, _fns, cfg) in MODULES.items():
            try:
                mods[key] = py2lean.Module(repo, rel, lean, cfg, reg)
            except (OSError, SyntaxError, ValueError) as e:
                mods[key] = _Broken(e)
        _cache[repo] = mods
    return _cache[repo]


def emit_for(repo, key):
    rel, lean, fns, _cfg = MODULES[key]
    try:
        mods = registry(repo)
        text, _status = mods[key].emit(fns)
    except Exception as e:  # noqa: BLE001  -- never let gen_tables.py fail: the obligations must break instead
        # the file is gone or does not parse: every function is untranslatable
        msg = f"{rel}: {type(e).__name__}: {e}".replace('"', "'")
        lines = ["-- GENERATED by harness/py2lean.py. DO NOT EDIT.", "import VelaVerif.Model.PyRt",
                 f"namespace VelaVerif.Gen.{lean}", "open VelaVerif.PyRt", ""]
        for f in fns:
            lines.append(f'def {py2lean.lean_ident(f)} : Untranslatable "{msg}" := ⟨⟩')
        lines += ["", f"end VelaVerif.Gen.{lean}", ""]
        text = "\n".join(lines)
    return {lean + ".lean": text}
