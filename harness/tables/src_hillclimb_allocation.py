"""Source translation of ethosu/vela/hillclimb_allocation.py -> lean/VelaVerif/Gen/ (see _src.py)."""
from ._src import emit_for


def emit(repo):
    return emit_for(repo, "hillclimb_allocation")
