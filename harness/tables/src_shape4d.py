"""Source translation of ethosu/vela/shape4d.py -> lean/VelaVerif/Gen/SrcShape4d.lean."""
from ._src import emit_for


def emit(repo):
    return emit_for(repo, "shape4d")
