"""Source translation of ethosu/vela/register_command_stream_util.py -> lean/VelaVerif/Gen/SrcRegisterCommandStreamUtil.lean."""
from ._src import emit_for


def emit(repo):
    return emit_for(repo, "register_command_stream_util")
