"""Tables the TFLite writer / reader models quantify over (Model/TfliteWriter.lean, Model/TfliteReader.lean), read from the
live objects of the tree under test:

* every `Op` with its sort key (`Op.__lt__` compares `value.id`), whether the writer treats it as a convolution-like operator
  (`is_conv2d_op() or is_depthwise_conv2d_op() or == FullyConnected`: weights / bias are swapped back to `src_tensor`), whether
  the reader gives it a missing bias (`needs_bias`), its operand index triple, and - when `builtin_operator_inv_map` has it - the
  builtin code, whether an option serialiser exists and the TFLite index triple the writer aligns to;
* `builtin_operator_map` (reader direction): builtin code -> Op name, has serialiser, TFLite index triple;
* `datatype_inv_map` (DataType name -> TensorType code) and `datatype_map` (code -> name, bits, base type), element sizes of
  `datatype_map_numpy`;
* the writer's constants: ignored operator types, buffer index constants, file identifier / schema version, the values of
  MemType.Scratch / Scratch_fast, TensorPurpose.Scratch."""
from ._lean import HEADER, lean_list, lit


def _tri(ind):
    for part in (ind.ifms, ind.weights, ind.biases):
        for v in part:
            if not (isinstance(v, int) and v >= 0):
                raise ValueError(f"index table entry {v!r} is not a non-negative int")
    return "(" + ", ".join(lit([int(v) for v in part]) for part in (ind.ifms, ind.weights, ind.biases)) + ")"


def emit(repo):
    import numpy as np
    from types import SimpleNamespace

    from ethosu.vela import tflite_mapping as tm
    from ethosu.vela import tflite_writer as tw
    from ethosu.vela.operation import Op
    from ethosu.vela.tensor import MemType, TensorPurpose
    from ethosu.vela.tflite.BuiltinOperator import BuiltinOperator

    ops = []
    for op in Op:
        convlike = bool(op.is_conv2d_op() or op.is_depthwise_conv2d_op() or op == Op.FullyConnected)
        inv = tm.builtin_operator_inv_map.get(op)
        if inv is None:
            w = "none"
        else:
            code, ser, ind = inv
            w = f"some ({int(code)}, {lit(ser is not None)}, {_tri(ind)})"
        ops.append(f"({lit(op.name)}, {int(op.value.id)}, {lit(convlike)}, {lit(bool(op.needs_bias()))}, {_tri(op.info.indices)}, {w})")
    rd = []
    for code in sorted(tm.builtin_operator_map, key=int):
        op, ser, ind = tm.builtin_operator_map[code]
        rd.append(f"({int(code)}, {lit(op.name)}, {lit(ser is not None)}, {_tri(ind)})")
    dinv = [f"({lit(str(k))}, {int(v)})" for k, v in tm.datatype_inv_map.items()]
    dmap = []
    for code in sorted(tm.datatype_map, key=int):
        dt = tm.datatype_map[code]
        npdt = tm.datatype_map_numpy.get(code)
        size = int(np.dtype(npdt).itemsize) if npdt is not None else 0
        dmap.append(f"({int(code)}, {lit(str(dt))}, {int(dt.bits)}, {lit(dt.type.name)}, {size})")
    ser = tw.TFLiteSerialiser(SimpleNamespace(subgraphs=[], metadata=[]))
    ignore = [o.name for o in ser.ops_to_ignore]
    text = HEADER + f"""
namespace VelaVerif.Gen.WriterTbl

/-- (ifms, weights, biases) -/
abbrev Tri := List Nat × List Nat × List Nat

/-- every member of operation.Op: (name, sort key `value.id`, convolution-like for the writer, needs_bias, operand index triple,
    builtin_operator_inv_map entry: (builtin code, has option serialiser, TFLite index triple)) -/
def ops : List (String × Nat × Bool × Bool × Tri × Option (Nat × Bool × Tri)) := {lean_list(ops)}

/-- builtin_operator_map: (builtin code, Op name, has option serialiser, TFLite index triple) -/
def readerOps : List (Nat × String × Bool × Tri) := {lean_list(rd)}

/-- datatype_inv_map: (str(DataType), TensorType code) -/
def dtypeInv : List (String × Nat) := {lean_list(dinv)}

/-- datatype_map: (TensorType code, str(DataType), bits, base type name, element size of datatype_map_numpy (0: none)) -/
def dtypeMap : List (Nat × String × Nat × String × Nat) := {lean_list(dmap)}

/-- TFLiteSerialiser.ops_to_ignore -/
def opsToIgnore : List String := {lit(ignore)}

def bufIdxZero : Nat := {int(ser.BUF_IDX_ZERO)}
def bufIdxStart : Nat := {int(ser.BUF_IDX_START)}
def tfliteVersion : Nat := {int(tw.tflite_version)}
def fileIdentifier : String := {lit(tw.tflite_file_identifier)}
def builtinCustom : Nat := {int(BuiltinOperator.CUSTOM)}
def memTypeScratch : Nat := {int(MemType.Scratch)}
def memTypeScratchFast : Nat := {int(MemType.Scratch_fast)}
def purposeScratch : Nat := {int(TensorPurpose.Scratch)}

end VelaVerif.Gen.WriterTbl
"""
    return {"WriterTbl.lean": text}
