"""Rule switches of the in-place (IFM/OFM live-range fusing) decision, probed on the LIVE `live_range._get_ifm_to_fuse`.

The Lean model of the decision (`Model/LiveRange.lean: ifmToFuseP`) is parametric in the conditions that pending repairs
of /repo add; each switch is read off the real function by calling it on one stub operation that differs from an
accepted candidate in exactly that attribute (real `Tensor` objects, attribute bags for the operation, like
`liverange_lib.stub_records`). When the baseline candidate is not accepted the probe no longer understands the function:
the unrepaired rules are emitted and the correspondence of ./check C12 (harness/inplace_lib.py, liverange_lib.py) reports
what differs.

* `memcpyChecksWriteProtection` - the Memcpy branch refuses a write protected IFM (/verif_patches/C01-27)
* `elementwiseChecksVariable`   - the elementwise branch refuses an IFM that is a variable tensor (/verif_patches/C12-11)
* `memcpyChecksVariable`        - the Memcpy branch refuses an IFM that is a variable tensor (/verif_patches/C12-11)
"""
from ._lean import HEADER, lit


class _O:
    def __init__(self, **kw):
        self.__dict__.update(kw)


def probe():
    from ethosu.vela import live_range
    from ethosu.vela.data_type import DataType
    from ethosu.vela.operation import Op
    from ethosu.vela.shape4d import Shape4D
    from ethosu.vela.tensor import Tensor, TensorFormat, TensorPurpose

    def fm(name):
        t = Tensor([1, 4, 4, 8], DataType.int8, name)
        t.format = TensorFormat.NHWC
        t.purpose = TensorPurpose.FeatureMap
        t.consumer_list = [_O(name="reader")]
        t.ops = [_O(name="writer")]
        return t

    def run(kind, **attrs):
        ifm, ofm = fm("ifm"), fm("ofm")
        for k, v in attrs.items():
            setattr(ifm, k, v)
        sh = Shape4D([1, 4, 4, 8])
        pop = _O(ifm=ifm, ifm2=None, ofm=ofm, ifm_shapes=[sh], ofm_shapes=[sh], memory_function=None)
        so = _O(parent_op=pop, op_type=kind)
        return live_range._get_ifm_to_fuse(so) is ifm

    out = {}
    for kind, name in ((Op.Abs, "elementwise"), (Op.Memcpy, "memcpy")):
        if not run(kind):
            raise ValueError(f"inplace probe: the baseline {name} candidate is not fused any more")
        out[name + "_wp"] = not run(kind, ifm_write_protected=True)
        out[name + "_var"] = not run(kind, is_variable=True)
    if not out["elementwise_wp"]:
        raise ValueError("inplace probe: the elementwise branch ignores ifm_write_protected")
    return out


def probe_or_default():
    """the probe; when the function no longer accepts the baseline candidates (it was changed beyond the switches known
    here) the unrepaired rules are assumed and the correspondence of ./check C12 reports what differs"""
    try:
        return probe()
    except ValueError:
        return {"memcpy_wp": False, "elementwise_var": False, "memcpy_var": False}


def emit(repo):
    p = probe_or_default()
    text = HEADER + f"""
namespace VelaVerif.Gen.InPlaceRules

/-- `_get_ifm_to_fuse`, Memcpy branch: a write protected IFM is refused (probed on the live function) -/
def memcpyChecksWriteProtection : Bool := {lit(p["memcpy_wp"])}
/-- `_get_ifm_to_fuse`, elementwise branch: a variable tensor is refused as the IFM to overwrite -/
def elementwiseChecksVariable : Bool := {lit(p["elementwise_var"])}
/-- `_get_ifm_to_fuse`, Memcpy branch: a variable tensor is refused as the IFM to share -/
def memcpyChecksVariable : Bool := {lit(p["memcpy_var"])}

end VelaVerif.Gen.InPlaceRules
"""
    return {"InPlaceRules.lean": text}
