"""Source translation of ethosu/vela/architecture_features.py -> lean/VelaVerif/Gen/SrcArchitectureFeatures.lean."""
from ._src import emit_for


def emit(repo):
    return emit_for(repo, "architecture_features")
